"""MIR CFG utilities (engine E4): successors, dominators, reachability, call graph, panic-edge inventory."""
import re
from collections import defaultdict


class CFG:
    def __init__(self, rec):
        self.rec = rec
        self.name = rec["mir"]
        self.blocks = rec["blocks"]
        self.n = len(self.blocks)
        self.succ = [[int(s) for s in b["term"]["succ"]] for b in self.blocks]
        self.cleanup = [bool(b.get("cleanup")) for b in self.blocks]
        self.pred = [[] for _ in range(self.n)]
        for i, ss in enumerate(self.succ):
            for s in ss:
                self.pred[s].append(i)
        self._dom = None

    def reachable_from(self, start, avoid=()):
        """Blocks reachable from `start` (inclusive) along normal edges, never entering blocks in `avoid`."""
        avoid = set(avoid)
        seen, st = set(), [start]
        while st:
            b = st.pop()
            if b in seen or b in avoid:
                continue
            seen.add(b)
            st.extend(self.succ[b])
        return seen

    def dominators(self):
        if self._dom is not None:
            return self._dom
        reach = self.reachable_from(0)
        allb = set(reach)
        dom = {b: set(allb) for b in reach}
        dom[0] = {0}
        changed = True
        order = sorted(reach)
        while changed:
            changed = False
            for b in order:
                if b == 0:
                    continue
                ps = [p for p in self.pred[b] if p in reach]
                new = set(allb)
                for p in ps:
                    new &= dom[p]
                new.add(b)
                if new != dom[b]:
                    dom[b] = new
                    changed = True
        self._dom = dom
        return dom

    def dominates(self, a, b):
        return a in self.dominators().get(b, ())

    def returns(self):
        return [i for i, b in enumerate(self.blocks) if b["term"]["k"] == "return" and not self.cleanup[i]]

    def calls(self):
        for i, b in enumerate(self.blocks):
            t = b["term"]
            if t["k"] == "call" and not self.cleanup[i]:
                yield i, t

    def callee_name(self, t):
        return t.get("resolved") or t.get("callee")


PANIC_CALLEE = re.compile(
    r"(^core::panicking::|^std::rt::begin_panic|^(core|std)::option::Option::<T>::(unwrap|expect)$|"
    r"^(core|std)::result::Result::<T, E>::(unwrap|expect|unwrap_err|expect_err)$|^core::option::unwrap_failed|^core::result::unwrap_failed|"
    r"^core::option::expect_failed|^core::slice::index::|^core::str::slice_error_fail)"
)


def is_panic_callee(name):
    return bool(PANIC_CALLEE.search(name or ""))


class Program:
    """Whole-crate view: per-function CFGs and a resolved call graph."""

    def __init__(self, facts):
        self.facts = facts
        self.cfgs = {}
        self.children = defaultdict(list)      # parent fn -> closures defined inside
        for name, rec in facts.mir.items():
            self.cfgs[name] = CFG(rec)
            if rec.get("parent") and rec["parent"] != name:
                self.children[rec["parent"]].append(name)
        self.impl_recs = {r["impl"]: r for r in getattr(facts, "impls", [])} if isinstance(getattr(facts, "impls", None), list) else \
            dict(getattr(facts, "impls", {}) or {})
        # trait method -> local impl fns
        self.impls_of = defaultdict(list)
        for recs in facts.fns.values():
            for r in recs:
                if r.get("trait_item"):
                    self.impls_of[r["trait_item"]].append(r["fn"])

    def impl_candidates(self, name, t):
        """In-crate impls an unresolved trait-method call may dispatch to. All impls of the method, narrowed by the call's generic arguments where they are
        concrete: `T::from(&number)` inside `fn f<T: From<&Number>>` can only reach `From<&Number>` impls (Self is unknown, the trait's argument is not)."""
        cal = t["callee"]
        imps = self.impls_of[cal]
        gargs = t.get("gargs")
        if not gargs:
            return imps
        rec = self.facts.fn(name) or {}
        par = name
        while rec.get("generics") is None and par in self.facts.mir and self.facts.mir[par].get("parent") and self.facts.mir[par]["parent"] != par:
            par = self.facts.mir[par]["parent"]          # closures use their parent's type parameters
            rec = self.facts.fn(par) or {}
        tparams = [g for g in (rec.get("generics") or []) if not g.startswith("'")] + ["Self"]
        norm = lambda s_: re.sub(r"'\w+ ?", "", s_).replace("mut ", "").strip()
        generic = lambda s_: any(re.search(r"(?<![\w:])%s(?![\w:])" % re.escape(g), s_) for g in tparams) or "{closure" in s_ or "impl " in s_
        prims = {"f64", "f32", "i8", "i16", "i32", "i64", "i128", "isize", "u8", "u16", "u32", "u64", "u128", "usize", "bool", "char", "str", "dyn", "mut", "const", "fn",
                 "for", "as", "unsafe", "extern"}
        # printed types are fully qualified, so a bare identifier that is not a primitive is a type parameter of the impl

        def has_param(s_):
            return any(tok not in prims for tok in re.findall(r"(?<![\w:])([A-Za-z_]\w*)(?!\w|::)", s_))
        out = []
        for imp in imps:
            r = self.facts.fn(imp) or {}
            ir = self.impl_recs.get(r.get("impl"))
            ok = True
            if ir is not None and ir.get("targs") and len(ir["targs"]) == len(gargs):
                for mine, theirs in zip(gargs, ir["targs"]):
                    # the impl's own arguments may be generic too (blanket impls): only two concrete, different types exclude it
                    if not generic(mine) and not has_param(norm(theirs)) and norm(mine) != norm(theirs):
                        ok = False
            if ok:
                out.append(imp)
        return out

    def callees(self, name):
        """(local callee names, external callee names, unresolved trait-method names) of one body (closures not included)."""
        loc, ext, unres = set(), set(), set()
        c = self.cfgs[name]
        for i, t in c.calls():
            if t.get("callee") == "<indirect>":
                continue
            if "resolved" in t:
                (loc if t.get("resolved_local") else ext).add(t["resolved"])
            else:
                cal = t["callee"]
                if cal in self.impls_of:
                    for imp in self.impl_candidates(name, t):
                        loc.add(imp)
                    unres.add(cal)
                elif t.get("local"):
                    loc.add(cal)
                else:
                    ext.add(cal)
        # function items used as values (e.g. `.map(From::from)`): treated as possibly called
        for t in c.rec.get("fnrefs", ()):
            if "resolved" in t:
                (loc if t.get("resolved_local") else ext).add(t["resolved"])
            else:
                cal = t["callee"]
                if cal in self.impls_of:
                    for imp in self.impl_candidates(name, t):
                        loc.add(imp)
                    unres.add(cal)
                elif t.get("local"):
                    loc.add(cal)
                else:
                    ext.add(cal)
        return loc, ext, unres

    def reach(self, entries):
        """All local bodies reachable from the entries (closures of a reachable fn are reachable)."""
        seen, st = set(), list(entries)
        while st:
            f = st.pop()
            if f in seen or f not in self.cfgs:
                continue
            seen.add(f)
            st.extend(self.children.get(f, ()))
            loc, _, _ = self.callees(f)
            st.extend(loc)
        return seen


# ---------------------------------------------------------------- panic-edge inventory
# External callees that can abort on some input (denylist; reviewed by reading their documentation).
PANICKING_EXTERNAL = re.compile(
    r"(as std::ops::Index(Mut)?<|impl std::ops::Index(Mut)?<|"
    r"^<chrono::\w+ as std::ops::(Add|Sub)<|^chrono::\w+::(from_ymd|and_hms|from_hms|succ|pred|with_\w+)$|"
    r"^ndarray::impl_ops::arithmetic_ops::<impl std::ops::(Add|Sub|Mul|Div|Rem)<(&'a )?ndarray::ArrayBase<S2, E>> for (&'a )?ndarray::ArrayBase|"
    r"^ndarray::impl_2d::.*::(row|row_mut|column|column_mut)$|"
    r"^ndarray::impl_methods::.*::(slice|slice_mut|slice_move|index_axis|index_axis_mut|index_axis_move|swap|len_of|axis_iter|axis_iter_mut|"
    r"assign|zip_mut_with|select|remove_index|swap_axes|into_shape|reshape|into_shape_clone|uget|uget_mut|broadcast_unwrap|insert_axis|"
    r"remove_axis|split_at|dot|column|row|outer_iter|into_dimensionality)$|"
    r"^ndarray::impl_views::splitting::.*::split_at$|^ndarray::linalg::|^ndarray::Zip::.*::and$|^ndarray::numeric::.*::(sum_axis|mean_axis|product_axis)$|"
    r"^ndarray::(stack|concatenate)$|"
    r"^core::num::<impl [iu]\w+>::(abs|pow|rem_euclid|div_euclid|ilog\w*|isqrt|next_power_of_two|strict_\w+)$|"
    r"^core::slice::<impl \[T\]>::(split_at|split_at_mut|swap|copy_from_slice|clone_from_slice|chunks|chunks_exact|windows|rotate_left|rotate_right|"
    r"copy_within|select_nth_unstable\w*|first_chunk|split_first_chunk)$|"
    r"^std::vec::Vec::<T, A>::(remove|swap_remove|insert|drain|split_off|truncate_front|splice|extend_from_within)$|"
    r"^std::collections::VecDeque::<T, A>::(swap|insert|split_off|drain|range\w*)$|"
    r"^core::str::<impl str>::(split_at|split_at_mut)$|^std::string::String::(remove|insert|insert_str|drain|split_off|truncate|replace_range)$|"
    r"^std::cell::RefCell::<T>::(borrow|borrow_mut)$|^std::iter::Iterator::step_by$|^core::char::methods::<impl char>::from_digit$|"
    r"^std::time::|^std::process::(exit|abort)$|^std::option::Option::<T>::unwrap_unchecked$|^std::hint::unreachable_unchecked$|"
    r"^std::sync::Mutex::<T>::lock$|^std::thread::|^std::env::|"
    r"^indexmap::Index(Set|Map)::<.*>::(swap_indices|move_index|shift_insert|split_off|drain|insert_before)$)"
)


_INT = r"(?:u8|u16|u32|u64|u128|usize|i8|i16|i32|i64|i128|isize)"
INT_ARITH_IMPL = re.compile(r"^<&?(?:'\w+ )?%s as std::ops::(Add|Sub|Mul|Div|Rem|Neg|Shl|Shr)(?:<&?(?:'\w+ )?%s>)?>::\w+$" % (_INT, _INT))


def is_panicking_external(name):
    return bool(PANICKING_EXTERNAL.search(name or ""))


def short_callee(n):
    n = re.sub(r"<[^<>]*>", "", n)
    n = re.sub(r"<[^<>]*>", "", n)
    parts = [p for p in n.split("::") if p and not p.startswith("<") and p not in ("impl",)]
    return "::".join(parts[-2:]) if parts else n


def panic_sites(c, local_names):
    """All panic edges of one CFG: list of dicts {kind, block, ln, mac}. kind has no line numbers."""
    out = []
    for i, b in enumerate(c.blocks):
        if c.cleanup[i]:
            continue
        t = b["term"]
        if t["k"] == "assert":
            w = t["what"]
            if w.startswith("MisalignedPointer") or w.startswith("NullPointer"):
                continue  # debug-build reference validity checks inserted by rustc, not source-level operations
            # slice indexing (`v[i]` on a slice: a MIR BoundsCheck) and Vec indexing (a call of Index::index) are one kind: the same source expression is one or
            # the other depending on whether the container is passed as `&Vec<T>` or `&[T]`
            out.append({"kind": "ext:index" if w.startswith("BoundsCheck") else "assert:" + w, "block": i, "ln": t["ln"], "mac": t.get("mac")})
        elif t["k"] == "call":
            n = c.callee_name(t)
            if n is None or n == "<indirect>":
                continue
            if is_panic_callee(n):
                k = "panic:" + short_callee(n).replace("::expect", "::unwrap")    # unwrap and expect are one kind (same abort, different message)
                mac = t.get("mac") or []
                for m in ("assert_eq", "assert_ne", "assert", "panic", "unreachable", "unimplemented", "todo", "debug_assert"):
                    if m in mac:
                        k = "panic:" + m + "!"
                        break
                out.append({"kind": k, "block": i, "ln": t["ln"], "mac": t.get("mac")})
            elif INT_ARITH_IMPL.match(n):
                # `a + &b` on integers goes through std's reference-operand impl, whose body holds the same overflow check a primitive `a + b` has in
                # this function's MIR: one kind for both spellings
                op = INT_ARITH_IMPL.match(n).group(1)
                out.append({"kind": "assert:DivisionByZero" if op in ("Div", "Rem") else "assert:Overflow(%s)" % op, "block": i, "ln": t["ln"], "mac": t.get("mac")})
            elif n not in local_names and is_panicking_external(n):
                out.append({"kind": "ext:" + short_callee(n), "block": i, "ln": t["ln"], "mac": t.get("mac")})
    return out


def ctrl_depth(c, block):
    """Number of dominating conditional branches on which `block` is control dependent
    (a dominating switch some successor of which cannot reach `block`)."""
    n = 0
    doms = c.dominators().get(block, set())
    after = c.reachable_from(block)
    for d in doms:
        if d == block:
            continue
        t = c.blocks[d]["term"]
        if t["k"] != "switch":
            continue
        if d in after:
            continue          # loop control (the test is re-reached from the site): `while`/`for` headers are not validation guards, and the same body
                              # written as an iterator closure would not have them
        for s in c.succ[d]:
            if block not in c.reachable_from(s):
                n += 1
                break
    return n


def loop_depth(c, block):
    """Number of loop headers `block` sits inside: dominating switches that are re-reached from the block (the `for`/`while` test)."""
    doms = c.dominators().get(block, set())
    after = c.reachable_from(block)
    return sum(1 for d in doms if d != block and c.blocks[d]["term"]["k"] == "switch" and d in after)


def closure_creation_depth(P, name):
    """Control depth at which a closure body is created in its parent (summed through nested closures): the closure's sites inherit those guards."""
    total = 0
    seen = set()
    while name in P.cfgs and name not in seen:
        seen.add(name)
        rec = P.cfgs[name].rec
        parent = rec.get("parent")
        if not parent or parent == name or parent not in P.cfgs:
            break
        pc = P.cfgs[parent]
        tag = ":%d:" % rec.get("line", -1)
        blk = None
        for i, b in enumerate(pc.blocks):
            for st in b["stmts"]:
                rv = st.get("rv", "")
                if rv.startswith("{closure@") and tag in rv.split("}")[0]:
                    blk = i
        if blk is not None:
            total += ctrl_depth(pc, blk)
        name = parent
    return total
