"""Flattening of guarded alternatives into a set of paths with normalised conditions (spelling-independent comparison of control structure)."""
import cel
from cel import Alt, Sym, Poly


def norm_cond(g):
    """(atom key, polarity) for a guard produced by the evaluator."""
    pol = True
    while True:
        if isinstance(g, tuple) and len(g) == 2 and g[0] == "not":
            pol, g = not pol, g[1]
            continue
        if isinstance(g, tuple) and len(g) == 3 and g[0] == "arm" and g[1] in ("None", ("Err", "_")):
            # matching None / Err(_) is the negation of matching Some(_) / Ok(_) on the same scrutinee
            return (("arm", ("Some", "_") if g[1] == "None" else ("Ok", "_"), g[2]), not pol)
        if isinstance(g, tuple) and len(g) == 2 and g[0] == "if":
            k = g[1]
            # peel symbolic negation / comparison polarity
            if isinstance(k, tuple) and k[:2] == ("sym", "not"):
                pol, g = not pol, ("if", k[2])
                continue
            if isinstance(k, tuple) and k[:2] == ("sym", "cmp"):
                rel = k[2]
                if rel == "Le" and len(k) == 4:      # d <= 0  ==  not (-d < 0)
                    d = cel.poly_from_key(k[3])
                    return (("sym", "cmp", "Lt", (-d).key()), not pol)
                if rel == "Ne":
                    return (("sym", "cmp", "Eq") + tuple(k[3:]), not pol)
                if rel in ("Ge", "Gt") and len(k) == 5:   # opaque operands: a >= b == not (a < b); a > b == b < a
                    if rel == "Ge":
                        return (("sym", "cmp", "Lt", k[3], k[4]), not pol)
                    return (("sym", "cmp", "Lt", k[4], k[3]), pol)
                if rel == "Le" and len(k) == 5:
                    return (("sym", "cmp", "Lt", k[4], k[3]), not pol)
            return (k, pol)
        return (g, pol)


def flatten(v, conds=()):
    """[(frozenset of (atom, polarity), leaf value)]"""
    if isinstance(v, Alt):
        out = []
        for g, x in v.alts:
            gs = g[1] if isinstance(g, tuple) and len(g) == 2 and g[0] == "all" else (g,)
            out.extend(flatten(x, conds + tuple(norm_cond(y) for y in gs)))
        return out
    cs = frozenset(conds)
    if any((a, not p) in cs for a, p in cs):
        return []            # a path that assumes a test both ways (the same test evaluated twice, e.g. inside a helper called twice) is infeasible
    # a test whose value is itself a guarded alternative (`if !helper(x)` where the helper branches and returns a different test on each branch): the path
    # splits by the helper's branch, each carrying that branch's own test — the same paths the helper's body inlined at the call site leaves
    for a, p in cs:
        k = a[1] if isinstance(a, tuple) and len(a) == 2 and a[0] == "if" else a
        if isinstance(k, tuple) and len(k) == 2 and k[0] == "alt" and all(isinstance(x, tuple) and len(x) == 2 for x in k[1]):
            rest = tuple((a2, p2) for a2, p2 in cs if (a2, p2) != (a, p))
            out = []
            for g, bk in k[1]:
                gs = g[1] if isinstance(g, tuple) and len(g) == 2 and g[0] == "all" else (g,)
                ba, bp = norm_cond(("if", bk))
                if isinstance(ba, tuple) and ba[:2] == ("sym", "bool"):
                    if (ba[2] == "true") != (bp if p else not bp):
                        continue          # this branch's constant contradicts the polarity the path assumes
                    extra = ()
                else:
                    extra = ((ba, bp if p else not bp),)
                out.extend(_reflat(v, rest + tuple(norm_cond(y) for y in gs) + extra))
            return out
    return [(cs, v)]


def _reflat(v, lits):
    return flatten(v, tuple(lits))          # (conditions are kept as normalised (atom, polarity) pairs; a further alternative-valued test splits again)


def lit(v, pol=True):
    """(atom, polarity) of a condition given as a cel value (or key), as it appears in a flattened path."""
    k = v if isinstance(v, tuple) else cel.vkey(v)
    a, p = norm_cond(("if", k))
    return (a, p if pol else not p)


def int_feasible(cset, var, domain):
    """Value-set analysis of one integer variable along a path: (feasible values of `var` in `domain` under the path's literals that mention only `var`,
    the remaining literals). Literals are integer comparisons `p < 0` / `p == 0` with p a polynomial in `var` alone."""
    mine, rest = [], []
    for a, pol in atoms(cset):
        p = None
        if isinstance(a, tuple) and a[:2] == ("sym", "cmp") and len(a) == 4 and a[2] in ("Lt", "Le", "Eq"):
            q = cel.poly_from_key(a[3])
            names = {at for (mono, tens) in q.t for at, _ in mono}
            if tens_free(q) and names <= {var} and names:
                p = q
        if p is None and isinstance(a, tuple) and a[:1] == ("arm",) and len(a) == 3 and isinstance(a[1], str) and a[1].lstrip("-").isdigit() \
                and a[2] == cel.Poly.atom(var).key():
            mine.append(("Eq", cel.Poly.atom(var) - cel.Poly.const(int(a[1])), pol))       # a literal arm of `match var { 3 => .. }`
            continue
        if p is None:
            rest.append((a, pol))
        else:
            mine.append((a[2], p, pol))

    def val(p, t):
        return sum(c * (t ** sum(e for _, e in mono)) for (mono, _), c in p.t.items())
    feas = [t for t in domain if all(({"Lt": val(p, t) < 0, "Le": val(p, t) <= 0, "Eq": val(p, t) == 0}[rel]) == pol for rel, p, pol in mine)]
    return feas, frozenset(rest)


def tens_free(p):
    return all(tens is None for (_, tens) in p.t)


def atoms(cset):
    """Split a path's condition set into literals: a refuted disjunction contributes each disjunct refuted, an established conjunction each conjunct
    established (De Morgan), recursively — so `if a || b {return}` and `if a {return} if b {return}` leave the same literals behind."""
    out = set()

    def add(k, pol):
        a, p = norm_cond(("if", k))
        p = p if pol else not p
        if isinstance(a, tuple) and a[:2] == ("sym", "or") and not p:
            for d in a[2:]:
                add(d, False)
        elif isinstance(a, tuple) and a[:2] == ("sym", "and") and p:
            for d in a[2:]:
                add(d, True)
        else:
            out.add((a, p))
    for a, p in cset:
        add(a, p)
    # unit propagation: a refuted conjunction all of whose conjuncts but one are established refutes the last one (and dually for an established disjunction) —
    # `if !empty && n != m { return Err }` followed by a split on `empty` leaves `n == m` behind on the non-empty path
    changed = True
    while changed:
        changed = False
        for a, p in list(out):
            if not (isinstance(a, tuple) and a[:2] in (("sym", "and"), ("sym", "or")) and p == (a[1] == "or")):
                continue
            want = (a[1] == "or")          # an established `or` needs one true disjunct; a refuted `and` one false conjunct
            lits = [norm_cond(("if", d)) for d in a[2:]]
            open_ = [(k, pp) for k, pp in lits if (k, pp) not in out and (k, not pp) not in out]
            decided_other = [(k, pp) for k, pp in lits if (k, (pp if not want else not pp)) in out]          # conjuncts known true / disjuncts known false
            if len(open_) == 1 and len(decided_other) == len(lits) - 1:
                k, pp = open_[0]
                lit_ = (k, pp if want else not pp)
                if lit_ not in out:
                    before = len(out)
                    add(k if pp else ("sym", "not", k), want)
                    changed = changed or len(out) != before
    return frozenset(out)


def may_establish(cset, lit):
    """Does the path establish `lit` directly, or establish a disjunction one of whose disjuncts is `lit` (an `if a || b { return Err }` path)?"""
    if lit in atoms(cset):
        return True
    for a, p in cset:
        k, pp = norm_cond(("if", a))
        pp = pp if p else not pp
        if isinstance(k, tuple) and k[:2] == ("sym", "or") and pp:
            if any(lit in atoms({(d, True)}) for d in k[2:]):
                return True
    return False


def minimise(pset):
    """Boolean minimisation of a path set {(frozenset of literals, leaf key)}: two paths with the same leaf whose conditions differ in the polarity of exactly
    one literal are one path without that literal (the test was irrelevant there); literals are first split (De Morgan). Repeated to a fixed point, so the
    order and nesting in which independent tests are made does not show."""
    cur = {(atoms(c), v) for c, v in pset}
    changed = True
    while changed:
        changed = False
        lst = list(cur)
        for i in range(len(lst)):
            for j in range(i + 1, len(lst)):
                (c1, v1), (c2, v2) = lst[i], lst[j]
                if v1 != v2 or len(c1) != len(c2):
                    continue
                d1, d2 = c1 - c2, c2 - c1
                if len(d1) == 1 and len(d2) == 1:
                    (a1, p1), (a2, p2) = next(iter(d1)), next(iter(d2))
                    if a1 == a2 and p1 != p2:
                        cur.discard(lst[i]); cur.discard(lst[j])
                        cur.add((c1 & c2, v1))
                        changed = True
                        break
            if changed:
                break
    return cur


def path_set(v):
    return {(c, cel.vkey(x)) for c, x in flatten(v)}


def fmt_paths(v):
    out = []
    for c, x in flatten(v):
        cs = ", ".join(("" if pol else "!") + short(a) for a, pol in sorted(c, key=repr))
        out.append("[%s] -> %s" % (cs, cel.vfmt(x)[:200]))
    return " ;; ".join(out)


def short(a):
    s = repr(a)
    return s if len(s) < 90 else s[:87] + "..."
