"""Facts: freshness key, driver invocation, loading and indexing (engine E1, python side)."""
import fcntl, hashlib, json, os, subprocess, sys, time, glob, shutil

VERIF = os.path.dirname(os.path.dirname(os.path.abspath(__file__)))
CACHE = os.path.join(VERIF, ".cache")
DRIVER_DIR = os.path.join(VERIF, "driver")
DRIVER_BIN = os.path.join(DRIVER_DIR, "target", "debug", "factdrv")

# non-Rust inputs the rules read (relative to the repo root)
EXTRA_GLOBS = [
    "Cargo.toml", "Cargo.lock",
    "python/rateslib/calendars/rs.py",
    "python/rateslib/fx/fx_rates.py",
    "python/rateslib/data/*_rfr.csv",
    "python/tests/test_calendarsrs.py",
    "rust/calendars/named/*.py",
]


class Broken(Exception):
    """The checker itself cannot run (driver/build failure) — exit code 2."""


def repo_root():
    return os.environ.get("VERIF_REPO", "/repo")


def tree_key(repo):
    h = hashlib.sha256()
    paths = []
    for root, dirs, files in os.walk(os.path.join(repo, "rust")):
        dirs.sort()
        for f in sorted(files):
            if f.endswith(".rs"):
                paths.append(os.path.join(root, f))
    for g in EXTRA_GLOBS:
        paths.extend(sorted(glob.glob(os.path.join(repo, g))))
    for p in sorted(set(paths)):
        h.update(os.path.relpath(p, repo).encode())
        h.update(b"\0")
        with open(p, "rb") as fh:
            h.update(fh.read())
        h.update(b"\0")
    with open(os.path.join(DRIVER_DIR, "src", "main.rs"), "rb") as fh:
        h.update(fh.read())
    return h.hexdigest()


def _sysroot_lib():
    out = subprocess.run(["rustc", "+nightly", "--print", "sysroot"], capture_output=True, text=True)
    if out.returncode != 0:
        raise Broken("nightly toolchain not available: " + out.stderr)
    return os.path.join(out.stdout.strip(), "lib")


def _env():
    env = dict(os.environ)
    env["CARGO_NET_OFFLINE"] = "true"
    env.pop("RUSTC_WRAPPER", None)
    return env


def ensure_driver():
    src = os.path.join(DRIVER_DIR, "src", "main.rs")
    if os.path.exists(DRIVER_BIN) and os.path.getmtime(DRIVER_BIN) >= os.path.getmtime(src):
        return
    r = subprocess.run(["cargo", "build", "--offline"], cwd=DRIVER_DIR, env=_env(), capture_output=True, text=True)
    if r.returncode != 0 or not os.path.exists(DRIVER_BIN):
        raise Broken("factdrv build failed:\n" + r.stderr[-4000:])
    os.utime(DRIVER_BIN, None)


def ensure_facts(repo=None, verbose=True):
    """Return the path of a facts file whose key equals the key of the tree at `repo` now."""
    repo = repo or repo_root()
    os.makedirs(CACHE, exist_ok=True)
    key = tree_key(repo)
    path = os.path.join(CACHE, "facts-%s.jsonl" % key[:24])
    if os.path.exists(path):
        try:
            os.utime(path, None)   # LRU: recently used facts survive the cache trim
        except OSError:
            pass
        return path, key
    with open(os.path.join(CACHE, "facts.lock"), "w") as lk:
        fcntl.flock(lk, fcntl.LOCK_EX)
        if os.path.exists(path):
            return path, key
        ensure_driver()
        target = os.path.join(CACHE, "target")
        for fp in glob.glob(os.path.join(target, "debug", ".fingerprint", "rateslib-*")):
            shutil.rmtree(fp, ignore_errors=True)
        env = _env()
        env["LD_LIBRARY_PATH"] = _sysroot_lib() + ":" + env.get("LD_LIBRARY_PATH", "")
        env["RUSTFLAGS"] = "-Zmir-opt-level=0 -Awarnings"
        env["RUSTC_WORKSPACE_WRAPPER"] = DRIVER_BIN
        env["CARGO_TARGET_DIR"] = target
        tmp = path + ".build%d" % os.getpid()
        env["FACTDRV_OUT"] = tmp
        t0 = time.time()
        r = subprocess.run(["cargo", "+nightly", "check", "--offline", "--lib"], cwd=repo, env=env,
                           capture_output=True, text=True)
        if r.returncode != 0 or not os.path.exists(tmp):
            raise Broken("fact extraction failed (does %s compile?):\n%s" % (repo, r.stderr[-6000:]))
        os.rename(tmp, path)
        if verbose:
            print("facts: rebuilt in %.1fs -> %s" % (time.time() - t0, os.path.basename(path)), file=sys.stderr)
        # keep the cache small: newest 6 facts files
        fs = sorted(glob.glob(os.path.join(CACHE, "facts-*.jsonl")), key=os.path.getmtime, reverse=True)
        try:
            keep = os.path.join(CACHE, "facts-%s.jsonl" % tree_key("/repo")[:24])    # scratch-copy runs never evict /repo's own facts
        except Exception:
            keep = None
        for old in [f for f in fs if f != keep][10:]:
            try:
                os.remove(old)
            except OSError:
                pass
    return path, key


# developer aid (tools/coverage.py): with VERIF_COVERAGE=<file prefix> set, the names of the function bodies a check fetched (to evaluate or inspect) are
# written to <prefix>.<pid> at exit
_COV = None
if os.environ.get("VERIF_COVERAGE"):
    import atexit
    _COV = set()
    atexit.register(lambda: open("%s.%d" % (os.environ["VERIF_COVERAGE"], os.getpid()), "w").write("\n".join(sorted(_COV))))


class Facts:
    def __init__(self, path, key, repo):
        self.path, self.key, self.repo = path, key, repo
        self.fns, self.mir, self.impls, self.adts = {}, {}, [], {}
        self.astadt, self.astfn, self.fmts, self.files = {}, {}, [], []
        self.hdr = None
        with open(path) as fh:
            for line in fh:
                r = json.loads(line)
                if "hdr" in r:
                    self.hdr = r
                elif "fn" in r:
                    self.fns.setdefault(r["fn"], []).append(r)
                elif "mir" in r:
                    self.mir[r["mir"]] = r
                elif "impl" in r:
                    self.impls.append(r)
                elif "adt" in r:
                    self.adts[r["adt"]] = r
                elif "astadt" in r:
                    self.astadt[r["astadt"].lstrip(":")] = r
                elif "astfn" in r:
                    self.astfn.setdefault(r["astfn"], []).append(r)
                elif "fmt" in r:
                    self.fmts.append(r)
                elif "files" in r:
                    self.files = r["files"]
        if not self.hdr or not self.fns or not self.mir:
            raise Broken("facts file incomplete: " + path)

    def fn(self, name):
        """The unique body with this def-path (fail closed if absent/ambiguous)."""
        v = self.fns.get(name)
        if not v:
            return None
        if _COV is not None:
            _COV.add(name)
        return self._sugar(v[0])

    def _sugar(self, r):
        if not r.get("_sugared"):
            import hir
            r["body"] = hir.resugar(r["body"])
            r["_sugared"] = True
        return r

    def fns_where(self, pred):
        return [self._sugar(r) for v in self.fns.values() for r in v if pred(r)]

    def all_fns(self):
        for v in self.fns.values():
            for r in v:
                yield self._sugar(r)


_loaded = {}


def load(repo=None):
    repo = repo or repo_root()
    path, key = ensure_facts(repo)
    if path not in _loaded:
        _loaded[path] = Facts(path, key, repo)
    return _loaded[path]
