"""Interpreter for the declarative `RULES = [Holiday(...), ...]` lists in the repo's `<name>_script.py` generators (engine E6).

The scripts are parsed with `ast` (never imported or executed; pandas is not needed). Supported subset of pandas.tseries.holiday.Holiday:
  month/day[/year], start_date/end_date = datetime(y,m,d), offset = [Easter(), Day(k)] | DateOffset(weekday=XX(n)) | Day(k) | Easter(),
  observance in {nearest_workday, sunday_to_monday, next_monday, next_monday_or_tuesday, previous_friday, next_workday, previous_workday}.
Anything else raises Unsupported (callers fail closed or skip, as their rule says)."""
import ast
from datetime import date, timedelta

START, END = date(1970, 1, 1), date(2200, 12, 31)
WD = {"MO": 0, "TU": 1, "WE": 2, "TH": 3, "FR": 4, "SA": 5, "SU": 6}


class Unsupported(Exception):
    pass


def easter(y):
    """Western (Gregorian) Easter Sunday — anonymous Gregorian algorithm (same result as dateutil.easter.easter(y))."""
    a, b, c = y % 19, y // 100, y % 100
    d, e = b // 4, b % 4
    f = (b + 8) // 25
    g = (b - f + 1) // 3
    h = (19 * a + b - d - g + 15) % 30
    i, k = c // 4, c % 4
    l = (32 + 2 * e + 2 * i - h - k) % 7
    m = (a + 11 * h + 22 * l) // 451
    month = (h + l - 7 * m + 114) // 31
    day = (h + l - 7 * m + 114) % 31 + 1
    return date(y, month, day)


def _next_easter(d):
    """date + pandas Easter(): the first Easter Sunday strictly after d."""
    e = easter(d.year)
    return e if e > d else easter(d.year + 1)


def _weekday_nth(d, wd, n):
    """relativedelta(weekday=XX(n)): n>0 the n-th such weekday on/after d; n<0 the |n|-th on/before d."""
    if n > 0:
        delta = (wd - d.weekday()) % 7
        return d + timedelta(days=delta + 7 * (n - 1))
    delta = (d.weekday() - wd) % 7
    return d - timedelta(days=delta + 7 * (-n - 1))


OBS = {
    "nearest_workday": lambda d: d - timedelta(1) if d.weekday() == 5 else (d + timedelta(1) if d.weekday() == 6 else d),
    "sunday_to_monday": lambda d: d + timedelta(1) if d.weekday() == 6 else d,
    "next_monday": lambda d: d + timedelta(2) if d.weekday() == 5 else (d + timedelta(1) if d.weekday() == 6 else d),
    "next_monday_or_tuesday": lambda d: d + timedelta(2) if d.weekday() in (5, 6) else (d + timedelta(1) if d.weekday() == 0 else d),
    "previous_friday": lambda d: d - timedelta(1) if d.weekday() == 5 else (d - timedelta(2) if d.weekday() == 6 else d),
}


def _const(node):
    if isinstance(node, ast.Constant):
        return node.value
    if isinstance(node, ast.UnaryOp) and isinstance(node.op, ast.USub) and isinstance(node.operand, ast.Constant):
        return -node.operand.value
    raise Unsupported(ast.dump(node)[:80])


def _offset_step(node):
    """One offset object -> function date->date."""
    if not isinstance(node, ast.Call) or not isinstance(node.func, ast.Name):
        raise Unsupported("offset " + ast.dump(node)[:80])
    fn = node.func.id
    if fn == "Easter" and not node.args and not node.keywords:
        return _next_easter
    if fn == "Day" and len(node.args) == 1 and not node.keywords:
        k = _const(node.args[0])
        return lambda d, k=k: d + timedelta(days=k)
    if fn == "DateOffset" and not node.args and len(node.keywords) == 1 and node.keywords[0].arg == "weekday":
        w = node.keywords[0].value
        if isinstance(w, ast.Call) and isinstance(w.func, ast.Name) and w.func.id in WD and len(w.args) == 1:
            wd, n = WD[w.func.id], _const(w.args[0])
            if n == 0:
                raise Unsupported("weekday(0)")
            return lambda d, wd=wd, n=n: _weekday_nth(d, wd, n)
    raise Unsupported("offset " + ast.dump(node)[:120])


def _dt(node):
    if isinstance(node, ast.Call) and isinstance(node.func, ast.Name) and node.func.id == "datetime" and len(node.args) == 3:
        return date(*[_const(a) for a in node.args])
    raise Unsupported("date " + ast.dump(node)[:80])


class Rule:
    def __init__(self, call):
        if not (isinstance(call, ast.Call) and isinstance(call.func, ast.Name) and call.func.id == "Holiday"):
            raise Unsupported("not a Holiday(...) call: " + ast.dump(call)[:80])
        self.name = _const(call.args[0]) if call.args else "?"
        if len(call.args) > 1:
            raise Unsupported("positional args")
        kw = {k.arg: k.value for k in call.keywords}
        self.year = _const(kw.pop("year")) if "year" in kw else None
        self.month, self.day = _const(kw.pop("month")), _const(kw.pop("day"))
        self.start = _dt(kw.pop("start_date")) if "start_date" in kw else None
        self.end = _dt(kw.pop("end_date")) if "end_date" in kw else None
        self.steps, self.obs, self.kind = [], None, "fixed"
        if "offset" in kw:
            o = kw.pop("offset")
            nodes = o.elts if isinstance(o, (ast.List, ast.Tuple)) else [o]
            self.steps = [_offset_step(n) for n in nodes]
            names = [n.func.id for n in nodes]
            self.kind = "easter" if "Easter" in names else "weekday"
        if "observance" in kw:
            o = kw.pop("observance")
            if self.steps:
                raise Unsupported("offset and observance together")
            if not isinstance(o, ast.Name) or o.id not in OBS:
                raise Unsupported("observance " + (o.id if isinstance(o, ast.Name) else ast.dump(o)[:60]))
            self.obs, self.kind = OBS[o.id], "observed:" + o.id
        if kw:
            raise Unsupported("keywords " + ",".join(kw))

    def dates(self):
        """All dates of this rule within [START, END] (pandas Holiday.dates semantics)."""
        if self.year is not None:
            ds = [date(self.year, self.month, self.day)]
        else:
            ds = []
            for y in range(START.year - 1, END.year + 2):
                try:
                    d = date(y, self.month, self.day)
                except ValueError:
                    continue
                for s in self.steps:
                    d = s(d)
                if self.obs:
                    d = self.obs(d)
                ds.append(d)
        lo = max(START, self.start) if self.start else START
        hi = min(END, self.end) if self.end else END
        return [d for d in ds if lo <= d <= hi]


def parse_script(path):
    """-> (rules, unsupported) where unsupported = [(name-or-text, reason)]."""
    tree = ast.parse(open(path).read())
    rules_node = None
    for n in tree.body:
        if isinstance(n, ast.Assign) and any(isinstance(t, ast.Name) and t.id == "RULES" for t in n.targets):
            rules_node = n.value
    if not isinstance(rules_node, (ast.List, ast.Tuple)):
        raise Unsupported("no literal RULES list in " + path)
    rules, bad = [], []
    for c in rules_node.elts:
        try:
            rules.append(Rule(c))
        except Unsupported as e:
            nm = "?"
            try:
                nm = _const(c.args[0])
            except Exception:
                pass
            bad.append((nm, str(e)))
    return rules, bad


def weekday_holidays(rules):
    out = set()
    for r in rules:
        for d in r.dates():
            if d.weekday() < 5:
                out.add(d)
    return out
