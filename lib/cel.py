"""cel — canonical expression language (engine E2).

A deterministic term rewriter that turns a typed-HIR expression into a normal form: a sum of monomials with exact rational
coefficients over typed atoms (operand fields, exp(.), ln(.), pow(.,.), Phi, PhiInv, trunc, sqrt, inv(.), outer(u,v)), with at most
one tensor atom (vector or matrix) per monomial. No execution of rateslib code, no paths, no solver: `let`s are inlined, immediately
applied closures are beta-reduced, borrows/clones/views are erased, in-crate helpers are summarised by evaluating their own bodies
symbolically (bounded depth), branches are kept as guarded alternatives.
"""
import re
from fractions import Fraction as F
import hir


class Unsupported(Exception):
    """The expression uses a construct the normaliser does not model (callers fail closed)."""


class Return(Exception):
    """`return v` reached while evaluating a path; carries the returned value to the function boundary / path split."""

    def __init__(self, value):
        Exception.__init__(self, "return")
        self.value = value


# ------------------------------------------------------------------------------------------------ polynomials
def _srt(xs):
    return tuple(sorted(xs, key=repr))


class Poly:
    """sum of  coef * prod(atom^exp) * [tensor atom]   ;  order: 0 scalar, 1 vector, 2 matrix."""
    __slots__ = ("t", "order")

    def __init__(self, t=None, order=0):
        self.t = {k: v for k, v in (t or {}).items() if v != 0}
        self.order = order

    # -- constructors
    @staticmethod
    def const(c):
        return Poly({((), None): F(c)}, 0)

    @staticmethod
    def atom(a):
        return Poly({(((a, 1),), None): F(1)}, 0)

    @staticmethod
    def tensor(a, order):
        return Poly({((), a): F(1)}, order)

    def is_zero(self):
        return not self.t

    def key(self):
        return (self.order, _srt((k, (v.numerator, v.denominator)) for k, v in self.t.items()))

    def __eq__(self, o):
        return isinstance(o, Poly) and self.t == o.t and (self.order == o.order or self.is_zero() or o.is_zero())

    def __hash__(self):
        return hash(self.key())

    def const_value(self):
        """Fraction if this is a constant scalar, else None."""
        if not self.t:
            return F(0)
        if len(self.t) == 1 and ((), None) in self.t:
            return self.t[((), None)]
        return None

    # -- ring operations
    def __add__(self, o):
        if self.is_zero():
            return o
        if o.is_zero():
            return self
        if self.order != o.order:
            raise Unsupported("adding order %d and order %d values" % (self.order, o.order))
        t = dict(self.t)
        for k, v in o.t.items():
            t[k] = t.get(k, 0) + v
        return Poly(t, self.order)

    def __neg__(self):
        return Poly({k: -v for k, v in self.t.items()}, self.order)

    def __sub__(self, o):
        return self + (-o)

    def scale(self, c):
        return Poly({k: v * c for k, v in self.t.items()}, self.order)

    def __mul__(self, o):
        if self.order and o.order:
            raise Unsupported("product of two tensors")
        out = Poly({}, self.order or o.order)
        for (m1, t1), c1 in self.t.items():
            for (m2, t2), c2 in o.t.items():
                d = dict(m1)
                for a, e in m2:
                    d[a] = d.get(a, 0) + e
                out = out + simplify_mono(c1 * c2, d, t1 or t2, self.order or o.order)
        return out

    def pow_int(self, n):
        if n == 0:
            return Poly.const(1)
        if n < 0:
            return self.inv().pow_int(-n)
        r = Poly.const(1)
        for _ in range(n):
            r = r * self
        return r

    def inv(self):
        if self.order:
            raise Unsupported("inverse of a tensor")
        if self.is_zero():
            raise Unsupported("division by literal zero")
        if len(self.t) == 1:
            ((m, _), c), = self.t.items()
            return simplify_mono(1 / c, {a: -e for a, e in m}, None, 0)
        # general denominator: factor out the leading coefficient so that P and -P share one atom
        lead = sorted(self.t.items(), key=lambda kv: repr(kv[0]))[0][1]
        p1 = self.scale(1 / lead)
        return Poly.atom(("inv", p1.key())).scale(1 / lead)

    def transpose(self):
        if self.order != 2:
            raise Unsupported("transpose of a non-matrix")
        t = {}
        for (m, a), c in self.t.items():
            if a[0] == "mat":
                a2 = ("matT", a[1])
            elif a[0] == "matT":
                a2 = ("mat", a[1])
            elif a[0] == "outer":
                a2 = ("outer", a[2], a[1])
            else:
                raise Unsupported("transpose of " + repr(a))
            t[(m, a2)] = t.get((m, a2), 0) + c
        return Poly(t, 2)

    def fmt(self):
        if not self.t:
            return "0"
        parts = []
        for (m, a), c in sorted(self.t.items(), key=lambda kv: repr(kv[0])):
            s = []
            if c != 1 or (not m and a is None):
                s.append(str(c))
            for at, e in m:
                s.append(fmt_atom(at) + ("" if e == 1 else "^%s" % e))
            if a is not None:
                s.append(fmt_atom(a))
            parts.append("*".join(s))
        return " + ".join(parts)


def fmt_atom(a):
    if isinstance(a, str):
        return a
    tag = a[0]
    if tag in ("vec", "mat"):
        return a[1]
    if tag == "matT":
        return a[1] + "^T"
    if tag == "outer":
        return "outer(%s,%s)" % (fmt_atom(a[1]), fmt_atom(a[2]))
    if tag in ("exp", "ln", "Phi", "PhiInv", "trunc", "truncq", "sqrt", "inv", "signum", "abs"):
        return "%s(%s)" % (tag, poly_from_key(a[1]).fmt())
    if tag == "pow":
        return "pow(%s; %s)" % (poly_from_key(a[1]).fmt(), poly_from_key(a[2]).fmt())
    if tag == "call":
        return "%s(%s)" % (a[1], ", ".join(poly_from_key(x).fmt() if isinstance(x, tuple) and len(x) == 2 and isinstance(x[0], int) else repr(x) for x in a[2]))
    return repr(a)


def poly_from_key(k):
    order, items = k
    return Poly({kk: F(n, d) for kk, (n, d) in items}, order)


def simplify_mono(coef, d, tens, order):
    """Normalise one monomial (dict atom->int exponent); may expand into several terms. Returns a Poly."""
    d = {a: e for a, e in d.items() if e != 0}
    extra = Poly.const(1)
    # sqrt(P)^2 -> P
    for a in [a for a in d if isinstance(a, tuple) and a[0] == "sqrt"]:
        e = d[a]
        k = e // 2
        r = e - 2 * k
        if k:
            extra = extra * poly_from_key(a[1]).pow_int(k)
            if r:
                d[a] = r
            else:
                del d[a]
    # exp(P)^n * exp(Q)^m -> exp(nP+mQ)
    exps = [a for a in d if isinstance(a, tuple) and a[0] == "exp"]
    if exps and (len(exps) > 1 or d[exps[0]] != 1):
        s = Poly.const(0)
        for a in exps:
            s = s + poly_from_key(a[1]).scale(d[a])
            del d[a]
        if not s.is_zero():
            d[("exp", s.key())] = 1
    # pow(x;P) atoms are deliberately NOT merged with plain powers of x or with each other: x^p / x and x^(p-1) are the same
    # function only away from x = 0, and the properties quantify over every point where the formula is differentiable.
    mono = _srt((a, e) for a, e in d.items() if e != 0)
    p = Poly({(mono, tens): F(coef)}, order)
    if extra.const_value() == 1:
        return p
    return p * extra


def func_atom(tag, p):
    """Unary function atom over a scalar polynomial, with a few exact simplifications."""
    if p.order:
        raise Unsupported("%s of a tensor" % tag)
    cv = p.const_value()
    if tag == "exp" and cv == 0:
        return Poly.const(1)
    if tag == "ln" and cv == 1:
        return Poly.const(0)
    if tag == "sqrt" and cv is not None and cv >= 0:
        n, dd = cv.numerator, cv.denominator
        import math
        if math.isqrt(n) ** 2 == n and math.isqrt(dd) ** 2 == dd:
            return Poly.const(F(math.isqrt(n), math.isqrt(dd)))
    return Poly.atom((tag, p.key()))


def powf(base, ex):
    cv = ex.const_value()
    if cv is not None and cv.denominator == 1:
        return base.pow_int(int(cv))
    if cv is not None and cv == F(1, 2):
        return func_atom("sqrt", base)
    return simplify_mono(F(1), {("pow", base.key(), ex.key()): 1}, None, 0)


def outer(u, v):
    if u.order != 1 or v.order != 1:
        if u.is_zero() or v.is_zero():
            return Poly({}, 2)
        raise Unsupported("outer product of non-vectors")
    out = Poly({}, 2)
    for (m1, t1), c1 in u.t.items():
        for (m2, t2), c2 in v.t.items():
            d = dict(m1)
            for a, e in m2:
                d[a] = d.get(a, 0) + e
            out = out + simplify_mono(c1 * c2, d, ("outer", t1, t2), 2)
    return out


# ------------------------------------------------------------------------------------------------ symbolic values
class Rec:
    """A struct value with symbolic fields (Dual, Dual2, data models, ...)."""

    def __init__(self, adt, fields):
        self.adt, self.fields = adt, fields

    def key(self):
        return ("rec", self.adt, _srt((k, vkey(v)) for k, v in self.fields.items()))


class Tup:
    def __init__(self, items):
        self.items = items

    def key(self):
        return ("tup", tuple(vkey(v) for v in self.items))


class Sym:
    """An opaque symbolic value with a canonical tag (variable provenance, comparison results, constructors...)."""

    def __init__(self, *tag):
        self.tag = tag

    def key(self):
        return ("sym",) + tuple(vkey(t) for t in self.tag)

    def __repr__(self):
        return "Sym%r" % (self.tag,)


class Alt:
    """Guarded alternatives produced by if/match in tail position."""

    def __init__(self, alts):
        self.alts = alts  # list of (guard key, value)

    def key(self):
        return ("alt", tuple((g, vkey(v)) for g, v in self.alts))


class Seq:
    """A symbolic iterator over a container `src`: element number idx has the symbolic value fn(idx)."""

    def __init__(self, src, fn, enumerated=False):
        self.src, self.fn, self.enumerated = src, fn, enumerated

    @property
    def elem(self):
        return self.fn(Poly.atom("i"))

    def key(self):
        return ("seq", vkey(self.src), vkey(self.elem), self.enumerated)


class Coll:
    """A collected sequence (Vec / IndexMap / Array built from an iterator); iterating it again yields the same elements."""

    def __init__(self, seq):
        self.seq = seq

    def key(self):
        return ("collect", self.seq.key())


class Arr:
    """An array built by indexed writes inside loops over symbolic sequences: base value + guarded writes (an array comprehension)."""

    def __init__(self, dims, base, name=None):
        self.dims, self.base, self.writes, self.name = dims, base, [], name

    def ident(self):
        """Identity of the array as a container (independent of the writes recorded so far)."""
        return ("arrid", self.name if self.name is not None else (tuple(vkey(d) for d in self.dims), vkey(self.base)))

    def key(self):
        return ("arr", tuple(vkey(d) for d in self.dims), vkey(self.base),
                _srt((tuple(vkey(i) for i in w["idx"]), tuple(w["guards"]), tuple(w["loops"]), vkey(w["val"])) for w in self.writes))


class ArrView:
    """`a.column(i)` / `a.row(i)` (and the _mut forms) of a tracked 2-d array: element j of the view is a[[j, i]] resp. a[[i, j]]; writes go through."""

    def __init__(self, arr, axis, fixed):
        self.arr, self.axis, self.fixed = arr, axis, fixed          # axis: the index position that is fixed (1 for a column, 0 for a row)

    def full_index(self, j):
        return [j, self.fixed] if self.axis == 1 else [self.fixed, j]

    def key(self):
        return ("arrview", self.arr.ident(), self.axis, vkey(self.fixed))


class KeyVal:
    """A value known only by its canonical key (used by rules that rewrite keys and compare them again)."""

    def __init__(self, k):
        self.k = k

    def key(self):
        return self.k


class ElemRef:
    """`&mut a[idx]` as handed out by `a.iter_mut()` for a tracked array: assigning through it is the indexed write `a[idx] = v`."""

    def __init__(self, arr, idx):
        self.arr, self.idx = arr, idx

    def key(self):
        return ("elemref", self.arr.ident(), tuple(vkey(i) for i in self.idx))


class PushLog:
    """Stand-in for an empty Vec while a `for` body is re-executed for one symbolic index: records (guards, pushed value)."""

    def __init__(self):
        self.items = []

    def key(self):
        return ("pushlog", tuple((g, vkey(v)) for g, v in self.items))


class EarlyRet:
    """An alternative of a `?`-expression that leaves the function with `value` (only meaningful as a branch of an Alt bound by `let`)."""

    def __init__(self, value):
        self.value = value

    def key(self):
        return ("earlyret", vkey(self.value))


class Clo:
    def __init__(self, params, body, env):
        self.params, self.body, self.env = params, body, env

    def key(self):
        return ("closure", id(self))


def vkey(v):
    if isinstance(v, Poly):
        return v.key()
    if isinstance(v, (Rec, Tup, Sym, Alt, Clo, Seq, Coll, Arr, EarlyRet, PushLog, ElemRef, KeyVal, ArrView)):
        return v.key()
    if isinstance(v, (tuple, list)):
        return tuple(vkey(x) for x in v)
    return v


def vfmt(v):
    if isinstance(v, Poly):
        return v.fmt()
    if isinstance(v, Rec):
        return "%s{%s}" % (v.adt.split("::")[-1], ", ".join("%s: %s" % (k, vfmt(x)) for k, x in sorted(v.fields.items())))
    if isinstance(v, Tup):
        return "(" + ", ".join(vfmt(x) for x in v.items) + ")"
    if isinstance(v, Alt):
        return " | ".join("[%s] %s" % (g, vfmt(x)) for g, x in v.alts)
    if isinstance(v, Seq):
        return "seq(%s => %s)" % (vfmt(v.src), vfmt(v.elem))
    if isinstance(v, Coll):
        return "collect(" + vfmt(v.seq) + ")"
    if isinstance(v, Arr):
        return "arr%s{base %s; %s}" % ([vfmt(d) for d in v.dims], vfmt(v.base),
                                       "; ".join("[%s] if %s := %s" % (",".join(vfmt(i) for i in w["idx"]), list(w["guards"]), vfmt(w["val"])) for w in v.writes))
    if isinstance(v, Sym) and v.tag and v.tag[0] == "ctor":
        return "%s(%s)" % (v.tag[1], ", ".join(vfmt(x) for x in v.tag[2:]))
    return repr(v)


MUTATORS = {"push", "push_back", "insert", "extend", "push_str", "append", "clear", "sort", "sort_keys", "dedup", "truncate", "remove", "pop",
            "sort_unstable", "sort_by", "sort_by_key", "sort_unstable_by", "sort_unstable_by_key", "sort_by_cached_key", "sort_unstable_keys", "sort_unstable_by_key", "reverse", "retain",
            "swap_remove", "shift_remove", "swap_remove_index", "shift_remove_index", "rotate_left", "rotate_right", "dedup_by_key", "dedup_by", "push_front", "pop_front", "pop_back",
            "insert_sorted", "shift_insert", "move_index", "swap_indices", "drain"}


def strip_refs(e):
    while e.get("k") == "ref" or (e.get("k") == "un" and e.get("op") == "Deref"):
        e = e["e"]
    return e


NUMERIC_ADTS = ("dual::dual::Dual", "dual::dual::Dual2")
ERASE_METHODS = {"clone", "view", "to_owned", "borrow", "as_ref", "to_vec", "into_owned", "view_mut", "cloned", "copied", "deref", "reborrow", "as_slice", "as_mut_slice", "as_mut",
                 "as_deref", "borrow_mut", "as_str", "transpose"}
F64_UNARY = {"exp": "exp", "ln": "ln", "log": "ln", "sqrt": "sqrt", "trunc": "trunc", "signum": "signum"}


def strip_early(v):
    """At a function boundary a path that left through `return`/`?` simply yields its value."""
    if isinstance(v, EarlyRet):
        return strip_early(v.value)
    if isinstance(v, Alt):
        return Alt([(g, strip_early(x)) for g, x in v.alts])
    return v


def split_early(v):
    """[(guards tuple, value)] if `v` (or an item of the tuple `v`) is an Alt some alternative of which is an early return; None otherwise. Tuple items are
    combined left to right, and the first early return among them wins (evaluation order)."""
    def has_early(x):
        return isinstance(x, Alt) and any(isinstance(l, EarlyRet) for _, l in flat_alts(x))
    if has_early(v):
        return flat_alts(v)
    if isinstance(v, Tup) and any(has_early(x) for x in v.items):
        out = [((), [])]
        for x in v.items:
            nxt = []
            for gs, done in out:
                if done and isinstance(done[-1], EarlyRet):
                    nxt.append((gs, done))
                    continue
                for g2, l in (flat_alts(x) if isinstance(x, Alt) else [((), x)]):
                    nxt.append((gs + tuple(g for g in g2 if g not in gs), done + [l]))
            out = nxt
        return [(gs, done[-1] if isinstance(done[-1], EarlyRet) else Tup(done)) for gs, done in out]
    return None


def flat_alts(v, pre=()):
    """[(guards tuple, leaf)] of a possibly nested Alt."""
    if isinstance(v, Alt):
        out = []
        for g, x in v.alts:
            gs = tuple(g[1]) if isinstance(g, tuple) and len(g) == 2 and g[0] == "all" else (g,)
            out.extend(flat_alts(x, pre + gs))
        return out
    return [(pre, v)]


def union_vars(x, y):
    """Canonical union of two variable-list symbols (set semantics; the variable-free list is neutral)."""
    members = {}
    for v in (x, y):
        if isinstance(v, Sym) and v.tag and v.tag[0] == "union":
            for k in v.tag[1]:
                members[k] = None
        elif isinstance(v, Sym) and v.tag == ("novars",):
            continue
        elif v is not None:
            members[vkey(v)] = v
    if not members:
        return Sym("novars")
    if len(members) == 1:
        (k, v), = members.items()
        if v is not None:
            return v
    return Sym("union", _srt(members.keys()))


def operand(name, ty):
    """Symbolic value of a function parameter from its type."""
    base = ty.replace("&", "").replace("mut ", "").strip()
    if base == "dual::dual::Dual":
        return Rec(base, {"real": Poly.atom(name + ".real"), "dual": Poly.tensor(("vec", name + ".dual"), 1), "vars": Sym("vars", name)})
    if base == "dual::dual::Dual2":
        return Rec(base, {"real": Poly.atom(name + ".real"), "dual": Poly.tensor(("vec", name + ".dual"), 1),
                          "dual2": Poly.tensor(("mat", name + ".dual2"), 2), "vars": Sym("vars", name)})
    if base in ("f64", "f32", "usize", "i32", "u32", "i64", "u64", "i8", "i16"):
        return Poly.atom(name)
    return Sym("param", name)


class Ev:
    """Symbolic evaluator of typed HIR."""

    def __init__(self, facts, max_depth=4, hooks=None):
        self.facts = facts
        self.max_depth = max_depth
        self.hooks = hooks or {}      # def-path suffix -> python function(ev, args_values, expr) -> value
        self._summary = {}
        self.zero_shapes = []         # shapes passed to zeros(..) constructors during the last evaluation
        self.outer_locals = []        # per enclosing summarised for-loop: ids of the locals that existed before it
        self.guards, self.loops = [], []   # path condition / enclosing loops while executing loop bodies for effect
        self.fn_stack = []                 # (name, record) of the functions being inlined, innermost last
        self.tail_loops = 0                # depth of `loop`s being evaluated as the tail recursion of the enclosing function
        self.tymaps = []                   # per inlined generic function: {type parameter name: concrete type} from the call's generic arguments
        self._gargs = None                 # generic arguments of the call being inlined (set by the call site, consumed by apply_fn)
        self.path = []                     # conditions already decided on the current forked path (for pruning re-tests)

    # ---- function summaries
    def apply_fn(self, name, args, depth, collapse=True):
        """Evaluate the body of local function `name` with parameters bound to the given values.
        collapse=False keeps every alternative of the outermost body (used by rules that judge each path)."""
        r = self.facts.fn(name)
        if r is None:
            raise Unsupported("no body for " + name)
        if any(n_ == name for n_, _ in self.fn_stack) and self.hooks.get("@rec") is not None:
            v_ = self.hooks["@rec"](self, name, args)          # an unsummarised function calling itself: the rule says what a recursive call of it stands for
            if v_ is not None:
                return v_
        if depth > self.max_depth:
            raise Unsupported("inlining depth exceeded at " + name)
        env = {}
        gargs, self._gargs = self._gargs, None
        tymap = {}
        if gargs and r.get("generics") and len(gargs) == len(r["generics"]):
            tymap = {g: self.concrete_ty(t) for g, t in zip(r["generics"], gargs) if not g.startswith("'")}
        if len(r["params"]) != len(args):
            raise Unsupported("arity mismatch calling " + name)
        for p, a in zip(r["params"], args):
            self.bind(p, a, env)
        saved = (self.guards, self.loops, self.path)
        if depth and any(isinstance(a, (Arr, ArrView)) for a in args) and (self.loops or self.guards):
            # a helper handed an array under construction (`&mut b`) writes into it in the caller's context: its writes carry the caller's loops and guards
            self.guards, self.loops, self.path = list(self.guards), list(self.loops), list(self.path)
        else:
            self.guards, self.loops, self.path = [], [], list(self.path) if depth else []
        self.tymaps.append(tymap)
        self.fn_stack.append((name, r))
        saved_tl, self.tail_loops = self.tail_loops, 0
        try:
            v = strip_early(self.eval(r["body"], env, depth + 1))
            return self.collapse(v) if collapse else v
        except Return as ret:
            return ret.value
        finally:
            self.tymaps.pop()
            self.fn_stack.pop()
            self.tail_loops = saved_tl
            self.guards, self.loops, self.path = saved

    def concrete_ty(self, t):
        """Type string `t` with the type parameters of the function being inlined replaced by the concrete types it was called with."""
        tm = self.tymaps[-1] if self.tymaps else {}
        for g, c in tm.items():
            t = re.sub(r"(?<![\w:])%s(?![\w:])" % re.escape(g), lambda m, c=c: c, t)
        return t

    def resolve_generic(self, trait_item, gargs):
        """In-crate impl function for a call to a trait item whose Self type is a type parameter of the function being inlined (`W::from(v)` with W := Dual)."""
        if not (gargs and self.tymaps and self.tymaps[-1]):
            return None
        norm = lambda t: re.sub(r"'\w+ ?", "", t).replace("mut ", "").strip()
        cg = [norm(self.concrete_ty(t)) for t in gargs]
        cands = [rr for rr in self.facts.all_fns() if rr.get("trait_item") == trait_item and norm(rr.get("self_ty") or "") == cg[0]]
        if len(cands) > 1 and len(cg) > 1:
            exact = [rr for rr in cands if len(rr["sig"]) > 1 and norm(rr["sig"][1]) == cg[1]]          # the second operand's type, position by position
            narrowed = exact or [rr for rr in cands if cg[1] in [norm(x) for x in rr["sig"]]]
            cands = narrowed or cands
        return cands[0]["fn"] if len(cands) == 1 else None

    def collapse(self, v):
        """Alternatives that are all equal collapse to the single value. Numbers that agree in every field but carry
        `vars` = an operand's list on one path and the union list on another (Arc/Value-equivalent fast path vs aligned path)
        collapse to the union-carrying one: under those relationships the lists are identical."""
        if isinstance(v, Alt):
            ks = {vkey(x) for _, x in v.alts}
            if len(ks) == 1:
                return v.alts[0][1]
            b = boolify(v)
            if b is not None:
                return b
            vals = [x for _, x in v.alts]
            if all(isinstance(x, Rec) and x.adt in NUMERIC_ADTS for x in vals) and len({x.adt for x in vals}) == 1:
                def sans(x):
                    return _srt((k, vkey(f)) for k, f in x.fields.items() if k != "vars")
                if len({sans(x) for x in vals}) == 1:
                    u = None
                    for x in vals:
                        u = union_vars(u, x.fields.get("vars")) if u is not None else x.fields.get("vars")
                    for x in vals:
                        if vkey(x.fields.get("vars")) == vkey(u):
                            return x
                    return Rec(vals[0].adt, dict(vals[0].fields, vars=u))
        return v

    def bind(self, pat, val, env):
        k = pat.get("k")
        if k == "bind":
            env[pat["id"]] = val
            if "sub" in pat:
                self.bind(pat["sub"], val, env)
        elif k == "wild":
            pass
        elif k == "tuple":
            if isinstance(val, Tup) and len(val.items) == len(pat["ps"]):
                for p, v in zip(pat["ps"], val.items):
                    self.bind(p, v, env)
            else:
                for i, p in enumerate(pat["ps"]):
                    self.bind(p, Sym("proj", vkey(val), i), env)
        elif k in ("ref", "box", "deref"):
            self.bind(pat["p"], val, env)
        elif k == "ts":
            if isinstance(val, Sym) and val.tag and val.tag[0] == "ctor" and len(val.tag) >= 3 and len(pat["ps"]) == len(val.tag) - 2:
                for p, v in zip(pat["ps"], val.tag[2:]):
                    self.bind(p, v, env)
            else:
                for i, p in enumerate(pat["ps"]):
                    self.bind(p, Sym("payload", vkey(val), i), env)
        elif k == "struct":
            for n, p in pat["fields"]:
                if isinstance(val, Rec) and n in val.fields:
                    self.bind(p, val.fields[n], env)
                else:
                    self.bind(p, Sym("fieldof", vkey(val), n), env)
        elif k == "slice":
            # `[a, b, rest @ .., z]` on a sequence: element i from the front, element len-j from the back (the middle binding is an opaque sub-slice)
            ek = self.elem_of(val) if isinstance(val, Sym) else None
            for i, p in enumerate(pat["before"]):
                self.bind(p, val.items[i] if isinstance(val, Tup) and i < len(val.items) else (ek(Poly.const(i)) if callable(ek) else Sym("at", vkey(val), Poly.const(i).key())), env)
            na = len(pat["after"])
            for j, p in enumerate(pat["after"]):
                idx = Poly.atom(("len", len_base(vkey(val)), None)) - Poly.const(na - j)
                self.bind(p, ek(idx) if callable(ek) else Sym("at", vkey(val), idx.key()), env)
            if "mid" in pat:
                self.bind(pat["mid"], Sym("subslice", vkey(val), len(pat["before"]), na), env)
        else:
            raise Unsupported("pattern " + str(k))

    # ---- expressions
    def eval(self, e, env, depth=0):
        k = e.get("k")
        m = getattr(self, "ev_" + k, None)
        if m is None:
            raise Unsupported("expression kind %s at line %s" % (k, e.get("ln")))
        return m(e, env, depth)

    def ev_lit(self, e, env, depth):
        if e["lk"] in ("float", "int"):
            return Poly.const(F(e["v"].replace("_f64", "").replace("_", "")))
        if e["lk"] == "bool":
            return Sym("bool", e["v"])
        return Sym("lit", e["v"])

    def ev_path(self, e, env, depth):
        if e.get("res") == "local":
            if e["id"] not in env:
                raise Unsupported("unbound local " + e["name"])
            v_ = env[e["id"]]
            if isinstance(v_, Alt) and self.path:
                # a value that depends on a test already decided on the current path is the alternative of that decision
                live = []
                for gs_, x_ in flat_alts(v_):
                    ds_ = [self.decided(g_) for g_ in gs_]
                    if False in ds_:
                        continue
                    live.append((all(d_ is True for d_ in ds_), x_))
                if len(live) == 1 and live[0][0]:
                    return live[0][1]
            return v_
        d = e.get("def", "")
        if d.endswith("consts::PI"):
            return Poly.atom("PI")
        dk = e.get("dk", "")
        if dk.startswith("Ctor"):
            return Sym("ctor", d.rsplit("::", 1)[-1])
        if dk.startswith("Const") or dk.startswith("AssocConst"):
            hc = self.hooks.get("@const")
            if hc is not None:
                v_ = hc(d)
                if v_ is not None:
                    return v_
            r = self.facts.fn(d)
            if r is not None and depth < self.max_depth:
                return self.eval(r["body"], {}, depth + 1)
            return Sym("const", d)
        if dk in ("Fn", "AssocFn"):
            if not e.get("resolved") and e.get("gargs") and self.facts.fn(d) is None:
                return Sym("fn", self.resolve_generic(d, e["gargs"]) or d)          # `T::from` inside a generic helper inlined with T := Dual
            return Sym("fn", e.get("resolved") or d)
        return Sym("def", d)

    def ev_ref(self, e, env, depth):
        return self.eval(e["e"], env, depth)

    def ev_cast(self, e, env, depth):
        return self.eval(e["e"], env, depth)

    def ev_un(self, e, env, depth):
        v = self.eval(e["e"], env, depth)
        if e["op"] == "Deref":
            return v
        if e["op"] == "Neg":
            if isinstance(v, Poly):
                return -v
            if isinstance(v, Rec):
                return self.overloaded(e, [v], depth)
            raise Unsupported("negation of " + vfmt(v))
        if e["op"] == "Not":
            if isinstance(v, Sym) and v.tag and v.tag[0] == "not" and isinstance(v.tag[1], tuple) and v.tag[1][:1] == ("sym",):
                return Sym(*v.tag[1][1:])          # double negation
            if isinstance(v, Sym) and v.tag[:1] == ("bool",):
                return Sym("bool", "false" if v.tag[1] == "true" else "true")
            if isinstance(v, Alt) and all(isinstance(x, Sym) and x.tag[:1] == ("bool",) for _, x in v.alts):
                flipped = Alt([(g, Sym("bool", "false" if x.tag[1] == "true" else "true")) for g, x in v.alts])   # !matches!(..)
                return boolify(flipped) or flipped
            return Sym("not", vkey(v))
        raise Unsupported("unary " + e["op"])

    def overloaded(self, e, vals, depth):
        callee = e.get("resolved") or e.get("callee")
        if callee and self.facts.fn(callee) is not None:
            hook = next((h for suffix, h in self.hooks.items() if not suffix.startswith("@") and callee.endswith(suffix)), None)
            if hook is not None:
                return hook(self, vals, e)          # an operator impl a rule summarises (as any other summarised function)
            return self.apply_fn(callee, vals, depth)
        # inside a generic function the operator is the trait method on a type parameter: select the in-crate impl by the operands' actual kinds
        tys = [v.adt if isinstance(v, Rec) else ("f64" if isinstance(v, Poly) else None) for v in vals]
        if callee and None not in tys:
            for rr in self.facts.all_fns():
                if rr.get("trait_item") == callee and [t.replace("&", "") for t in rr["sig"]] == tys:
                    hook = next((h for suffix, h in self.hooks.items() if not suffix.startswith("@") and rr["fn"].endswith(suffix)), None)
                    if hook is not None:
                        return hook(self, vals, e)
                    return self.apply_fn(rr["fn"], vals, depth)
        # opaque operands of a type parameter's type (`acc + x` with acc, x: T inside a generic helper inlined at T := Number): the impl by the static types
        sts = [((e.get(side) or {}).get("ty") or "").replace("&", "").strip() for side in ("l", "r")]
        if callee and all(sts):
            fn_ = self.resolve_generic(callee, sts)
            if fn_ is not None:
                hook = next((h for suffix, h in self.hooks.items() if not suffix.startswith("@") and fn_.endswith(suffix)), None)
                return hook(self, vals, e) if hook is not None else self.apply_fn(fn_, vals, depth)
        raise Unsupported("operator on struct operands without a local impl: %s" % callee)

    def ev_bin(self, e, env, depth):
        op = e["op"]
        if op == "Add" and (e.get("ty") or "") == "std::string::String":
            return concat_sym([vkey(self.eval(e["l"], env, depth)), vkey(self.eval(e["r"], env, depth))])       # String + &str
        if op in ("And", "Or"):
            l, r = self.eval(e["l"], env, depth), self.eval(e["r"], env, depth)
            a, b = sorted([vkey(l), vkey(r)], key=repr)      # commutative: conditions are side-effect free
            return Sym(op.lower(), a, b)
        l, r = num(self.eval(e["l"], env, depth)), num(self.eval(e["r"], env, depth))
        return self.bin_values(e, op, l, r, depth)

    def bin_values(self, e, op, l, r, depth):
        if isinstance(l, Alt) or isinstance(r, Alt):
            # an operand that is a guarded alternative (`helper(..) / d` where the helper branches): the operation is applied per alternative
            out = []
            for gl, lv in (flat_alts(l) if isinstance(l, Alt) else [((), l)]):
                for gr, rv in (flat_alts(r) if isinstance(r, Alt) else [((), r)]):
                    gs = tuple(gl) + tuple(gr)
                    if isinstance(lv, EarlyRet) or isinstance(rv, EarlyRet):
                        out.append((gs[0] if len(gs) == 1 else ("all", gs), lv if isinstance(lv, EarlyRet) else rv))
                        continue
                    out.append((gs[0] if len(gs) == 1 else ("all", gs), self.bin_values(e, op, num(lv), num(rv), depth)))
            return Alt(out)
        if isinstance(l, Rec) or isinstance(r, Rec):
            if op in ("Add", "Sub", "Mul", "Div", "Rem"):
                return self.overloaded(e, [l, r], depth)
            callee = e.get("resolved") or e.get("callee")
            if callee and self.facts.fn(callee) is None and op in ("Eq", "Ne", "Lt", "Le", "Gt", "Ge"):
                # `&A == &B` goes through std's reference-forwarding impl: find the in-crate impl by operand types
                ti = "std::cmp::PartialEq::eq" if op in ("Eq", "Ne") else "std::cmp::PartialOrd::partial_cmp"
                tys = [v.adt if isinstance(v, Rec) else "f64" for v in (l, r)]
                for rr in self.facts.all_fns():
                    if rr.get("trait_item") == ti and [t.replace("&", "") for t in rr["sig"]] == tys:
                        callee = rr["fn"]
                        break
            if op in ("Eq", "Ne") and callee and self.facts.fn(callee) is not None:
                v = self.apply_fn(callee, [l, r], depth)
                return v if op == "Eq" else Sym("not", vkey(v))
            if op in ("Lt", "Le", "Gt", "Ge") and callee and callee.endswith("partial_cmp") and self.facts.fn(callee) is not None:
                return Sym("ord", op, vkey(self.apply_fn(callee, [l, r], depth)))
            return Sym("cmp", op, vkey(l), vkey(r))
        if op == "Mul" and (isinstance(l, Arr) or isinstance(r, Arr)):
            a, c = (l, r) if isinstance(l, Arr) else (r, l)
            if isinstance(c, Poly) and c.order == 0:
                out = Arr(a.dims, a.base * c if isinstance(a.base, Poly) else a.base)
                out.writes = [dict(w, val=(w["val"] * c if isinstance(w["val"], Poly) else Sym("scaled", vkey(w["val"]), c.key()))) for w in a.writes]
                return out
        if not (isinstance(l, Poly) and isinstance(r, Poly)) and op in ("Add", "Sub", "Mul", "Div", "Rem"):
            callee = e.get("resolved") or e.get("callee")
            if callee and self.facts.fn(callee) is not None:
                return self.overloaded(e, [l, r], depth)          # (summarised by a hook, or inlined)
            if callee and self.tymaps and self.tymaps[-1] and not isinstance(l, (Arr, ArrView)) and not isinstance(r, (Arr, ArrView)):
                try:
                    return self.overloaded(e, [l, r], depth)      # an operator on a type parameter inside an inlined generic function
                except Unsupported:
                    pass
        if isinstance(l, Poly) and isinstance(r, Poly):
            if op == "Add":
                return l + r
            if op == "Sub":
                return l - r
            if op == "Mul":
                return l * r
            if op == "Div":
                lt = (e["l"].get("ty") or "").replace("&", "").strip()
                if lt in INT_TYPES:
                    lc, rc = l.const_value(), r.const_value()
                    if lc is not None and rc not in (None, 0) and lc.denominator == 1 and rc.denominator == 1 and lc >= 0 and rc > 0:
                        return Poly.const(int(lc) // int(rc))
                    return Poly.atom(("idiv", l.key(), r.key()))      # integer division truncates: not the rational quotient
                return l * r.inv()
            if op == "Rem":
                # x % y = x - trunc(x/y)*y  (f64 and integer remainder alike, as an identity over the reals)
                # the built-in `%` (IEEE fmod, exact) is kept apart from a hand-written `x - trunc(x/y)*y` (rounded): `truncq` is the quotient implied by `%`
                return l - func_atom("truncq", l * r.inv()) * r
            if op in ("Eq", "Ne", "Lt", "Le", "Gt", "Ge"):
                lt = (e["l"].get("ty") or "").replace("&", "").strip()
                return cmp_sym(op, l, r, lt in INT_TYPES)
        if op in ("Eq", "Ne") and is_lit(l) and is_lit(r):
            same = vkey(l) == vkey(r)
            return Sym("bool", "true" if (same == (op == "Eq")) else "false")
        if op in ("Eq", "Ne") and any(isinstance(v, Sym) and v.tag[:2] == ("ctor", "None") for v in (l, r)) and \
                not all(isinstance(v, Sym) and v.tag[0] == "ctor" for v in (l, r)):
            # `x == None` is `x.is_none()`
            other = r if (isinstance(l, Sym) and l.tag[:2] == ("ctor", "None")) else l
            t = Sym("m", "is_none", vkey(other), ())
            return t if op == "Eq" else Sym("not", vkey(t))
        if op in ("Eq", "Ne") and sum(1 for v in (l, r) if isinstance(v, Sym) and v.tag[:2] == ("ctor", "Some") and len(v.tag) == 3) == 1 and \
                not all(isinstance(v, Sym) and v.tag[:1] == ("ctor",) for v in (l, r)) and not any(isinstance(v, (Alt, Poly, Rec)) for v in (l, r)) and \
                not any(isinstance(v, Sym) and v.tag[:1] == ("checked",) for v in (l, r)):
            # `x == Some(d)` is `match x { Some(v) => v == d, None => false }` (the form of `x.map_or(false, |v| v == d)`)
            known, other = (l, r) if (isinstance(l, Sym) and l.tag[:2] == ("ctor", "Some")) else (r, l)
            g = ("arm", ("Some", "_"), vkey(other))
            inner = eq_sym(Sym("payload", vkey(other), 0), known.tag[2])
            res = Alt([(g, inner), (("not", g), Sym("bool", "false"))])
            if op == "Eq":
                return res
            return Alt([(g, Sym("not", vkey(inner))), (("not", g), Sym("bool", "true"))])
        if op in ("Eq", "Ne") and all(isinstance(v, Sym) and v.tag[0] == "ctor" for v in (l, r)) and (l.tag[1] != r.tag[1] or (len(l.tag) == 2 and len(r.tag) == 2)) \
                and not all(v.tag[1] in ("Some", "None") for v in (l, r)):
            # derived equality of enum values whose variants are known: different variants are unequal, the same unit variant is equal
            same = l.tag[1] == r.tag[1]
            return Sym("bool", "true" if (same == (op == "Eq")) else "false")
        if op in ("Eq", "Ne") and all(isinstance(v, Sym) and v.tag[0] == "ctor" and v.tag[1] in ("Some", "None") for v in (l, r)):
            # derived equality of Option: same constructor and equal payloads
            if l.tag[1] != r.tag[1]:
                return Sym("bool", "false" if op == "Eq" else "true")
            if l.tag[1] == "None":
                return Sym("bool", "true" if op == "Eq" else "false")
            if len(l.tag) == 3 and len(r.tag) == 3 and isinstance(l.tag[2], Poly) and isinstance(r.tag[2], Poly):
                inner = re.sub(r"^.*?Option<(.*)>$", r"\1", (e["l"].get("ty") or "").replace("&", "").strip())
                return cmp_sym(op, l.tag[2], r.tag[2], inner in INT_TYPES)
        if op in ("Eq", "Ne"):
            callee = e.get("resolved") or e.get("callee") or ""
            if callee and not callee.startswith(("std::", "core::")):
                # `a == b` on in-crate types is the in-crate `PartialEq::eq` — the same call as `a.eq(&b)`
                v = None
                for suffix, h in self.hooks.items():
                    if not suffix.startswith("@") and callee.endswith(suffix):
                        v = h(self, [l, r], e)
                        break
                rec_ = self.facts.fn(callee)
                if v is None and rec_ is not None and "PartialEq" not in (rec_.get("mac") or []):     # a derived impl is structural equality: kept as `==`
                    v = self.apply_fn(callee, [l, r], depth)
                if v is not None:
                    return v if op == "Eq" else (Sym("bool", "false" if v.tag[1] == "true" else "true") if isinstance(v, Sym) and v.tag[:1] == ("bool",) else Sym("not", vkey(v)))
            return eq_sym(l, r) if op == "Eq" else Sym("not", vkey(eq_sym(l, r)))
        if op in ("Lt", "Le", "Gt", "Ge"):
            return Sym("cmp", op, vkey(l), vkey(r))
        if isinstance(l, Sym) or isinstance(r, Sym):
            return Sym("op", op, vkey(l), vkey(r))    # opaque arithmetic on opaque values (dates + Days, ...)
        raise Unsupported("binary %s on %s, %s" % (op, vfmt(l)[:60], vfmt(r)[:60]))

    def ev_field(self, e, env, depth):
        b = self.eval(e["e"], env, depth)
        n = e["name"]
        if isinstance(b, Rec):
            if n in b.fields:
                return b.fields[n]
            raise Unsupported("field %s missing on %s" % (n, b.adt))
        if isinstance(b, Tup) and n.isdigit() and int(n) < len(b.items):
            return b.items[int(n)]
        if isinstance(b, Sym) and b.tag[:1] == ("ctor",) and n.isdigit() and 2 + int(n) < len(b.tag) and b.tag[1] not in ("Some", "Ok", "Err"):
            x_ = b.tag[2 + int(n)]          # field k of a tuple-struct value built from known parts
            if not isinstance(x_, tuple):
                return x_
        if isinstance(b, Alt):
            raise Unsupported("field of branching value")
        ty = e.get("ty", "")
        s = Sym("field", vkey(b), n)
        return s

    def ev_tup(self, e, env, depth):
        return Tup([self.eval(x, env, depth) for x in e["es"]])

    def ev_array(self, e, env, depth):
        return Tup([self.eval(x, env, depth) for x in e["es"]])

    def ev_vec(self, e, env, depth):
        return Tup([self.eval(x, env, depth) for x in e["es"]])

    def ev_struct(self, e, env, depth):
        fields = {}
        if "base" in e:
            b = self.eval(e["base"], env, depth)
            if isinstance(b, Rec):
                fields.update(b.fields)
        for n, v in e["fields"]:
            fields[n] = num(self.eval(v, env, depth))
        adt = (e.get("ty") or e.get("def") or "?").split("<")[0]
        if e.get("dk") == "Variant":
            return Sym("ctor", e.get("def", "?").rsplit("::", 1)[-1], Rec(adt, fields))
        return Rec(adt, fields)

    def ev_closure(self, e, env, depth):
        if self.tymaps and self.tymaps[-1]:
            # a closure made inside an inlined generic function may run after that function has returned (a lazy iterator element): it keeps the
            # type-parameter substitution it was created under
            return Clo(e["params"], {"k": "tyscope", "tymap": dict(self.tymaps[-1]), "e": e["body"], "ty": e["body"].get("ty"), "ln": e["body"].get("ln")}, env)
        return Clo(e["params"], e["body"], env)

    def ev_format(self, e, env, depth):
        """`format!` with default formatting only: the concatenation of its literal pieces and the text of its arguments."""
        ks = []
        for p_ in e["parts"]:
            if p_[0] == "lit":
                ks.append(vkey(Sym("lit", p_[1])))
            else:
                ks.append(vkey(self.text_of(self.eval(p_[1], env, depth), p_[1].get("ty"), p_[2])))
        return concat_sym(ks)

    def text_of(self, v, ty, how="display"):
        """The text `{}` / to_string() gives: a string is its own text; anything else is an opaque display(value)."""
        t = (ty or "").replace("&", "").replace("mut ", "").strip()
        if how == "display" and t in ("str", "std::string::String"):
            return v
        return Sym(how, vkey(v))

    # ---- a `loop` in tail position is the function calling itself with the updated state
    def tail_loop(self, lp, env, depth):
        """`fn f(p) { PROLOGUE; loop { BODY } }`: one evaluation of BODY whose exits are `return v` / `break v`, and whose end (or `continue`) is the call
        `f(p')` with p' such that PROLOGUE(p') gives the state reached — judged only where the rule summarises recursive calls of f by a hook, so the loop
        form and the tail-recursive form leave the same paths and leaves."""
        if not self.fn_stack:
            raise Unsupported("loop form not modelled at line %s" % lp.get("ln"))
        name, rec = self.fn_stack[-1]
        top = rec["body"]
        while top.get("k") == "block" and not top["stmts"] and "e" in top and top["e"].get("k") == "block":
            top = top["e"]
        owns = top.get("k") == "block" and ((top.get("e") is lp) or (top["stmts"] and top["stmts"][-1].get("e") is lp and "e" not in top))
        hook = next((h for suffix, h in self.hooks.items() if not suffix.startswith("@") and name.endswith(suffix)), None)
        if not owns or hook is None:
            raise Unsupported("loop form not modelled at line %s (not the tail of a function whose recursive calls are summarised)" % lp.get("ln"))
        body = lp["b"]
        stmts = list(body["stmts"]) + ([{"k": "semi", "e": body["e"]}] if "e" in body else [])
        blk = {"k": "block", "stmts": stmts, "e": {"k": "selfcall", "ln": lp.get("ln"), "ty": rec.get("ret"), "prologue": [s_ for s_ in top["stmts"] if s_.get("e") is not lp]},
               "ln": body.get("ln"), "ty": rec.get("ret")}
        self.tail_loops += 1
        try:
            return self._run_block(blk, 0, env, depth)
        finally:
            self.tail_loops -= 1

    def ev_break(self, e, env, depth):
        if self.tail_loops and not self.loops and "e" in e:
            raise Return(self.eval(e["e"], env, depth))         # `break v` out of the tail loop is `return v`
        raise Unsupported("break at line %s" % e.get("ln"))

    def ev_selfcall(self, e, env, depth):
        name, rec = self.fn_stack[-1]
        hook = next(h for suffix, h in self.hooks.items() if not suffix.startswith("@") and name.endswith(suffix))
        pids = []
        for p_ in rec["params"]:
            if p_.get("k") != "bind" or "sub" in p_:
                raise Unsupported("loop form: parameter pattern of %s" % name)
            pids.append(p_["id"])
        args = {pid: env.get(pid) for pid in pids}
        for s_ in e["prologue"]:
            if s_["k"] != "let" or "init" not in s_ or s_["pat"].get("k") != "bind":
                raise Unsupported("loop form: prologue statement at line %s is not a simple binding" % s_.get("ln"))
            sid, init = s_["pat"]["id"], s_["init"]
            used = sorted({x["id"] for x in hir.walk(init) if x.get("k") == "path" and x.get("res") == "local" and x.get("id") in pids})
            locs = {x["id"] for x in hir.walk(init) if x.get("k") == "path" and x.get("res") == "local"}
            if locs - set(pids):
                raise Unsupported("loop form: prologue binding at line %s depends on another local" % s_.get("ln"))
            cur = env.get(sid)
            if not used:
                continue
            if len(used) != 1:
                raise Unsupported("loop form: prologue binding at line %s depends on several parameters" % s_.get("ln"))
            # the parameter value that makes the prologue produce the state reached: the state itself, or Some(state) for `p.unwrap_or(..)`
            picked = None
            for cand in (cur, Sym("ctor", "Some", cur)):
                env2 = dict(args)
                env2[used[0]] = cand
                try:
                    if vkey(self.collapse(self.eval(init, env2, depth))) == vkey(cur):
                        picked = cand
                        break
                except Unsupported:
                    continue
            if picked is None:
                raise Unsupported("loop form: no parameter value reproduces the loop state bound at line %s" % s_.get("ln"))
            args[used[0]] = picked
        return hook(self, [args[pid] for pid in pids], e)

    def ev_tyscope(self, e, env, depth):
        self.tymaps.append(e["tymap"])
        try:
            return self.eval(e["e"], env, depth)
        finally:
            self.tymaps.pop()

    def ev_block(self, e, env, depth):
        # blocks share the enclosing env; shadowing uses fresh ids so this is safe
        return self._run_block(e, 0, env, depth)

    def _run_block(self, e, start, env, depth):
        stmts = e["stmts"]
        for i in range(start, len(stmts)):
            s = stmts[i]
            if s["k"] == "let":
                if "init" in s and "els" in s:
                    # `let P = init else { diverge };`  ==  `match init { P => <rest of the block>, _ => diverge }`
                    scrut = self.collapse(self.eval(s["init"], env, depth))
                    env2 = dict(env)
                    r_ = self.match_pat(s["pat"], scrut, env2)
                    if r_ is True:
                        env.update(env2)
                        continue
                    try:
                        other = self.eval(s["els"], dict(env), depth)
                    except Return as ret:
                        other = EarlyRet(ret.value)
                    if r_ is False:
                        return other
                    self.bind_pat_loose(s["pat"], scrut, env2)
                    g = arm_guard(s["pat"], scrut)
                    self.path.append(g)
                    try:
                        rest = self._run_block(e, i + 1, env2, depth)
                    except Return as ret:
                        rest = EarlyRet(ret.value)
                    finally:
                        self.path.pop()
                    return Alt([(g, rest), (neg_guard(g), other)])
                if "init" in s:
                    v = self.collapse(self.eval(s["init"], env, depth))
                    if isinstance(v, Alt):
                        # path split: the rest of the block is evaluated once per alternative
                        out = []
                        for gs, x in flat_alts(v):
                            g = gs[0] if len(gs) == 1 else ("all", gs)
                            if isinstance(x, EarlyRet):
                                out.append((g, x))       # `?` / `return` on this alternative: the path leaves the function here
                                continue
                            env2 = dict(env)
                            self.bind(s["pat"], x, env2)
                            self.path.extend(gs)
                            try:
                                out.append((g, self._run_block(e, i + 1, env2, depth)))
                            except Return as ret:
                                out.append((g, EarlyRet(ret.value)))
                            finally:
                                del self.path[len(self.path) - len(gs):]
                        return Alt(out)
                    self.bind(s["pat"], v, env)
            elif s["k"] in ("expr", "semi"):
                x = s["e"]
                if x.get("k") in ("assign", "assignop") and strip_refs(x["l"]).get("k") == "index":
                    self.exec_stmt(x, env, depth)          # an indexed write (into a local array, or one handed in by `&mut`)
                elif x.get("k") == "assign":
                    self.assign(x["l"], self.eval(x["r"], env, depth), env)
                elif x.get("k") == "assignop":
                    cur = self.eval(x["l"], env, depth)
                    rhs = self.eval(x["r"], env, depth)
                    self.assign(x["l"], self.arith(x["op"], cur, rhs, x, depth), env)
                elif x.get("k") == "ret":
                    raise Return(self.eval(x["e"], env, depth) if "e" in x else Sym("unit"))
                elif x.get("k") == "for" and self.search_loop(x) is not None:
                    # `for x in seq { if c(x) { return K; } }  rest`  with K a bool literal: the function returns K iff some element satisfies c, else what the
                    # rest of the block gives — `seq.any(c)` / `seq.all(!c)` when the rest is the opposite literal
                    cond_e, lit = self.search_loop(x)
                    it = self.eval(x["iter"], env, depth)
                    if isinstance(it, Coll):
                        it = it.seq
                    if isinstance(it, Rec) and it.adt.endswith("ops::Range"):
                        it = Seq(Sym("range", vkey(it.fields.get("start")), vkey(it.fields.get("end"))), lambda idx: idx)
                    if not isinstance(it, Seq):
                        el = self.elem_of(it)
                        if el is None:
                            raise Unsupported("search loop over a value that is not a modelled sequence at line %s" % x.get("ln"))
                        it = Seq(it, el if callable(el) else (lambda idx, el=el: el))
                    it = canon_seq(it)
                    env2 = dict(env)
                    self.bind(x["pat"], it.fn(Poly.atom("q%d" % len(self.loops))), env2)
                    self.loops.append(("q", vkey(it.src)))
                    try:
                        for s_ in self._search_lets:
                            self.bind(s_["pat"], self.collapse(self.eval(s_["init"], env2, depth)), env2)
                        cv = self.collapse(self.eval(cond_e, env2, depth))
                    finally:
                        self.loops.pop()
                    rest = self._run_block(e, i + 1, env, depth)
                    found = quant("exists", it.src, cv)
                    if isinstance(rest, Sym) and rest.tag[:1] == ("bool",) and rest.tag[1] != lit:
                        if lit == "true":
                            return found
                        return quant("forall", it.src, Sym("not", vkey(cv)))
                    g = ("if", vkey(found))
                    return Alt([(g, EarlyRet(Sym("bool", lit))), (("not", g), rest)])
                elif x.get("k") in ("for", "while"):
                    self.exec_stmt(x, env, depth)
                elif x.get("k") in ("if", "match") and x.get("ty") in ("()", None) and not self.loops:
                    # statement-level branching with effects: fork the rest of the block per arm
                    out = []
                    for g, env_i in self.stmt_arms(x, env, depth):
                        if isinstance(env_i, Return):
                            out.append((g, env_i))
                            continue
                        gl = list(g[1]) if isinstance(g, tuple) and g and g[0] == "all" else [g]
                        self.path.extend(gl)
                        try:
                            out.append((g, self._run_block(e, i + 1, env_i, depth)))
                        except Return as ret:
                            out.append((g, ret))
                        finally:
                            del self.path[len(self.path) - len(gl):]
                    if all(isinstance(v, Return) for _, v in out):
                        if len(out) == 1:
                            raise out[0][1]
                        raise Return(Alt([(g, v.value) for g, v in out]))
                    out = [(g, EarlyRet(v.value) if isinstance(v, Return) else v) for g, v in out]
                    return out[0][1] if len(out) == 1 else self.collapse(Alt(out))
                elif x.get("k") in ("if", "match") and x.get("ty") in ("()", None) and self.loops:
                    self.exec_stmt(x, env, depth)          # inside a summarised loop (a helper called from a loop body): effects are recorded under the branch's guard
                elif x.get("k") == "loop" and i == len(stmts) - 1 and "e" not in e and not self.loops:
                    return self.tail_loop(x, env, depth)
                elif x.get("k") in ("loop",):
                    raise Unsupported("statement-level control flow (%s) at line %s" % (x["k"], x.get("ln")))
                elif x.get("k") == "mcall" and x["m"] == "clone_from" and x["recv"].get("k") == "path" and x["recv"].get("res") == "local":
                    env[x["recv"]["id"]] = self.eval(x["args"][0], env, depth)
                elif x.get("k") == "mcall" and x["m"] in MUTATORS and strip_refs(x["recv"]).get("k") == "path" and strip_refs(x["recv"]).get("res") == "local" \
                        and strip_refs(x["recv"])["id"] in env:
                    self.exec_stmt(x, env, depth)          # a mutation of a local collection changes what later statements see
                else:
                    sv = self.eval(x, env, depth)  # evaluated for Unsupported detection; value dropped
                    if isinstance(sv, Sym) and sv.tag and sv.tag[0] == "diverges":
                        return sv
                    if isinstance(sv, Alt) and any(isinstance(xv, EarlyRet) for _, xv in flat_alts(sv)):
                        # `validate(..)?;` — the statement's value is dropped, but on the alternatives where `?` returns the function is left
                        out = []
                        for gs, xv in flat_alts(sv):
                            g = gs[0] if len(gs) == 1 else ("all", gs)
                            if isinstance(xv, EarlyRet):
                                out.append((g, xv))
                                continue
                            self.path.extend(gs)
                            try:
                                out.append((g, self._run_block(e, i + 1, dict(env), depth)))
                            except Return as ret:
                                out.append((g, EarlyRet(ret.value)))
                            finally:
                                del self.path[len(self.path) - len(gs):]
                        return Alt(out)
        if "e" in e:
            if e["e"].get("k") == "loop" and not self.loops:
                return self.tail_loop(e["e"], env, depth)
            if e["e"].get("k") in ("for", "while") or (e["e"].get("k") in ("assign", "assignop") and strip_refs(e["e"]["l"]).get("k") == "index") or \
                    (e["e"].get("k") in ("if", "match") and e["e"].get("ty") == "()" and self.loops):
                self.exec_stmt(e["e"], env, depth)         # a unit-valued loop / indexed write in tail position is a statement
                return Sym("unit")
            return self.eval(e["e"], env, depth)
        return Sym("unit")

    # ---- executing statements for their effect on arrays (array comprehension semantics)
    def fork_exec(self, x, env, depth):
        """Execute statement/expression `x` for effect outside loops, splitting paths at if/match.
        Returns [(guards tuple, env or Return)]; `env` objects are forks (the caller's env is not modified when a split occurs)."""
        k = x.get("k")
        if k == "block":
            outs = [((), env)]
            items = [("stmt", s_) for s_ in x["stmts"]] + ([("tail", x["e"])] if "e" in x else [])
            for kind, s_ in items:
                nxt = []
                for g, en in outs:
                    if isinstance(en, Return):
                        nxt.append((g, en))
                        continue
                    self.path.extend(g)
                    try:
                        if kind == "stmt" and s_["k"] == "let":
                            if "init" in s_:
                                v_ = self.collapse(self.eval(s_["init"], en, depth))
                                if isinstance(v_, Alt) and not self.loops:
                                    # `let x = if c {a} else {b};` inside an executed block: one path per alternative
                                    for gs_, x_ in flat_alts(v_):
                                        if isinstance(x_, EarlyRet):
                                            ret_ = Return(x_.value)
                                            ret_.env = en
                                            nxt.append((g + tuple(gs_), ret_))
                                            continue
                                        en2 = fork_env(en)
                                        self.bind(s_["pat"], x_, en2)
                                        nxt.append((g + tuple(gs_), en2))
                                    continue
                                self.bind(s_["pat"], v_, en)
                            nxt.append((g, en))
                        elif kind == "stmt" and s_["k"] == "item":
                            nxt.append((g, en))
                        else:
                            inner = s_["e"] if kind == "stmt" else s_
                            if kind == "tail" and inner.get("k") not in ("if", "match", "block", "for", "while", "loop", "ret"):
                                en["@ret"] = self.eval(inner, en, depth)
                                nxt.append((g, en))
                            else:
                                for g2, en2 in self.fork_exec(inner, en, depth):
                                    nxt.append((g + g2, en2))
                    except Return as ret:
                        if getattr(ret, "env", None) is None:
                            ret.env = en
                        nxt.append((g, ret))
                    finally:
                        del self.path[len(self.path) - len(g):]
                outs = nxt
            return outs
        if k == "if" and not self.loops:
            c = x["c"]
            env2 = fork_env(env)
            if c.get("k") == "letx":
                v = self.eval(c["init"], env, depth)
                r = self.match_pat(c["pat"], v, env2)
                if r is True:
                    return self.fork_exec(x["t"], env2, depth)
                if r is False:
                    return self.fork_exec(x["e"], fork_env(env), depth) if "e" in x else [((), env)]
                g = arm_guard(c["pat"], v)
                env2 = fork_env(env)
                self.bind_pat_loose(c["pat"], v, env2)
            else:
                g = guard_of(self.eval(c, env, depth))
            d = self.decided(g)
            out = []
            if d is not False:
                self.path.append(g)
                try:
                    out += [((g,) + g2, e2) for g2, e2 in self.fork_exec(x["t"], env2, depth)]
                except Return as ret:
                    out.append(((g,), ret))
                finally:
                    self.path.pop()
            if d is not True:
                ng = neg_guard(g)
                self.path.append(ng)
                try:
                    if "e" in x:
                        out += [((ng,) + g2, e2) for g2, e2 in self.fork_exec(x["e"], fork_env(env), depth)]
                    else:
                        out.append(((ng,), fork_env(env)))
                except Return as ret:
                    out.append(((ng,), ret))
                finally:
                    self.path.pop()
            if d is not None:
                out = [(g_[1:], e_) for g_, e_ in out]
            return out
        if k == "match" and not self.loops:
            scrut = self.eval(x["e"], env, depth)
            out = []
            for gt, env2, body in self.plan_arms(x["arms"], scrut, env, depth, fork=fork_env):
                self.path.extend(gt)
                try:
                    out += [(gt + g2, e2) for g2, e2 in self.fork_exec(body, env2, depth)]
                except Return as ret:
                    out.append((gt, ret))
                finally:
                    del self.path[len(self.path) - len(gt):]
            return out
        try:
            self.exec_stmt(x, env, depth)
            return [((), env)]
        except Return as ret:
            if getattr(ret, "env", None) is None:
                ret.env = env
            return [((), ret)]

    def explore(self, name, args):
        """All paths of a function executed for effect: [{"guards", "ret", "params": [final values of the parameters]}]."""
        r = self.facts.fn(name)
        if r is None:
            raise Unsupported("no body for " + name)
        env = {}
        for p, a in zip(r["params"], args):
            self.bind(p, a, env)
        ids = [p.get("id") for p in r["params"]]
        self.guards, self.loops, self.path = [], [], []
        out = []
        for g, en in self.fork_exec(r["body"], env, 1):
            if isinstance(en, Return):
                fin, ret = getattr(en, "env", None) or {}, en.value
            else:
                fin, ret = en, en.get("@ret", Sym("unit"))
            out.append({"guards": g, "ret": ret, "params": [fin.get(i) for i in ids]})
        return out

    def stmt_arms(self, x, env, depth):
        """[(guard, env after the arm | Return)] for a statement-level if/match outside loops (path split)."""
        out = []
        for g, en in self.fork_exec(x, env, depth):
            out.append((g[0] if len(g) == 1 else ("all", g), en))
        return out

    def decided(self, g):
        """True / False if the condition g was already decided on the current path, else None."""
        if g in self.path:
            return True
        if neg_guard(g) in self.path:
            return False
        if isinstance(g, tuple) and len(g) == 2 and g[0] == "if" and g[1] in (("sym", "bool", "true"), ("sym", "bool", "false")):
            return g[1][2] == "true"
        return None

    def exec_block(self, b, env, depth):
        pushed = 0
        try:
            for s in b["stmts"]:
                if s["k"] == "let":
                    if "init" in s:
                        if self.loops and "els" in s and is_continue_block(s["els"]):
                            # `let Some(v) = o else { continue };` inside a loop body: the rest of the body runs under "the pattern matched"
                            scrut = self.collapse(self.eval(s["init"], env, depth))
                            r_ = self.match_pat(s["pat"], scrut, env)
                            if r_ is None:
                                self.bind_pat_loose(s["pat"], scrut, env)
                                self.guards.append(arm_guard(s["pat"], scrut))
                                pushed += 1
                                continue
                            if r_ is True:
                                continue
                            raise Unsupported("let-else whose pattern never matches at line %s" % s.get("ln"))
                        if "els" in s:
                            raise Unsupported("let-else at line %s" % s.get("ln"))
                        cont = self.continue_guard(s["init"], env, depth) if self.loops else None
                        if cont is not None:
                            # `let v = match o { Some(x) => x, None => continue };` inside a loop body: the rest of the body runs under the arm's guard
                            g, val = cont
                            self.bind(s["pat"], val, env)
                            self.guards.append(g)
                            pushed += 1
                            continue
                        self.bind(s["pat"], self.collapse(self.eval(s["init"], env, depth)), env)
                elif s["k"] in ("expr", "semi"):
                    x = s["e"]
                    if self.loops and x.get("k") == "if" and "e" not in x and x["c"].get("k") != "letx" and is_continue_block(x["t"]):
                        self.guards.append(neg_guard(guard_of(self.eval(x["c"], env, depth))))       # `if c { continue; }`
                        pushed += 1
                        continue
                    self.exec_stmt(x, env, depth)
            if "e" in b:
                self.exec_stmt(b["e"], env, depth)
        finally:
            for _ in range(pushed):
                self.guards.pop()

    def continue_guard(self, init, env, depth):
        """(guard, bound value) if `init` is a two-arm match / if-let one arm of which is `continue` and the other yields the binding's value."""
        e = init
        if e.get("k") == "match" and len(e["arms"]) == 2:
            cont = [a for a in e["arms"] if is_continue_block(a["body"])]
            live = [a for a in e["arms"] if not is_continue_block(a["body"])]
            if len(cont) == 1 and len(live) == 1 and "guard" not in live[0]:
                scrut = self.eval(e["e"], env, depth)
                env2 = env
                r = self.match_pat(live[0]["pat"], scrut, env2)
                if r is None:
                    self.bind_pat_loose(live[0]["pat"], scrut, env2)
                if r is False:
                    return None
                g = arm_guard(live[0]["pat"], scrut)
                return g, self.collapse(self.eval(live[0]["body"], env2, depth))
        return None

    def exec_stmt(self, x, env, depth):
        k = x.get("k")
        if k == "block":
            return self.exec_block(x, env, depth)
        if k == "for":
            it = self.eval(x["iter"], env, depth)
            if isinstance(it, Coll):
                it = it.seq
            if isinstance(it, Rec) and it.adt.endswith("ops::Range"):
                it = Seq(Sym("range", vkey(it.fields.get("start")), vkey(it.fields.get("end"))), lambda idx: idx)
            if not isinstance(it, Seq):
                el = self.elem_of(it)
                if el is None:
                    raise Unsupported("for loop over a value that is not a modelled sequence at line %s" % x.get("ln"))
                it = Seq(it, el if callable(el) else (lambda idx, el=el: el))
            name = "i%d" % len(self.loops)
            if getattr(it, "elem_guard", None) is not None:
                # a loop over `seq.filter_map(..)`: the loop over `seq` with the body under "this element was kept"
                self.outer_locals.append(set(env.keys()))
                self.bind(x["pat"], it.fn(Poly.atom(name)), env)
                self.loops.append((name, vkey(it.base_src)))
                self.guards.append(it.elem_guard(Poly.atom(name)))
                try:
                    self.exec_stmt(x["body"], env, depth)
                finally:
                    self.guards.pop()
                    self.loops.pop()
                    self.outer_locals.pop()
                return
            # `let mut v = Vec::new(); for x in seq { .. v.push(f(x)) .. }` is `seq.map(f).collect()`: element idx is what one execution of the body pushes
            push_ids = []
            for e_ in hir.walk(x["body"]):
                if e_.get("k") == "mcall" and (e_["m"] == "push" or (e_["m"] in ("insert", "push_back") and len(e_["args"]) in (1, 2))):
                    t_ = strip_refs(e_["recv"])
                    if t_.get("k") == "path" and t_.get("res") == "local" and t_["id"] not in push_ids:
                        cur = env.get(t_["id"])
                        fresh = isinstance(cur, Sym) and cur.tag[0] == "call" and isinstance(cur.tag[1], str) and re.search(r"::(new|with_capacity|default)$", cur.tag[1]) and \
                            re.search(r"(HashSet|BTreeSet|IndexSet|HashMap|BTreeMap|IndexMap)\b" if e_["m"] == "insert" else r"(Vec|VecDeque)\b", cur.tag[1])          # (Vec::insert(i, v) is positional: not this form)
                        if (isinstance(cur, Tup) and not cur.items) or (isinstance(cur, Sym) and cur.tag[:2] == ("call", "std::vec::Vec::<T>::with_capacity")) or \
                                (e_["m"] != "push" and fresh and sum(1 for e2_ in hir.walk(x["body"]) if e2_.get("k") == "mcall" and e2_["m"] == e_["m"] and
                                                                     strip_refs(e2_["recv"]).get("id") == t_["id"]) == 1):
                            # (a fresh set or map filled by one insert per iteration is `seq.map(..).collect()` as well)
                            push_ids.append(t_["id"])
            # `for x in xs { for y in ys { v.push(f(x, y)) } }` on a fresh vector is `xs.cartesian_product(ys).map(f).collect()`: every pair, x outer and y inner
            body_ = x["body"]
            bst0 = body_["stmts"] + ([{"k": "semi", "e": body_["e"]}] if "e" in body_ else []) if body_.get("k") == "block" else []
            if len(push_ids) == 1 and not self.loops and not self.guards and not it.enumerated and len(bst0) == 1 and bst0[0]["k"] in ("expr", "semi") and bst0[0]["e"].get("k") == "for":
                inner = bst0[0]["e"]
                ib = inner["body"]
                ist = ib["stmts"] + ([{"k": "semi", "e": ib["e"]}] if "e" in ib else []) if ib.get("k") == "block" else []
                if len(ist) == 1 and ist[0]["k"] in ("expr", "semi") and ist[0]["e"].get("k") == "mcall" and ist[0]["e"]["m"] == "push" and \
                        strip_refs(ist[0]["e"]["recv"]).get("id") == push_ids[0] and len(ist[0]["e"]["args"]) == 1:
                    env_o = fork_env(env)
                    self.bind(x["pat"], it.fn(Poly.atom("i")), env_o)
                    it2 = self.eval(inner["iter"], env_o, depth)
                    if isinstance(it2, Coll):
                        it2 = it2.seq
                    if not isinstance(it2, Seq):
                        el2 = self.elem_of(it2)
                        it2 = Seq(it2, el2 if callable(el2) else (lambda idx, el2=el2: el2)) if el2 is not None else None
                    if isinstance(it2, Seq) and not it2.enumerated and not key_mentions(vkey(it2.src), "i"):
                        def pair_item(idx, it=it, it2=it2, inner=inner, push=ist[0]["e"], env_o=env_o, x=x, depth=depth):
                            env3 = fork_env(env_o)
                            self.bind(x["pat"], it.fn(Poly.atom("i")), env3)
                            self.bind(inner["pat"], it2.fn(Poly.atom("j")), env3)
                            return self.eval(push["args"][0], env3, depth)
                        pair_item(None)          # fail closed now if the pushed value cannot be evaluated
                        env[push_ids[0]] = Coll(Seq(Sym("product", vkey(it.src), vkey(it2.src)), pair_item))
                        return
            env0 = fork_env(env) if push_ids else None
            # `for _ in a..b { x = f(x) }` applies f a fixed number of times: the `repeat` form of a counted while loop / a range fold. Recognised when the body
            # is a straight line of assignments to outer scalars; each runs on a placeholder for "the value at the start of this round"
            reps = {}
            ksrc = vkey(it.src)
            bst = x["body"]["stmts"] + ([{"k": "semi", "e": x["body"]["e"]}] if "e" in x["body"] else []) if x["body"].get("k") == "block" else []
            if not push_ids and not self.loops and not it.enumerated and isinstance(ksrc, tuple) and ksrc[:2] == ("sym", "range") and bst and \
                    all(s_["k"] in ("expr", "semi") and s_["e"].get("k") in ("assign", "assignop") and strip_refs(s_["e"]["l"]).get("k") == "path" and
                        strip_refs(s_["e"]["l"]).get("res") == "local" and strip_refs(s_["e"]["l"])["id"] in env and
                        isinstance(env[strip_refs(s_["e"]["l"])["id"]], Sym) for s_ in bst):
                for s_ in bst:
                    vid = strip_refs(s_["e"]["l"])["id"]
                    if vid not in reps:
                        ph = Sym("loopvar", len(reps))
                        reps[vid] = (env[vid], ph)
                        env[vid] = ph
            # `let mut acc = z; for x in seq { acc = f(acc, x) }` is `seq.fold(z, |acc, x| f(acc, x))`: one assignment to one outer local, which the right-hand
            # side reads — the same canonical form as the iterator adaptor (a range source keeps the counted-loop form above)
            if not push_ids and not reps and not self.loops and not self.guards and len(bst) == 1 and bst[0]["k"] in ("expr", "semi") and \
                    bst[0]["e"].get("k") in ("assign", "assignop") and strip_refs(bst[0]["e"]["l"]).get("k") == "path" and strip_refs(bst[0]["e"]["l"]).get("res") == "local" and \
                    strip_refs(bst[0]["e"]["l"])["id"] in env and not (isinstance(ksrc, tuple) and ksrc[:2] == ("sym", "range")) and \
                    isinstance(env[strip_refs(bst[0]["e"]["l"])["id"]], (Poly, Rec, Sym)):
                st_ = bst[0]["e"]
                vid = strip_refs(st_["l"])["id"]
                reads = any(e2_.get("k") == "path" and e2_.get("res") == "local" and e2_.get("id") == vid for e2_ in hir.walk(st_["r"])) or st_["k"] == "assignop"
                init = env[vid]
                if reads and not (isinstance(init, Poly) and init.order):
                    accv = Poly.atom("acc") if isinstance(init, Poly) else (operand("acc", init.adt) if isinstance(init, Rec) and init.adt.startswith("dual::dual::Dual") else Sym("acc"))
                    qn = "q%d" % len(self.loops)
                    env2 = dict(env)
                    env2[vid] = accv
                    self.bind(x["pat"], it.fn(Poly.atom(qn)), env2)
                    self.loops.append(("q", vkey(it.src)))
                    saved_loops = self.loops
                    try:
                        self.loops = []          # the step is evaluated as a closure body would be (not as a statement of a summarised loop)
                        if st_["k"] == "assign":
                            body_v = self.collapse(self.eval(st_["r"], env2, depth))
                        else:
                            body_v = self.collapse(self.arith(st_["op"], accv, self.eval(st_["r"], env2, depth), st_, depth))
                    finally:
                        self.loops = saved_loops
                        self.loops.pop()
                    tag = ("fold", vkey(it.src), vkey(init), vkey(body_v))
                    env[vid] = Poly.atom(tag) if isinstance(init, Poly) else Sym(*tag)
                    return
            self.outer_locals.append(set(env.keys()))
            self.bind(x["pat"], it.fn(Poly.atom(name)), env)
            self.loops.append((name, vkey(it.src)))
            try:
                self.exec_stmt(x["body"], env, depth)
            finally:
                self.loops.pop()
                self.outer_locals.pop()
            for vid, (init, ph) in reps.items():
                v = env[vid]
                tag = v.tag if isinstance(v, Sym) else None
                others = [p2 for v2, (_, p2) in reps.items() if v2 != vid]
                if isinstance(tag, tuple) and tag[:1] == ("carried",) and tag[1] == vkey(ph) and not tag[3] and len(tag[4]) == 1 and \
                        not key_mentions(tag[2], name) and not any(key_mentions(tag[2], vkey(o)) for o in others):
                    count = poly_from_key(ksrc[3]) - poly_from_key(ksrc[2])
                    vobj = getattr(self, "_carried_vals", {}).get(vid)
                    if isinstance(vobj, Alt) and vkey(vobj) == tag[2] and all(not key_mentions(g_, vkey(ph)) for gs_, _ in flat_alts(vobj) for g_ in gs_):
                        # the step branches on a test that does not change from round to round (`if backward {..} else {..}`): the same as branching
                        # once and repeating the chosen step
                        env[vid] = Alt([(gs_[0] if len(gs_) == 1 else ("all", gs_), Sym("repeat", count.key(), vkey(init), key_subst(vkey(x_), vkey(ph), vkey(Sym("acc")))))
                                        for gs_, x_ in flat_alts(vobj)])
                        continue
                    step = key_subst(tag[2], vkey(ph), vkey(Sym("acc")))
                    env[vid] = Sym("repeat", count.key(), vkey(init), step)
                elif isinstance(v, Sym):
                    env[vid] = Sym(*key_subst(v.tag, vkey(ph), vkey(init)))          # not the counted idiom: as before, an opaque carried value of the initial value
                elif vkey(v) == vkey(ph):
                    env[vid] = init
                else:
                    raise Unsupported("loop-carried value of an unexpected kind in a range loop at line %s" % x.get("ln"))
            for rid in push_ids:
                def pushed(idx, rid=rid, it=it, env0=env0, x=x, depth=depth, lvl=len(self.loops)):
                    env3 = fork_env(env0)
                    self.bind(x["pat"], it.fn(idx), env3)
                    env3[rid] = PushLog()
                    sg, sl = self.guards, self.loops
                    self.guards, self.loops = [], list(sl[:lvl]) + [("p", vkey(it.src))]
                    try:
                        self.exec_stmt(x["body"], env3, depth)
                    finally:
                        self.guards, self.loops = sg, sl
                    log = env3[rid].items if isinstance(env3[rid], PushLog) else None
                    if log and len(log) == 1 and not log[0][0]:
                        return log[0][1]
                    if log and len(log) == 2 and len(log[0][0]) == 1 and len(log[1][0]) == 1 and log[1][0][0] == neg_guard(log[0][0][0]):
                        return Alt([(log[0][0][0], log[0][1]), (log[1][0][0], log[1][1])])
                    raise Unsupported("a vector filled by push inside a loop, not exactly one push per iteration, at line %s" % x.get("ln"))
                pushed(Poly.atom("i"))          # fail closed now if the body is not a one-push-per-iteration form
                src_ = it.src
                ks_ = vkey(src_)
                if isinstance(ks_, tuple) and ks_[:2] == ("sym", "range") and ks_[2] == Poly.const(0).key():
                    src_ = canon_seq(Seq(src_, it.fn)).src          # one element per index of 0..c.len() is one element per element of c
                env[rid] = Coll(Seq(src_, pushed, it.enumerated))          # (as `seq.map(..)` keeps the flag of the sequence it maps)
            return
        if k == "if":
            c = x["c"]
            if c.get("k") == "letx":
                v = self.eval(c["init"], env, depth)
                g = arm_guard(c["pat"], v)
                self.bind_pat_loose(c["pat"], v, env)
            else:
                g = ("if", vkey(self.eval(c, env, depth)))
            gs_ = list(g[1]) if isinstance(g, tuple) and len(g) == 2 and g[0] == "all" else [g]          # a conjunction is its conjuncts, one guard each
            self.guards.extend(gs_)
            try:
                self.exec_stmt(x["t"], env, depth)
            finally:
                del self.guards[len(self.guards) - len(gs_):]
            if "e" in x:
                self.guards.append(("not", g))
                try:
                    self.exec_stmt(x["e"], env, depth)
                finally:
                    self.guards.pop()
            return
        if k == "match":
            scrut = self.eval(x["e"], env, depth)
            for gt, env2, body in self.plan_arms(x["arms"], scrut, env, depth, fork=lambda en: en):
                self.guards.extend(gt)
                try:
                    self.exec_stmt(body, env2, depth)
                finally:
                    del self.guards[len(self.guards) - len(gt):]
            return
        if k == "assign":
            lhs = x["l"]
            tl = strip_refs(lhs)
            if tl.get("k") == "path" and tl.get("res") == "local" and isinstance(env.get(tl["id"]), ElemRef):
                ref = env[tl["id"]]          # `*entry = v` with entry from `a.iter_mut()`
                self.seq_no = getattr(self, "seq_no", 0) + 1
                ref.arr.writes.append({"idx": list(ref.idx), "guards": tuple(self.guards), "loops": tuple(self.loops), "val": self.eval(x["r"], env, depth), "seq": self.seq_no})
                return
            if lhs.get("k") == "index":
                return self.index_write(lhs, self.eval(x["r"], env, depth), env, depth, x)
            self.assign(lhs, self.carried(lhs, self.eval(x["r"], env, depth), env), env)
            return
        if k == "assignop":
            cur = self.eval(x["l"], env, depth)
            val = self.arith(x["op"], cur, self.eval(x["r"], env, depth), x, depth)
            if strip_refs(x["l"]).get("k") == "index":
                return self.index_write(strip_refs(x["l"]), val, env, depth, x)
            self.assign(x["l"], self.carried(x["l"], val, env), env)
            return
        if k == "mcall" and x["m"] == "clone_from" and x["recv"].get("k") == "path" and x["recv"].get("res") == "local":
            env[x["recv"]["id"]] = self.eval(x["args"][0], env, depth)
            return
        if k == "mcall" and x["m"] == "clone_from" and strip_refs(x["recv"]).get("k") == "field":
            self.assign(strip_refs(x["recv"]), self.eval(x["args"][0], env, depth), env)
            return
        if k == "while":
            return self.exec_while(x, env, depth)
        if k == "loop":
            raise Unsupported("loop form not modelled at line %s" % x.get("ln"))
        if k == "mcall" and x["m"] in MUTATORS and strip_refs(x["recv"]).get("k") == "path" and strip_refs(x["recv"]).get("res") == "local":
            rid = strip_refs(x["recv"])["id"]
            if x["m"] in ("push", "insert", "push_back") and isinstance(env.get(rid), PushLog) and len(x["args"]) in (1, 2):
                item_ = self.eval(x["args"][0], env, depth) if len(x["args"]) == 1 else Tup([self.eval(a_, env, depth) for a_ in x["args"]])      # map.insert(k, v): the entry (k, v)
                env[rid].items.append((tuple(self.guards), item_))
                return
            if x["m"] == "extend" and len(x["args"]) == 1 and "Set<" in (x["recv"].get("ty") or ""):
                # extending a set is inserting each item: `s.extend(opt)` is `if let Some(v) = opt { s.insert(v) }`, and
                # `s.extend(seq.flat_map(|x| [a, b]))` is `for x in seq { s.insert(a); s.insert(b) }`
                a = self.eval(x["args"][0], env, depth)
                if isinstance(a, Sym) and a.tag[:2] == ("ctor", "None"):
                    return
                if isinstance(a, Sym) and a.tag[:2] == ("ctor", "Some") and len(a.tag) == 3:
                    env[rid] = Sym("mut", "insert", vkey(env.get(rid)), (vkey(a.tag[2]),), *self.mut_guards())
                    return
                if isinstance(a, Seq) and getattr(a, "groups", None):
                    cur = env.get(rid)
                    for item in a.groups[1](Poly.atom("i%d" % len(self.loops))):
                        cur = Sym("mut", "insert", vkey(cur), (vkey(item),), *self.mut_guards())
                    env[rid] = cur
                    return
                env[rid] = Sym("mut", "extend", vkey(env.get(rid)), (vkey(a),), *self.mut_guards())
                return
            env[rid] = Sym("mut", x["m"], vkey(env.get(rid)), tuple(vkey(self.eval(a, env, depth)) for a in x["args"]), *self.mut_guards())
            return
        if k == "ret":
            if self.loops or self.guards:
                # a `return` that only some iterations / some branches reach: in loop mode the body is summarised once, so this would be read as unconditional
                raise Unsupported("conditional return inside a loop body at line %s" % x.get("ln"))
            raise Return(self.eval(x["e"], env, depth) if "e" in x else Sym("unit"))
        if k == "break" and self.tail_loops and not self.loops and "e" in x:
            raise Return(self.eval(x["e"], env, depth))          # `break v` out of the tail loop of the function is `return v`
        if k in ("break", "continue"):
            raise Unsupported("%s inside a summarised loop body at line %s" % (k, x.get("ln")))
        v = self.eval(x, env, depth)
        if isinstance(v, Sym) and v.tag[:1] == ("diverges",) and not self.loops and not self.guards:
            raise Return(v)          # `if c { panic!(..) }` as a statement: the path ends here (outside loops, where execution is per path)

    def mut_guards(self):
        """The conditions under which a mutation inside a summarised loop body happens (part of the mutated value's identity: `if c { s.insert(x) }` is not
        `s.insert(x)`); empty outside conditionals."""
        return (tuple(self.guards),) if self.guards else ()

    def carried(self, lhs, val, env):
        """A scalar local declared outside a summarised `for` loop and assigned inside it is loop-carried: after the loop its value is not that of one generic
        iteration. It becomes an opaque `carried` value (of the previous value, the per-iteration update, the guards and the loop), so tests on it stay undecided."""
        t = strip_refs(lhs)
        if not (self.loops and self.outer_locals and t.get("k") == "path" and t.get("res") == "local" and t["id"] in self.outer_locals[-1]):
            return val
        prev = env.get(t["id"])
        self._carried_vals = getattr(self, "_carried_vals", {})
        self._carried_vals[t["id"]] = val          # the update as a value (the tag below keeps only its key)
        tag = ("carried", vkey(prev), vkey(val), tuple(self.guards), tuple(self.loops))
        return Poly.atom(tag) if isinstance(val, Poly) and val.order == 0 else Sym(*tag)

    def index_write(self, lhs, val, env, depth, x):
        base = strip_refs(lhs["e"])
        arr = self.eval(base, env, depth)
        if isinstance(arr, Sym) and base.get("k") == "path" and base.get("res") == "local":
            arr = Arr([], arr)            # writes into an existing (opaque) container: base = its previous content
            env[base["id"]] = arr
        if isinstance(arr, ArrView):
            iv = self.eval(lhs["i"], env, depth)
            if isinstance(iv, Poly):
                self.seq_no = getattr(self, "seq_no", 0) + 1
                arr.arr.writes.append({"idx": arr.full_index(iv), "guards": tuple(self.guards), "loops": tuple(self.loops), "val": val, "seq": self.seq_no})
                return
        if isinstance(arr, Arr):
            iv = self.eval(lhs["i"], env, depth)
            idx = list(iv.items) if isinstance(iv, Tup) else [iv]
            self.seq_no = getattr(self, "seq_no", 0) + 1
            arr.writes.append({"idx": idx, "guards": tuple(self.guards), "loops": tuple(self.loops), "val": val, "seq": self.seq_no})
            return
        raise Unsupported("indexed write into a value that is not a zero-initialised local array at line %s" % x.get("ln"))

    def exec_while(self, x, env, depth):
        """`while C { B }` as the fixed iteration of its assigned locals: each becomes iterate(k; inits; C(@); steps(@))."""
        assigned = []
        for e in hir.walk(x["body"]):
            tgt = None
            if e.get("k") in ("assign", "assignop"):
                tgt = strip_refs(e["l"])
            elif e.get("k") == "mcall" and e["m"] in MUTATORS:
                tgt = strip_refs(e["recv"])
            if tgt is not None and tgt.get("k") == "path" and tgt.get("res") == "local" and tgt["id"] in env and tgt["id"] not in assigned:
                assigned.append(tgt["id"])
        if not assigned:
            raise Unsupported("while loop that assigns no local at line %s" % x.get("ln"))
        env2 = dict(env)
        for k_, vid in enumerate(assigned):
            env2[vid] = Poly.atom(("loopvar", k_)) if isinstance(env[vid], Poly) else Sym("loopvar", k_)
        cond = self.eval(x["c"], env2, depth)
        saved = self.loops
        self.loops = []      # a while body is executed in sequence mode, not as an array comprehension
        try:
            self.exec_stmt(x["body"], env2, depth)
        finally:
            self.loops = saved
        inits = tuple(vkey(env[v]) for v in assigned)
        steps = tuple(vkey(env2[v]) for v in assigned)
        rep = counted_loop(assigned, env, env2, cond)
        if rep is not None:
            # a counted loop (`c := c0; while c </> N { x := f(x); c := c +/- 1 }`) applies f a fixed number of times: the same thing as
            # `(0..n).fold(x0, |acc, _| f(acc))` — one canonical form for both spellings
            xid, cid, count, final_c = rep
            kx = assigned.index(xid)
            step = key_subst(vkey(env2[xid]), vkey(Sym("loopvar", kx)), vkey(Sym("acc")))
            env[xid] = Sym("repeat", count.key(), vkey(env[xid]), step)
            env[cid] = final_c
            return
        # each variable's value is the fixed iteration of the variables it depends on (through its own step and through the loop test): a temporary that is
        # merely recomputed from the others each round (`start = candidate + 1`) does not enter the recurrence of the others
        def mentions(k, j):
            return key_mentions(k, ("sym", "loopvar", j)) or key_mentions(k, ("loopvar", j))
        n_ = len(assigned)
        ck_ = vkey(cond)
        base = {j for j in range(n_) if mentions(ck_, j)}
        for k_, vid in enumerate(assigned):
            dep = set(base) | {k_}
            grew = True
            while grew:
                grew = False
                for j in list(dep):
                    for j2 in range(n_):
                        if j2 not in dep and mentions(steps[j], j2):
                            dep.add(j2)
                            grew = True
            order = sorted(dep)

            def renum(k):
                for pos, j in enumerate(order):
                    k = key_subst(key_subst(k, ("sym", "loopvar", j), ("sym", "loopvar~", pos)), ("loopvar", j), ("loopvar~", pos))
                for pos in range(len(order)):
                    k = key_subst(key_subst(k, ("sym", "loopvar~", pos), ("sym", "loopvar", pos)), ("loopvar~", pos), ("loopvar", pos))
                return k
            tag = ("iterate", order.index(k_), tuple(inits[j] for j in order), renum(ck_), tuple(renum(steps[j]) for j in order))
            env[vid] = Poly.atom(tag) if isinstance(env[vid], Poly) else Sym(*tag)

    def arith(self, op, l, r, e, depth):
        op = op.replace("Assign", "")
        if isinstance(l, Alt) or isinstance(r, Alt):
            out = []
            for gl, lv in (flat_alts(l) if isinstance(l, Alt) else [((), l)]):
                for gr, rv in (flat_alts(r) if isinstance(r, Alt) else [((), r)]):
                    gs = tuple(gl) + tuple(gr)
                    out.append((gs[0] if len(gs) == 1 else ("all", gs), self.arith(op, num(lv), num(rv), e, depth)))
            return Alt(out)
        if isinstance(l, Rec) or isinstance(r, Rec):
            return self.overloaded(e, [l, r], depth)
        if not (isinstance(l, Poly) and isinstance(r, Poly)):
            raise Unsupported("compound assignment on non-numeric values")
        return {"Add": lambda: l + r, "Sub": lambda: l - r, "Mul": lambda: l * r, "Div": lambda: l * r.inv()}[op]()

    def assign(self, lhs, val, env):
        while lhs.get("k") in ("ref",) or (lhs.get("k") == "un" and lhs.get("op") == "Deref"):
            lhs = lhs["e"]
        if lhs.get("k") == "path" and lhs.get("res") == "local":
            env[lhs["id"]] = val
        elif lhs.get("k") == "field":
            base = self.eval(lhs["e"], env, 0)
            if isinstance(base, Rec):
                base.fields[lhs["name"]] = val     # Rec values are shared by reference: this models `self.f = ..`
            else:
                raise Unsupported("assignment to a field of an opaque value at line %s" % lhs.get("ln"))
        else:
            raise Unsupported("assignment to a non-local place at line %s" % lhs.get("ln"))

    def ev_if(self, e, env, depth):
        if e["c"].get("k") == "letx":
            v = self.eval(e["c"]["init"], env, depth)
            env2 = dict(env)
            r = self.match_pat(e["c"]["pat"], v, env2)
            if r is True:
                return self.eval(e["t"], env2, depth)
            if r is False:
                return self.eval(e["e"], dict(env), depth) if "e" in e else Sym("unit")
            g = arm_guard(e["c"]["pat"], v)
            env2 = dict(env)
            self.bind_pat_loose(e["c"]["pat"], v, env2)
        else:
            g = guard_of(self.eval(e["c"], env, depth))
            env2 = dict(env)
        d = self.decided(g)
        if d is True:
            return self.eval(e["t"], env2, depth)
        if d is False:
            return self.eval(e["e"], dict(env), depth) if "e" in e else Sym("unit")
        # a `return` inside one branch leaves the function on that branch only
        self.path.append(g)
        try:
            t = self.eval(e["t"], env2, depth)
        except Return as ret:
            t = EarlyRet(ret.value)
        finally:
            self.path.pop()
        self.path.append(neg_guard(g))
        try:
            f = self.eval(e["e"], dict(env), depth) if "e" in e else Sym("unit")
        except Return as ret:
            f = EarlyRet(ret.value)
        finally:
            self.path.pop()
        if isinstance(t, EarlyRet) and isinstance(f, EarlyRet):
            raise Return(Alt([(g, t.value), (neg_guard(g), f.value)]))
        if g[0] == "not":
            return Alt([(neg_guard(g), f), (g, t)])       # canonical order: the positive test first
        return Alt([(g, t), (neg_guard(g), f)])

    def match_pat(self, pat, val, env):
        """Structural pattern match of a symbolic value: True / False / None (cannot decide)."""
        k = pat.get("k")
        if k in ("wild",):
            return True
        if k == "bind":
            env[pat["id"]] = val
            return self.match_pat(pat["sub"], val, env) if "sub" in pat else True
        if k in ("ref", "box", "deref"):
            return self.match_pat(pat["p"], val, env)
        if k == "or":
            res = [self.match_pat(p, val, env) for p in pat["ps"]]
            if any(r is True for r in res):
                return True
            return None if any(r is None for r in res) else False
        if k == "tuple":
            if not isinstance(val, Tup) or len(val.items) != len(pat["ps"]):
                return None
            res = [self.match_pat(p, v, env) for p, v in zip(pat["ps"], val.items)]
            if any(r is False for r in res):
                return False
            return None if any(r is None for r in res) else True
        if k in ("ts", "path", "struct"):
            name = pat.get("def", "?").rsplit("::", 1)[-1]
            if isinstance(val, Sym) and val.tag and val.tag[0] == "ctor":
                if val.tag[1] != name:
                    return False
                if k == "ts":
                    if len(pat["ps"]) != len(val.tag) - 2:
                        return None
                    res = [self.match_pat(p, v, env) for p, v in zip(pat["ps"], val.tag[2:])]
                    if any(r is False for r in res):
                        return False
                    return None if any(r is None for r in res) else True
                if k == "struct":
                    payload = val.tag[2] if len(val.tag) > 2 else None
                    for n, p in pat["fields"]:
                        if isinstance(payload, Rec) and n in payload.fields:
                            if self.match_pat(p, payload.fields[n], env) is not True:
                                return None
                        else:
                            return None
                    return True
                return True
            return None
        if k == "slice":
            if isinstance(val, Tup):
                n_, nb, na = len(val.items), len(pat["before"]), len(pat["after"])
                if ("mid" in pat and n_ < nb + na) or ("mid" not in pat and n_ != nb + na):
                    return False
                res = [self.match_pat(p, v, env) for p, v in zip(pat["before"], val.items[:nb])] + \
                      [self.match_pat(p, v, env) for p, v in zip(pat["after"], val.items[n_ - na:] if na else [])]
                if any(r is False for r in res):
                    return False
                return None if any(r is None for r in res) else True
            return None
        if k == "lit" and pat.get("lk") == "str" and is_lit(val) and isinstance(val.tag[1], str):
            return val.tag[1] == pat["v"]
        if k == "lit" and str(pat.get("v")) in ("true", "false") and isinstance(val, Sym) and val.tag[:1] == ("bool",) and len(val.tag) == 2:
            return val.tag[1] == str(pat["v"])
        if k == "lit":
            if isinstance(val, Poly) and val.const_value() is not None and pat.get("lk") in ("int", "float"):
                c = F(str(pat["v"]).replace("_", ""))
                return val.const_value() == (-c if pat.get("neg") else c)
            return None
        return None

    def ev_match(self, e, env, depth, scrut=None):
        if scrut is None:
            scrut = self.eval(e["e"], env, depth)
            cases = split_early(scrut)
            if cases is None and isinstance(scrut, Alt) and all(isinstance(l_, EarlyRet) or (isinstance(l_, Sym) and l_.tag[:1] == ("ctor",)) for _, l_ in flat_alts(scrut)):
                cases = flat_alts(scrut)          # a scrutinee that is one of several known constructors (a helper's guarded results): the arms decide per alternative
            if cases is not None:
                # `match (f(a)?, g(b)?) { .. }`: on the alternatives where a `?` returns the function is left; the arms see the remaining ones
                alts = []
                for gs, v in cases:
                    g = gs[0] if len(gs) == 1 else ("all", gs)
                    if isinstance(v, EarlyRet):
                        alts.append((g, v))
                        continue
                    self.path.extend(gs)
                    try:
                        alts.append((g, self.ev_match(e, env, depth, scrut=v)))
                    except Return as ret:
                        alts.append((g, EarlyRet(ret.value)))
                    finally:
                        del self.path[len(self.path) - len(gs):]
                return Alt(alts)
        plan = self.plan_arms(e["arms"], scrut, env, depth)
        if len(plan) == 1 and not plan[0][0]:
            return self.eval(plan[0][2], plan[0][1], depth)        # decided structurally
        alts = []
        for gt, env2, body in plan:
            g = gt[0] if len(gt) == 1 else ("all", gt)
            self.path.extend(gt)
            try:
                alts.append((g, self.eval(body, env2, depth)))
            except Return as ret:
                alts.append((g, EarlyRet(ret.value)))       # `None => return Err(..)`: only this arm leaves the function
            finally:
                del self.path[len(self.path) - len(gt):]
        if alts and all(isinstance(x, EarlyRet) for _, x in alts):
            raise Return(Alt([(g, x.value) for g, x in alts]))
        return boolify(Alt(alts)) or Alt(alts)

    def search_loop(self, x):
        """(condition expr, "true"/"false") if the `for` body is exactly `if COND { return <bool literal>; }`."""
        b = x["body"]
        while b.get("k") == "block" and not b["stmts"] and "e" in b:
            b = b["e"]
        iff, lets = None, []
        if b.get("k") == "block" and b["stmts"] and all(s_["k"] == "let" and "init" in s_ for s_ in b["stmts"][:-1]) and "e" not in b and b["stmts"][-1]["k"] in ("expr", "semi"):
            iff, lets = b["stmts"][-1]["e"], b["stmts"][:-1]
        elif b.get("k") == "block" and all(s_["k"] == "let" and "init" in s_ for s_ in b["stmts"]) and b.get("e", {}).get("k") == "if":
            iff, lets = b["e"], b["stmts"]
        elif b.get("k") == "if":
            iff = b
        if not (iff and iff.get("k") == "if" and "e" not in iff and iff["c"].get("k") != "letx"):
            return None
        self._search_lets = lets
        t = iff["t"]
        while t.get("k") == "block":
            if len(t["stmts"]) == 1 and "e" not in t and t["stmts"][0]["k"] in ("expr", "semi"):
                t = t["stmts"][0]["e"]
            elif not t["stmts"] and "e" in t:
                t = t["e"]
            else:
                return None
        if t.get("k") == "ret" and "e" in t and t["e"].get("k") == "lit" and str(t["e"].get("v")) in ("true", "false"):
            return iff["c"], str(t["e"]["v"])
        return None

    def plan_arms(self, arms, scrut, env, depth, fork=dict):
        """[(guard literals tuple, env for the body, body)] for the arms that can fire, in order. An arm fires iff its pattern matches, its `if` guard holds and
        no earlier arm fired: `if` guards are evaluated with the pattern's bindings; a catch-all pattern (or any arm after a guarded one) carries the negation
        of the arms above it — the literals an if / else-if chain leaves on the same branch. Patterns decided structurally are resolved here."""
        out, above = [], []          # above: guard tuples of earlier arms that may have fired
        for a in arms:
            env2 = fork(env)
            r = self.match_pat(a["pat"], scrut, env2)
            if r is False:
                continue
            if r is None:
                env2 = fork(env)
                try:
                    self.bind_pat_loose(a["pat"], scrut, env2)
                except Unsupported:
                    pass
            always = r is True or catch_all_pat(a["pat"])
            conds = [] if always else [arm_guard(a["pat"], scrut)]
            if "guard" in a:
                conds.append(guard_of(self.eval(a["guard"], env2, depth)))
            negs = []
            for prev_conds, prev_guarded in above:
                if always or prev_guarded:
                    negs.append(neg_guard(prev_conds[0]) if len(prev_conds) == 1 else ("not", ("all", tuple(prev_conds))))
            full = tuple(negs) + tuple(conds)
            out.append((full, env2, a["body"]))
            if always and "guard" not in a:
                break                  # nothing below can fire
            above.append((tuple(conds) if conds else (("if", ("sym", "bool", "true")),), "guard" in a))
        return out

    def bind_pat_loose(self, pat, val, env):
        k = pat.get("k")
        if k in ("path", "lit", "wild"):
            return
        if k == "or":
            return
        self.bind(pat, val, env)

    def ev_assign(self, e, env, depth):
        self.exec_stmt(e, env, depth)
        return Sym("unit")

    def ev_assignop(self, e, env, depth):
        self.exec_stmt(e, env, depth)
        return Sym("unit")

    def ev_panic(self, e, env, depth):
        return Sym("diverges", e.get("name"))

    def ev_ret(self, e, env, depth):
        raise Return(self.eval(e["e"], env, depth) if "e" in e else Sym("unit"))

    def ev_try(self, e, env, depth):
        v = self.eval(e["e"], env, depth)
        if isinstance(v, Sym) and v.tag[:2] == ("ctor", "Ok") and len(v.tag) == 3:
            return v.tag[2]
        if isinstance(v, Sym) and v.tag[:2] == ("ctor", "Err"):
            raise Return(v)
        if isinstance(v, Alt):
            out = []
            for g, x in v.alts:
                if isinstance(x, Sym) and x.tag[:2] == ("ctor", "Ok") and len(x.tag) == 3:
                    out.append((g, x.tag[2]))
                elif isinstance(x, Sym) and x.tag[:2] == ("ctor", "Err"):
                    out.append((g, EarlyRet(x)))
                else:
                    out.append((g, x))
            return Alt(out)
        return v      # opaque Result: the value continues as its Ok payload; the Err edge of `?` is decided on MIR where a rule needs it

    def ev_index(self, e, env, depth):
        b = self.eval(e["e"], env, depth)
        i = self.eval(e["i"], env, depth)
        if isinstance(i, Rec) and i.adt.endswith("ops::RangeFull"):
            return b              # `c[..]` is all of c
        if isinstance(b, ArrView) and isinstance(i, Poly):
            ik = [vkey(x) for x in b.full_index(i)]
            for w in reversed(b.arr.writes):
                if [vkey(x) for x in w["idx"]] == ik and set(w["guards"]) <= set(self.guards) and w["loops"] == tuple(self.loops):
                    return w["val"]
            return Poly.atom(("elem", b.arr.ident(), tuple(ik)))
        if isinstance(b, Arr):
            ik = [vkey(x) for x in (i.items if isinstance(i, Tup) else [i])]
            for w in reversed(b.writes):
                if [vkey(x) for x in w["idx"]] == ik and set(w["guards"]) <= set(self.guards) and w["loops"] == tuple(self.loops):
                    return w["val"]          # read-through of an element written earlier on this path
            return Poly.atom(("elem", b.ident(), tuple(ik)))
        if isinstance(b, Tup) and isinstance(i, Poly) and i.const_value() is not None and 0 <= i.const_value() < len(b.items):
            return b.items[int(i.const_value())]
        if isinstance(b, Coll) and isinstance(i, Poly) and i.order == 0:
            return b.seq.fn(i)              # element i of a collected sequence is the sequence's element function at i
        if isinstance(i, Poly) and i.order == 0:
            ety = (e.get("ty") or "").replace("&", "").replace("mut ", "").strip()
            el = self.elem_of(b) if (isinstance(b, Sym) and ("::" in ety or ety in ("str", "String"))) else None       # a named type, not a number / type parameter
            if callable(el):
                return el(i)               # element i of an opaque container of non-numeric things: the same value a `for x in &c` loop sees
            return Poly.atom(("call", "index", (vkey(b), i.key())))
        return Poly.atom(("call", "index", (vkey(b), vkey(i))))

    def ev_call(self, e, env, depth):
        f = e["f"]
        if f.get("k") == "closure":
            args = [self.eval(a, env, depth) for a in e["args"]]
            env2 = dict(env)
            for p, a in zip(f["params"], args):
                self.bind(p, a, env2)
            return self.eval(f["body"], env2, depth)
        fv = None
        if f.get("k") == "path" and f.get("res") == "local":
            fv = env.get(f["id"])
        if isinstance(fv, Clo):
            args = [self.eval(a, env, depth) for a in e["args"]]
            env2 = dict(fv.env)
            for p, a in zip(fv.params, args):
                self.bind(p, a, env2)
            return self.eval(fv.body, env2, depth)
        if isinstance(fv, Sym) and fv.tag[:1] in (("fn",), ("ctor",)) and len(fv.tag) == 2:
            # a function item / constructor handed around as a value (`helper(x, Dual::new)`, `map_contained(self, <f64 as MathFuncs>::exp, ..)`): calling the
            # parameter is calling that item
            f = {"k": "path", "res": "def", "def": fv.tag[1], "resolved": fv.tag[1], "dk": "Ctor" if fv.tag[0] == "ctor" else "AssocFn", "ln": e.get("ln")}
        if f.get("k") != "path":
            raise Unsupported("indirect call at line %s" % e.get("ln"))
        d = f.get("resolved") or f.get("def", "")
        if not f.get("resolved") and f.get("gargs") and self.facts.fn(d) is None:
            d = self.resolve_generic(f.get("def", ""), f["gargs"]) or d
        dk = f.get("dk", "")
        args = [self.eval(a, env, depth) for a in e["args"]]
        for suffix, h in self.hooks.items():
            if not suffix.startswith("@") and (d.endswith(suffix) or f.get("def", "").endswith(suffix)):
                return h(self, args, e)
        if dk.startswith("Ctor") and d.startswith("std::borrow::Cow::") and len(args) == 1:
            return args[0]            # Cow::Borrowed(x) / Cow::Owned(x) deref to x
        if dk.startswith("Ctor") and len(args) == 1 and isinstance(args[0], Alt) and d.rsplit("::", 1)[-1] in ("Ok", "Err", "Some") and e["args"][0].get("ty") != "bool":
            # `Ok(if c { a } else { b })` (the alternatives may come from an inlined helper) is `if c { Ok(a) } else { Ok(b) }`
            nm = d.rsplit("::", 1)[-1]
            return Alt([(gs[0] if len(gs) == 1 else ("all", gs), xv if isinstance(xv, EarlyRet) else Sym("ctor", nm, xv)) for gs, xv in flat_alts(args[0])])
        if dk.startswith("Ctor") and len(args) == 1 and split_early(args[0]) is not None:
            # `Variant(helper(..)?)`: on the alternatives where `?` returns, the function is left; the constructor wraps the others
            nm = d.rsplit("::", 1)[-1]
            return Alt([(gs[0] if len(gs) == 1 else ("all", gs), xv if isinstance(xv, EarlyRet) else Sym("ctor", nm, xv)) for gs, xv in split_early(args[0])])
        if dk.startswith("Ctor"):
            return Sym("ctor", d.rsplit("::", 1)[-1], *args)
        if d.startswith("core::panicking::") or d.startswith("std::rt::begin_panic"):
            return Sym("diverges", "panic")
        last = d.rsplit("::", 1)[-1]
        if last == "clone" or d.endswith("Arc::<T>::clone") or d.endswith("convert::From::from") and False:
            return args[0]
        if d.endswith("fouter11_"):
            return outer(as_poly(args[0]), as_poly(args[1]))
        if last in F64_UNARY and len(args) == 1 and isinstance(args[0], Poly) and "f64" in d:
            return func_atom(F64_UNARY[last], args[0])
        if d.endswith("Normal::new"):
            if len(args) == 2 and all(isinstance(a, Poly) for a in args) and args[0].const_value() == 0 and args[1].const_value() == 1:
                return Sym("normal01?")
            raise Unsupported("Normal::new with parameters other than (0, 1)")
        if d in ("dual::dual::Dual::new", "dual::dual::Dual2::new") and len(args) == 2:
            adt = d.rsplit("::", 1)[0]
            empty = isinstance(args[1], Tup) and not args[1].items
            if not empty:
                return self.apply_fn(d, args, depth)
            fields = {"real": args[0], "dual": Poly({}, 1), "vars": Sym("novars")}
            if adt.endswith("Dual2"):
                fields["dual2"] = Poly({}, 2)
            return Rec(adt, fields)
        if "HashMap" in d and last == "from" and len(args) == 1 and isinstance(args[0], Tup) and all(isinstance(x, Tup) and len(x.items) == 2 for x in args[0].items):
            return Sym("ctor", "HashMapLit", args[0])          # a map written out as (key, value) pairs
        if d.endswith("Vec::<T>::new") and not args:
            return Tup([])
        if (d.endswith("Arc::<T>::new") or d.endswith("Box::<T>::new")) and len(args) == 1:
            return args[0]
        if last in ("from", "into") and len(args) == 1 and isinstance(args[0], Poly) and args[0].order == 0 and not self.facts.fn(d):
            return args[0]            # lossless numeric widening
        if last == "from" and len(args) == 1 and not self.facts.fn(d) and (e.get("ty") or "").startswith("std::vec::Vec<") and \
                (e["args"][0].get("ty") or "").lstrip("&").startswith("["):
            return args[0]            # Vec::from(slice) copies the slice, like to_vec()
        if last in ("try_from", "try_into") and len(args) == 1 and isinstance(args[0], Poly) and args[0].order == 0 and not self.facts.fn(d):
            return Sym("ctor", "Ok", args[0])
        if last == "from_iter" and len(args) == 1:
            if isinstance(args[0], Seq):
                return collected(args[0])
            return Sym("collect", vkey(args[0]))
        if last == "from_vec" and len(args) == 1 and isinstance(args[0], (Coll, Tup)):
            return args[0]
        if last == "from_shape_vec" and len(args) == 2 and isinstance(args[0], Tup) and isinstance(args[1], Coll) and "ndarray" in d:
            return Sym("ctor", "Ok", Sym("reshaped", vkey(args[1]), vkey(args[0])))          # Array::from_shape_vec(shape, v) = from_vec(v) reshaped row-major (Err only if the count differs)
        if last in ("zeros", "ones") and "ndarray" in d and len(args) == 1:
            shape = args[0].items if isinstance(args[0], Tup) else [args[0]]
            self.zero_shapes.append((last, tuple(vkey(x) for x in shape)))
            if last == "zeros":
                return Arr(shape, Poly.const(0))
            return Poly.tensor(("ones", tuple(vkey(x) for x in shape)), len(shape))
        if last in ("from_elem", "from_shape_fn") and "ndarray" in d and len(args) == 2:
            shape = args[0].items if isinstance(args[0], Tup) else [args[0]]
            v = args[1]
            if last == "from_shape_fn":
                if not isinstance(v, Clo):
                    raise Unsupported("from_shape_fn with a non-closure")
                env2 = dict(v.env)
                idx = [Poly.atom("s%d" % i) for i in range(len(shape))]
                self.bind(v.params[0], idx[0] if len(idx) == 1 else Tup(idx), env2)
                v = self.collapse(self.eval(v.body, env2, depth))
            if isinstance(v, Poly) and v.order == 0 and v.const_value() is not None:
                kind = {0: "zeros", 1: "ones"}.get(v.const_value())
                if kind:
                    self.zero_shapes.append((kind, tuple(vkey(x) for x in shape)))
                    return Arr(shape, Poly.const(0)) if kind == "zeros" else Poly.tensor(("ones", tuple(vkey(x) for x in shape)), len(shape))
            return Arr(shape, v if isinstance(v, Poly) else Sym("elem", vkey(v)))
        if last == "eye" and "ndarray" in d and len(args) == 1:
            return Arr([args[0], args[0]], Sym("eye"))
        if d.endswith("ndarray::Axis") or last == "Axis":
            return Sym("axis", vkey(args[0]))
        if self.facts.fn(d) is not None:
            self._gargs = [self.concrete_ty(t) for t in f["gargs"]] if f.get("gargs") else None
            return self.apply_fn(d, args, depth)
        # opaque: an unmodelled external function of symbolic arguments (can only fail to match an expected form)
        return Sym("call", d, tuple(vkey(a) for a in args))

    def call_value(self, fval, vals, e, depth):
        """Call a function item held as a value (`opt.map(helper)`) on already evaluated arguments."""
        d = fval.tag[1]
        for suffix, h in self.hooks.items():
            if not suffix.startswith("@") and d.endswith(suffix):
                return h(self, vals, e)
        if self.facts.fn(d) is not None:
            return self.apply_fn(d, vals, depth)
        return Sym("call", d, tuple(vkey(a) for a in vals))

    def elem_of(self, container):
        """Symbolic element of an iterated container, or None if its shape is not declared."""
        if isinstance(container, Sym) and container.tag[:1] == ("lane",) and len(container.tag) == 4:
            # a row / column of an opaque 2-d array: element k of row i is cell (i, k), of column j cell (k, j)
            _, a_, ax_, i_ = container.tag
            return lambda idx, a_=a_, ax_=ax_, i_=i_: Sym("cell", a_, i_ if ax_ == 0 else idx.key(), idx.key() if ax_ == 0 else i_)
        f = self.hooks.get("@elem")
        return f(container) if f else None

    def ev_mcall(self, e, env, depth):
        recv = self.eval(e["recv"], env, depth)
        args = [self.eval(a, env, depth) for a in e["args"]]
        m = e["m"]
        d = e.get("resolved") or e.get("callee") or ""
        for suffix, h in self.hooks.items():
            if not suffix.startswith("@") and d.endswith(suffix):
                return h(self, [recv] + args, e)
        if m == "shape" and not args and "ndarray" in d and isinstance(recv, Sym):
            m = "dim"          # the extents of an ndarray as a slice / as a tuple: one spelling (`a.shape() == [r, c]` is `a.dim() == (r, c)`)
        if isinstance(recv, Sym) and recv.tag[:1] == ("ctor",) and len(recv.tag) == 2 and recv.tag[1] in WEEKDAY_NO and not args and \
                m in ("num_days_from_monday", "number_from_monday", "num_days_from_sunday", "number_from_sunday") and "chrono" in d:
            n_ = WEEKDAY_NO[recv.tag[1]]          # chrono::Weekday numbering: Mon = 0 .. Sun = 6
            return Poly.const({"num_days_from_monday": n_, "number_from_monday": n_ + 1, "num_days_from_sunday": (n_ + 1) % 7, "number_from_sunday": (n_ + 1) % 7 + 1}[m])
        if isinstance(recv, Sym) and recv.tag[:2] == ("ctor", "HashMapLit") and m in ("get", "contains_key") and len(args) == 1:
            # look-up of a literal key in a map written out as pairs with literal keys: the later of equal keys wins, as on insertion
            pairs = recv.tag[2].items
            if is_lit(args[0]) and all(is_lit(p_.items[0]) for p_ in pairs):
                hit = [p_.items[1] for p_ in pairs if vkey(p_.items[0]) == vkey(args[0])]
                if m == "contains_key":
                    return Sym("bool", "true" if hit else "false")
                return Sym("ctor", "Some", hit[-1]) if hit else Sym("ctor", "None")
            return Sym("lookup", vkey(recv), vkey(args[0]))
        if isinstance(recv, (Tup, Seq)) and m in ("find", "position", "any", "all") and len(args) == 1 and isinstance(args[0], Clo) and \
                (isinstance(recv, Tup) or isinstance(getattr(recv, "finite", None), list)):
            # a search over a list written out in full, with a test that evaluates to a constant on every element, is decided
            items = recv.items if isinstance(recv, Tup) else recv.finite
            res = []
            for it_ in items:
                env2 = dict(args[0].env)
                self.bind(args[0].params[0], it_, env2)
                b_ = self.collapse(self.eval(args[0].body, env2, depth))
                res.append(b_.tag[1] if isinstance(b_, Sym) and b_.tag[:1] == ("bool",) else None)
            if None not in res:
                hits = [i_ for i_, r_ in enumerate(res) if r_ == "true"]
                if m == "find":
                    return Sym("ctor", "Some", items[hits[0]]) if hits else Sym("ctor", "None")
                if m == "position":
                    return Sym("ctor", "Some", Poly.const(hits[0])) if hits else Sym("ctor", "None")
                if m == "any":
                    return Sym("bool", "true" if hits else "false")
                return Sym("bool", "true" if len(hits) == len(items) else "false")
        if isinstance(recv, Tup) and m in ("iter", "into_iter") and not args and self.hooks.get("@const") is not None:
            sq = Seq(recv, lambda idx, recv=recv: recv.items[int(idx.const_value())] if idx.const_value() is not None and 0 <= idx.const_value() < len(recv.items)
                     else Sym("at", vkey(recv), idx.key()))
            sq.finite = list(recv.items)
            return sq
        if m in ("column", "column_mut", "row", "row_mut") and len(args) == 1 and isinstance(recv, Arr) and len(recv.dims) == 2 and isinstance(args[0], Poly):
            return ArrView(recv, 1 if m.startswith("column") else 0, args[0])
        if m == "iter_mut" and not args and isinstance(recv, Arr) and len(recv.dims) == 1:
            # element idx of `a.iter_mut()` is the place a[idx]; the sequence runs over the array's extent
            return Seq(Sym("range", Poly.const(0).key(), vkey(recv.dims[0])), lambda idx, a=recv: ElemRef(a, [idx]))
        if m == "next" and not args and strip_refs(e["recv"]).get("k") == "path" and strip_refs(e["recv"]).get("res") == "local" and not self.loops and \
                isinstance(recv, (Sym, Seq)) and not (isinstance(recv, Sym) and recv.tag[:1] == ("ctor",)):
            # pulling from a local iterator: the k-th pull is item k of the sequence it was created over (None once exhausted); the iterator advances
            rid = strip_refs(e["recv"])["id"]
            base, k_ = (recv.tag[1], recv.tag[2]) if isinstance(recv, Sym) and recv.tag[:1] == ("advanced",) else (vkey(recv), 0)
            env[rid] = Sym("advanced", base, k_ + 1)
            return Sym("nth", base, k_)
        if m in ("into_iter", "iter") and not args and isinstance(recv, Sym) and recv.tag[:2] in (("ctor", "Some"), ("ctor", "None")) and len(recv.tag) <= 3:
            # an Option iterates over its payload once, or not at all
            if recv.tag[1] == "None":
                sq = Seq(Sym("empty"), lambda idx: Sym("never"))
                sq.empty = True
                return sq
            sq = Seq(Sym("once", vkey(recv.tag[2])), lambda idx, v=recv.tag[2]: v)
            sq.once = recv.tag[2]
            return sq
        if m in ("axis_iter", "outer_iter", "rows", "columns", "lanes") and isinstance(recv, Sym) and recv.tag[:1] in (("param",), ("m",), ("field",), ("matrix",), ("payload",)) and \
                ((m in ("axis_iter", "lanes") and len(args) == 1 and isinstance(args[0], Sym) and args[0].tag[:2] == ("ctor", "Axis") and len(args[0].tag) == 3 and
                  isinstance(args[0].tag[2], Poly) and args[0].tag[2].const_value() in (0, 1)) or (m not in ("axis_iter", "lanes") and not args)) and "ndarray" in d:
            # the lanes of an opaque 2-d array, in order: `axis_iter(Axis(0))`, `outer_iter()`, `rows()` and `lanes(Axis(1))` walk the rows (lane i = row i);
            # `axis_iter(Axis(1))`, `columns()` and `lanes(Axis(0))` walk the columns — each lane an opaque 1-d view
            if m == "axis_iter":
                ax = int(args[0].tag[2].const_value())
            elif m == "lanes":
                ax = 1 - int(args[0].tag[2].const_value())
            else:
                ax = 1 if m == "columns" else 0
            return Seq(Sym("axis", vkey(recv), ax), lambda idx, a=recv, ax=ax: Sym("lane", vkey(a), ax, idx.key()))
        if m in ("row", "column") and len(args) == 1 and isinstance(args[0], Poly) and isinstance(recv, Sym) and recv.tag[:1] in (("param",), ("field",), ("matrix",), ("payload",)) and "ndarray" in d:
            return Sym("lane", vkey(recv), 0 if m == "row" else 1, args[0].key())
        if m == "into_shape_with_order" and len(args) == 1 and isinstance(recv, Coll) and isinstance(args[0], Tup):
            return Sym("ctor", "Ok", Sym("reshaped", vkey(recv), vkey(args[0])))          # the same elements, row-major, in the given shape (Err only if the count differs: the `?`/expect convention)
        if m == "cartesian_product" and len(args) == 1 and isinstance(recv, Seq) and isinstance(args[0], Seq) and not recv.enumerated and not args[0].enumerated:
            # every pair (x, y), x outer and y inner: element number i*|ys| + j is (xs[i], ys[j]) — kept as the pair at the two positions i, j
            return Seq(Sym("product", vkey(recv.src), vkey(args[0].src)), lambda idx, f1=recv.fn, f2=args[0].fn: Tup([f1(Poly.atom("i")), f2(Poly.atom("j"))]))
        if m == "windows" and len(args) == 1 and isinstance(args[0], Poly) and args[0].const_value() is not None and 1 <= args[0].const_value() <= 4:
            # `s.windows(k)`: the k consecutive elements starting at each position 0..len-(k-1) — for k = 2 the pairs of `s.iter().zip(s.iter().skip(1))`
            base = recv.seq if isinstance(recv, Coll) else recv
            if isinstance(base, Sym):
                el = self.elem_of(base)
                base = Seq(base, el if callable(el) else (lambda idx, el=el: el)) if el is not None else None
            if isinstance(base, Seq) and not base.enumerated:
                kk = int(args[0].const_value())
                n_ = Poly.atom(("len", len_base(vkey(base.src)), None)) - Poly.const(kk - 1)
                return Seq(Sym("range", Poly.const(0).key(), n_.key()), lambda idx, f0=base.fn, kk=kk: Tup([f0(idx + Poly.const(j)) for j in range(kk)]))
        if isinstance(recv, Seq) and m == "flatten" and not args and (getattr(recv, "empty", False) or getattr(recv, "once", None) is not None):
            if getattr(recv, "empty", False):
                return recv
            inner = recv.once            # `Some(v).iter().flatten()` walks v
            if isinstance(inner, Coll):
                return inner.seq
            el = self.elem_of(inner)
            if el is not None:
                return Seq(inner, el if callable(el) else (lambda idx, el=el: el))
        if isinstance(recv, Seq) and getattr(recv, "empty", False) and m in ("all", "any"):
            return Sym("bool", "true" if m == "all" else "false")
        if m in ("into_iter", "iter") and not args and not isinstance(recv, (Poly, Seq)):
            el = self.elem_of(recv)
            if el is not None:
                return Seq(recv, el if callable(el) else (lambda idx, el=el: el))
        if isinstance(recv, Sym) and m in ("map", "filter", "enumerate", "zip", "all", "any", "fold", "for_each", "filter_map", "flat_map") and recv.tag[:1] != ("ctor",) and \
                not (e["recv"].get("ty") or "").replace("&", "").startswith(("std::option::Option<", "std::result::Result<")):
            # an opaque value that is itself an iterator (`s.split(",")`): same sequence as when a `for` loop walks it
            el = self.elem_of(recv)
            if el is not None:
                recv = Seq(recv, el if callable(el) else (lambda idx, el=el: el))
        if isinstance(recv, Rec) and recv.adt.endswith("ops::Range"):
            if m in ("rev", "into_iter", "iter") and not args:
                tag = "revrange" if m == "rev" else "range"
                return Seq(Sym(tag, vkey(recv.fields.get("start")), vkey(recv.fields.get("end"))), lambda idx: idx)
            if m in ("map", "filter", "enumerate", "zip", "all", "any", "fold", "collect", "sum", "count"):
                recv = Seq(Sym("range", vkey(recv.fields.get("start")), vkey(recv.fields.get("end"))), lambda idx: idx)
        if isinstance(recv, Coll):
            if m in ("into_iter", "iter") and not args:
                return recv.seq
            if m == "len" and not args:
                return Poly.atom(("len", vkey(recv.seq.src), None))
        if isinstance(recv, Seq):
            if m in ("into_iter", "iter", "cloned", "copied", "by_ref") and not args:
                return recv
            if m == "enumerate" and not args:
                ks_ = vkey(recv.src)
                if isinstance(ks_, tuple) and ks_[:2] == ("sym", "range") and ks_[2] != Poly.const(0).key():
                    a_ = poly_from_key(ks_[2])      # over a range the index variable is the value itself: the position is value - start
                    return Seq(recv.src, lambda idx, f0=recv.fn, a_=a_: Tup([idx - a_, f0(idx)]), True)
                return Seq(recv.src, lambda idx, f0=recv.fn: Tup([idx, f0(idx)]), True)
            if m == "take" and len(args) == 1 and isinstance(args[0], Poly) and args[0].order == 0:
                ks_ = vkey(recv.src)
                if isinstance(ks_, tuple) and ks_[:2] == ("sym", "range"):
                    pass      # min(end, start + n) is not a polynomial: left to the opaque adapter below
                elif not (isinstance(ks_, tuple) and ks_[:2] in (("sym", "skip"), ("sym", "zip"), ("sym", "filter"), ("sym", "flat_map"), ("sym", "zipidx"), ("sym", "revrange"))):
                    # the first n elements of a container, by position: positions 0..n (n <= len, as for the index loop `for j in 0..n { c[j] }`)
                    return Seq(Sym("range", Poly.const(0).key(), args[0].key()), recv.fn, recv.enumerated)
            if m == "map" and len(args) == 1:
                f = args[0]
                if isinstance(f, Clo):
                    def mapped(idx, f=f, f0=recv.fn):
                        env2 = dict(f.env)
                        self.bind(f.params[0], f0(idx), env2)
                        return self.collapse(self.eval(f.body, env2, depth))
                    return Seq(recv.src, mapped, recv.enumerated)
                if isinstance(f, Sym) and f.tag[0] == "fn":
                    hook = next((h for suffix, h in self.hooks.items() if not suffix.startswith("@") and f.tag[1].endswith(suffix)), None)
                    if hook is not None:
                        return Seq(recv.src, lambda idx, hook=hook, f0=recv.fn: hook(self, [f0(idx)], e), recv.enumerated)     # `.map(helper)` == `.map(|x| helper(x))`
                    if self.facts.fn(f.tag[1]) is not None:
                        return Seq(recv.src, lambda idx, f=f, f0=recv.fn: self.apply_fn(f.tag[1], [f0(idx)], depth), recv.enumerated)
                raise Unsupported("map over a function value that is not modelled: %r" % (f,))
            if m == "collect" and not args:
                if (e.get("ty") or "").replace("&", "").startswith("std::result::Result<"):
                    # collecting Results: Ok(all payloads) unless one is Err, which is returned — the same convention as `push(f(x)?)` with `?` on an opaque result
                    return Sym("ctor", "Ok", Coll(recv))
                return collected(recv)
            if m == "skip" and len(args) == 1 and isinstance(args[0], Poly) and args[0].order == 0 and isinstance(vkey(recv.src), tuple) and vkey(recv.src)[:2] == ("sym", "range"):
                ks_ = vkey(recv.src)          # positions a..b without the first k: a+k..b, element function unchanged (it takes the position itself)
                return Seq(Sym("range", (poly_from_key(ks_[2]) + args[0]).key(), ks_[3]), recv.fn, recv.enumerated)
            if m == "skip" and len(args) == 1 and isinstance(args[0], Poly) and not recv.enumerated:
                return Seq(Sym("skip", vkey(recv.src), args[0].key()), lambda idx, f0=recv.fn, n=args[0]: f0(idx + n))
            if m in ("all", "any") and len(args) == 1 and isinstance(args[0], Clo):
                f = args[0]
                recv = canon_seq(recv)
                env2 = dict(f.env)
                self.bind(f.params[0], recv.fn(Poly.atom("q%d" % len(self.loops))), env2)
                self.loops.append(("q", vkey(recv.src)))
                try:
                    body = self.collapse(self.eval(f.body, env2, depth))
                finally:
                    self.loops.pop()
                return quant("forall" if m == "all" else "exists", recv.src, body)
            if m == "fold" and len(args) == 2 and (isinstance(args[1], Clo) or (isinstance(args[1], Sym) and args[1].tag[:1] == ("fn",))):
                f = args[1]
                accv = Poly.atom("acc") if isinstance(args[0], Poly) else (operand("acc", args[0].adt) if isinstance(args[0], Rec) and args[0].adt.startswith("dual::dual::Dual") else Sym("acc"))
                elv = recv.fn(Poly.atom("q%d" % len(self.loops)))
                self.loops.append(("q", vkey(recv.src)))
                try:
                    if isinstance(f, Clo):
                        env2 = dict(f.env)
                        self.bind(f.params[0], accv, env2)
                        self.bind(f.params[1], elv, env2)
                        body = self.collapse(self.eval(f.body, env2, depth))
                    elif self.facts.fn(f.tag[1]) is not None:
                        body = self.collapse(self.apply_fn(f.tag[1], [accv, elv], depth))        # `.fold(z, helper)` == `.fold(z, |a, x| helper(a, x))`
                    else:
                        body = self.collapse(self.overloaded({"callee": f.tag[1]}, [accv, elv], depth))     # a trait method item, e.g. <T as Add>::add
                finally:
                    self.loops.pop()
                src = vkey(recv.src)
                qn = "q%d" % len(self.loops)
                if isinstance(src, tuple) and src[:2] == ("sym", "range") and not isinstance(args[0], Poly) and not key_mentions(vkey(body), qn) and not recv.enumerated:
                    count = poly_from_key(src[3]) - poly_from_key(src[2])
                    return Sym("repeat", count.key(), vkey(args[0]), vkey(body))      # same canonical form as a counted while loop
                tag = ("fold", src, vkey(args[0]), vkey(body))
                return Poly.atom(tag) if isinstance(args[0], Poly) else Sym(*tag)
            if m == "filter_map" and len(args) == 1 and isinstance(args[0], Clo):
                # `seq.filter_map(|x| opt(x).map(|v| item(x, v)))`: the items of those elements for which opt(x) is Some — consumed by a `for` loop as
                # the loop over `seq` itself with the body under the guard `opt(x) is Some` (the form `for x in seq { if let Some(v) = opt(x) { .. } }`)
                f = args[0]
                def kept(idx, f=f, recv=recv, depth=depth):
                    env2 = dict(f.env)
                    self.bind(f.params[0], recv.fn(idx), env2)
                    b_ = f.body
                    scope_ = None
                    if b_.get("k") == "tyscope":          # a closure made inside an inlined generic function: look through its type scope
                        scope_, b_ = b_["tymap"], b_["e"]
                    while b_.get("k") == "block" and not b_["stmts"] and "e" in b_:
                        b_ = b_["e"]
                    if b_.get("k") == "mcall" and b_["m"] == "map" and len(b_["args"]) == 1 and b_["args"][0].get("k") == "closure" and \
                            (b_["recv"].get("ty") or "").replace("&", "").startswith("std::option::Option<"):
                        if scope_ is not None:
                            self.tymaps.append(scope_)
                        try:
                            o_ = self.eval(b_["recv"], env2, depth)
                            if isinstance(o_, (Sym, Seq)) and not (isinstance(o_, Sym) and o_.tag[:1] == ("ctor",)):
                                env3 = dict(env2)
                                self.bind(b_["args"][0]["params"][0], Sym("payload", vkey(o_), 0), env3)
                                return ("arm", ("Some", "_"), vkey(o_)), self.collapse(self.eval(b_["args"][0]["body"], env3, depth))
                        finally:
                            if scope_ is not None:
                                self.tymaps.pop()
                    r_ = self.collapse(self.eval(f.body, env2, depth))
                    if isinstance(r_, Alt) and len(r_.alts) == 2:
                        (g1, v1), (g2, v2) = r_.alts
                        if g2 == neg_guard(g1) and isinstance(v1, Sym) and v1.tag[:2] == ("ctor", "Some") and isinstance(v2, Sym) and v2.tag[:2] == ("ctor", "None"):
                            return g1, v1.tag[2]
                        if g2 == neg_guard(g1) and isinstance(v2, Sym) and v2.tag[:2] == ("ctor", "Some") and isinstance(v1, Sym) and v1.tag[:2] == ("ctor", "None"):
                            return g2, v2.tag[2]
                    return None
                k0 = kept(Poly.atom("i"))
                if k0 is not None:
                    nsrc = Sym("filter_map", vkey(recv.src), k0[0], vkey(k0[1]))
                    sq = Seq(nsrc, lambda idx, kept=kept: kept(idx)[1])
                    sq.base_src, sq.elem_guard = recv.src, (lambda idx, kept=kept: kept(idx)[0])
                    return sq
            if m == "eq" and len(args) == 1 and isinstance(args[0], (Seq, Coll)) and not recv.enumerated:
                # Iterator::eq: the same number of items and pairwise equal in order — `a.len() == b.len() && a.iter().zip(b.iter()).all(|(x, y)| x == y)`
                o = args[0].seq if isinstance(args[0], Coll) else args[0]
                if not o.enumerated:
                    q = Poly.atom("q%d" % len(self.loops))
                    same_len = cmp_sym("Eq", Poly.atom(("len", vkey(recv.src), None)), Poly.atom(("len", vkey(o.src), None)), True)
                    pairwise = quant("forall", Sym("zip", vkey(recv.src), vkey(o.src)), eq_sym(recv.fn(q), o.fn(q)))
                    if isinstance(same_len, Sym) and same_len.tag == ("bool", "true"):
                        return pairwise
                    a_, b_ = sorted([vkey(same_len), vkey(pairwise)], key=repr)
                    return Sym("and", a_, b_)
            if m == "flat_map" and len(args) == 1 and isinstance(args[0], Clo) and not recv.enumerated:
                # `seq.flat_map(|x| [a(x), b(x)])`: a fixed group of items per element; consumed by `extend` as that many inserts per element
                f = args[0]
                def group(idx, f=f, recv=recv, depth=depth):
                    env2 = dict(f.env)
                    self.bind(f.params[0], recv.fn(idx), env2)
                    g_ = self.collapse(self.eval(f.body, env2, depth))
                    return g_.items if isinstance(g_, Tup) else None
                # `xs.flat_map(|x| ys.map(|y| f(x, y)))`: for every x, every y — the pairs of `xs.cartesian_product(ys)` mapped through f, x outer and y inner
                env_p = dict(f.env)
                self.bind(f.params[0], recv.fn(Poly.atom("i")), env_p)
                try:
                    inner_ = self.eval(f.body, env_p, depth)
                except Unsupported:
                    inner_ = None
                if isinstance(inner_, Coll):
                    inner_ = inner_.seq
                if isinstance(inner_, Seq) and not inner_.enumerated and not key_mentions(vkey(inner_.src), "i"):
                    return Seq(Sym("product", vkey(recv.src), vkey(inner_.src)), lambda idx, inner_=inner_: inner_.fn(Poly.atom("j")))
                if group(Poly.atom("i")) is not None:
                    nsrc = Sym("flat_map", vkey(recv.src), tuple(vkey(x_) for x_ in group(Poly.atom("i"))))
                    sq = Seq(nsrc, lambda idx, nsrc=nsrc: Sym("at", vkey(nsrc), idx.key()))
                    sq.groups = (recv.src, group)
                    return sq
            if m == "filter" and len(args) == 1 and isinstance(args[0], Clo):
                f = args[0]
                env2 = dict(f.env)
                self.bind(f.params[0], recv.fn(Poly.atom("f")), env2)
                pred = self.collapse(self.eval(f.body, env2, depth))
                nsrc = Sym("filter", vkey(recv.src), vkey(pred))
                return Seq(nsrc, lambda idx, nsrc=nsrc: Sym("at", vkey(nsrc), idx.key()))
            if m == "zip" and len(args) == 1 and isinstance(args[0], Rec) and args[0].adt.endswith("RangeFrom"):
                return Seq(Sym("zipidx", vkey(recv.src)), lambda idx, a=recv.fn: Tup([a(idx), idx + as_poly(args[0].fields["start"])]))
            if m == "zip" and len(args) == 1:
                o = args[0]
                if isinstance(o, Coll):
                    o = o.seq
                if isinstance(o, Sym) and o.tag[:1] != ("ctor",):
                    el = self.elem_of(o)          # zipping with a container itself (`a.iter().zip(b)`) walks it
                    if el is not None:
                        o = Seq(o, el if callable(el) else (lambda idx, el=el: el))
                if isinstance(o, Seq):
                    # zipping the positions 0..len(c) (e.g. the places of an array as long as c) with c itself walks c
                    pos_of = lambda c_src: vkey(Sym("range", Poly.const(0).key(), Poly.atom(("len", len_base(vkey(c_src)), None)).key()))
                    zsrc = Sym("zip", vkey(recv.src), vkey(o.src))
                    if vkey(recv.src) == vkey(o.src):
                        zsrc = recv.src          # two sequences derived element-wise from the same container walk it together
                    elif vkey(recv.src) == pos_of(o.src) and not o.enumerated:
                        zsrc = o.src
                    elif vkey(o.src) == pos_of(recv.src) and not recv.enumerated:
                        zsrc = recv.src
                    return Seq(zsrc, lambda idx, a=recv.fn, b=o.fn: Tup([a(idx), b(idx)]))
        if m == "to_string" and not args and (e.get("ty") or "") == "std::string::String" and not isinstance(recv, (Rec, Arr, Coll, Seq, Tup)) and self.facts.fn(d) is None:
            return self.text_of(recv, e["recv"].get("ty"))         # the Display text: a str is its own text
        if m in ERASE_METHODS and not args:
            return recv
        if m == "into" and not args:
            # T: Into<U> is std's blanket impl over From<T> for U: dispatch to the in-crate From impl by (source, target) types
            tgt = (e.get("ty") or "").replace("&", "")
            src = recv.adt if isinstance(recv, Rec) else ("f64" if isinstance(recv, Poly) else None)
            if src is not None and src == tgt:
                return recv
            if src is not None:
                for rr in self.facts.all_fns():
                    if rr.get("trait_item") == "std::convert::From::from" and rr.get("self_ty") == tgt and rr["sig"][0].replace("&", "") == src:
                        return self.apply_fn(rr["fn"], [recv], depth)
            if isinstance(recv, Poly) and tgt in ("f64", "f32") or (isinstance(recv, Poly) and tgt in INT_TYPES):
                return recv
            return Sym("into", tgt, vkey(recv))
        if m == "map_err" and len(args) == 1 and isinstance(recv, (Sym, Alt)):
            # Ok(x) stays Ok(x); Err(e) becomes Err(f(e)); an opaque Result continues as its Ok payload (the convention of `?`)
            def conv_err(v_):
                if isinstance(v_, Sym) and v_.tag[:2] == ("ctor", "Err") and len(v_.tag) == 3:
                    f_ = args[0]
                    if isinstance(f_, Clo):
                        env2 = dict(f_.env)
                        self.bind(f_.params[0], v_.tag[2], env2)
                        return Sym("ctor", "Err", self.collapse(self.eval(f_.body, env2, depth)))
                    if isinstance(f_, Sym) and f_.tag[:1] in (("fn",), ("ctor",)):
                        return Sym("ctor", "Err", Sym("call", f_.tag[1], (vkey(v_.tag[2]),)))
                    return Sym("ctor", "Err", Sym("mapped-error", vkey(v_.tag[2])))
                return v_
            if isinstance(recv, Alt):
                return Alt([(gs[0] if len(gs) == 1 else ("all", gs), xv if isinstance(xv, EarlyRet) else conv_err(xv)) for gs, xv in flat_alts(recv)])
            return conv_err(recv)
        if isinstance(recv, Sym) and recv.tag and recv.tag[0] == "ctor" and recv.tag[1] in ("Some", "None", "Ok", "Err"):
            # Option / Result combinators on a known constructor
            if recv.tag[1] in ("Some", "Ok") and m in ("unwrap", "expect", "unwrap_or", "unwrap_or_else", "unwrap_or_default") and len(recv.tag) == 3:
                return recv.tag[2]
            if recv.tag[1] == "None" and m == "unwrap_or" and len(args) == 1:
                return args[0]
            if recv.tag[1] == "None" and m == "unwrap_or_else" and len(args) == 1 and isinstance(args[0], Clo):
                return self.collapse(self.eval(args[0].body, dict(args[0].env), depth))
            if recv.tag[1] == "None" and m in ("unwrap", "expect"):
                return Sym("diverges", "unwrap on None")
            if m == "map_or" and len(args) == 2:
                if recv.tag[1] == "None":
                    return args[0]
                if recv.tag[1] == "Some" and isinstance(args[1], Clo):
                    env2 = dict(args[1].env)
                    self.bind(args[1].params[0], recv.tag[2], env2)
                    return self.collapse(self.eval(args[1].body, env2, depth))
            if m in ("ok_or", "ok_or_else") and len(args) == 1 and recv.tag[1] in ("Some", "None"):
                if recv.tag[1] == "Some" and len(recv.tag) == 3:
                    return Sym("ctor", "Ok", recv.tag[2])
                if recv.tag[1] == "None":
                    err = self.collapse(self.eval(args[0].body, dict(args[0].env), depth)) if isinstance(args[0], Clo) else args[0]
                    return Sym("ctor", "Err", err)
            if m == "is_some" and not args:
                return Sym("bool", "true" if recv.tag[1] == "Some" else "false")
            if m in ("map", "is_some_and", "is_none_or", "and_then") and len(args) == 1 and isinstance(args[0], Clo) and recv.tag[1] in ("Some", "None"):
                if recv.tag[1] == "None":
                    return {"map": recv, "and_then": recv, "is_some_and": Sym("bool", "false"), "is_none_or": Sym("bool", "true")}[m]
                if len(recv.tag) == 3:
                    env2 = dict(args[0].env)
                    self.bind(args[0].params[0], recv.tag[2], env2)
                    body = self.collapse(self.eval(args[0].body, env2, depth))
                    return Sym("ctor", "Some", body) if m == "map" else body
            if m == "is_none" and not args:
                return Sym("bool", "true" if recv.tag[1] == "None" else "false")
            if m in ("map", "and_then") and len(args) == 1 and recv.tag[1] in ("Ok", "Err") and (isinstance(args[0], Clo) or (isinstance(args[0], Sym) and args[0].tag[:1] == ("fn",))):
                # Result combinators on a known constructor: Err passes through, Ok(x) gives Ok(f(x)) / f(x)
                if recv.tag[1] == "Err":
                    return recv
                if len(recv.tag) == 3:
                    if isinstance(args[0], Clo):
                        env2 = dict(args[0].env)
                        self.bind(args[0].params[0], recv.tag[2], env2)
                        body = self.collapse(self.eval(args[0].body, env2, depth))
                    else:
                        body = self.call_value(args[0], [recv.tag[2]], e, depth)
                    return Sym("ctor", "Ok", body) if m == "map" else body
        if ((isinstance(recv, Sym) and recv.tag[:1] != ("ctor",)) or isinstance(recv, Seq)) and m in ("ok_or", "ok_or_else") and len(args) == 1 and \
                (e["recv"].get("ty") or "").replace("&", "").startswith("std::option::Option<"):
            # on an opaque Option: the same two paths as `match o { Some(v) => Ok(v), None => Err(e) }`
            err = self.collapse(self.eval(args[0].body, dict(args[0].env), depth)) if isinstance(args[0], Clo) else args[0]
            g = ("arm", ("Some", "_"), vkey(recv))
            return Alt([(g, Sym("ctor", "Ok", Sym("payload", vkey(recv), 0))), (("not", g), Sym("ctor", "Err", err))])
        if any(isinstance(a, Rec) for a in args) and not isinstance(recv, Rec) and self.facts.fn(d) is not None:
            return self.apply_fn(d, [recv] + args, depth)
        if isinstance(recv, Poly) and args and not all(isinstance(a, Poly) for a in args) and self.facts.fn(d) is not None:
            return self.apply_fn(d, [recv] + args, depth)       # a float receiver of an in-crate trait impl (`f.partial_cmp(&number)`)
        if isinstance(recv, Poly):
            if m == "t" and not args:
                return recv.transpose()
            if m == "iter" and not args and recv.order >= 1:
                return Sym("iter", recv.key())
            if m in ("len", "len_of") and recv.order >= 1:
                ax = args[0].tag[1] if args and isinstance(args[0], Sym) and args[0].tag[0] == "axis" else None
                return length_of(recv, ax)
            if m in F64_UNARY and not args:
                return func_atom(F64_UNARY[m], recv)
            if m in ("powf", "pow") and len(args) == 1 and isinstance(args[0], Poly):
                return powf(recv, args[0])
            if m == "powi" and len(args) == 1 and isinstance(args[0], Poly) and args[0].const_value() is not None:
                return recv.pow_int(int(args[0].const_value()))
            if m in ("abs", "unsigned_abs") and not args:
                return func_atom("abs", recv)
            if m == "recip" and not args and recv.order == 0:
                return recv.inv()            # f64::recip is `1.0 / self`
            if m in ("try_into",) and not args and recv.order == 0:
                return Sym("ctor", "Ok", recv)
            if m == "div_euclid" and len(args) == 1 and isinstance(args[0], Poly) and recv.order == 0:
                return Poly.atom(("ediv", recv.key(), args[0].key()))      # floor division for a positive divisor: its own atom, never merged with idiv
            if m in ("checked_sub", "checked_add", "checked_mul", "checked_div") and len(args) == 1 and recv.order == 0:
                return Sym("checked", m[8:], vkey(recv), vkey(args[0]))
            if m in ("is_sign_positive", "is_positive", "is_sign_negative", "is_negative") and not args and recv.order == 0 and ("f64" in (d or "") or "Signed" in (d or "")):
                return Sym("signbit", "neg" if "negative" in m else "pos", recv.key())      # the float's sign bit (num_traits' is_positive on f64 is is_sign_positive)
            if m == "abs_sub" and len(args) == 1 and isinstance(args[0], Poly) and recv.order == 0:
                return Poly.atom(("abs_sub", recv.key(), args[0].key()))   # the positive difference max(a - b, 0): its own atom
            if m == "mul_add" and len(args) == 2:
                return recv * args[0] + args[1]
            if m == "cmp" and len(args) == 1 and isinstance(args[0], Poly) and recv.order == 0:
                return Sym("icmp3", (recv - args[0]).key())          # Ord::cmp exists for integers only (f64 is not Ord)
            if m in ("partial_cmp", "cmp", "total_cmp") and len(args) == 1:
                return Sym("partial_cmp", vkey(recv), vkey(args[0]))
            if m in ("eq", "ne", "lt", "le", "gt", "ge") and len(args) == 1 and isinstance(args[0], Poly):
                return cmp_sym(m.capitalize(), recv, args[0])
        if isinstance(recv, Sym) and recv.tag and recv.tag[0] == "iter" and m == "eq" and len(args) == 1 and isinstance(args[0], Sym) and args[0].tag[0] == "iter":
            return Sym("arr_eq", _srt([recv.tag[1], args[0].tag[1]]))
        if isinstance(recv, Sym) and m == "len" and not args:
            return Poly.atom(("len", len_base(recv.key()), None))
        if isinstance(recv, Sym) and recv.tag and recv.tag[0] == "normal01?" and m in ("unwrap", "expect"):
            return Sym("normal01")
        if isinstance(recv, Sym) and recv.tag and recv.tag[0] == "normal01":
            if m == "cdf" and len(args) == 1 and isinstance(args[0], Poly):
                return func_atom("Phi", args[0])
            if m == "inverse_cdf" and len(args) == 1 and isinstance(args[0], Poly):
                return func_atom("PhiInv", args[0])
        if isinstance(recv, Rec):
            if m == "vars" and not args:
                return recv.fields.get("vars", Sym("vars?"))
            if m == "real" and not args and "real" in recv.fields:
                return recv.fields["real"]
            if m == "dual" and not args and "dual" in recv.fields:
                return recv.fields["dual"]
            if m == "dual2" and not args and "dual2" in recv.fields:
                return recv.fields["dual2"]
            if m == "vars_cmp" and len(args) == 1:
                return Sym("vars_cmp", vkey(recv.fields.get("vars")), vkey(args[0]))
            if m == "to_union_vars" and len(args) == 2 and isinstance(args[0], Rec):
                # the aligned pair (C03 decides that alignment is by name): arrays keep their symbolic identity, both carry the union list
                u = union_vars(recv.fields.get("vars"), args[0].fields.get("vars"))
                return Tup([Rec(recv.adt, dict(recv.fields, vars=u)), Rec(args[0].adt, dict(args[0].fields, vars=u))])
        if self.facts.fn(d) is not None:
            self._gargs = [self.concrete_ty(t) for t in e["gargs"]] if e.get("gargs") else None
            return self.apply_fn(d, [recv] + args, depth)
        if m in ("unwrap", "expect") and isinstance(recv, (Tup, Rec, Poly)):
            return recv
        if m in ("partial_cmp",) and len(args) == 1:
            return Sym("partial_cmp", vkey(recv), vkey(args[0]))
        if isinstance(recv, Seq):
            # an adapter that is not modelled yields an opaque sequence over the same source
            nsrc = Sym("m", m, vkey(recv.src), vkey(recv.elem), tuple(vkey(a) for a in args if not isinstance(a, Clo)))
            if m in ("sum", "count", "max", "min", "last", "next", "fold", "position", "max_by_key", "max_by", "min_by_key", "product", "find"):
                return nsrc
            return Seq(nsrc, lambda idx, nsrc=nsrc: Sym("at", vkey(nsrc), idx.key()))
        if isinstance(recv, Arr):
            return Sym("m", m, recv.ident(), tuple(vkey(a) for a in args))
        if isinstance(recv, Sym) and m in ("map", "and_then") and len(args) == 1 and isinstance(args[0], Clo) and recv.tag[:1] != ("ctor",) and \
                (e["recv"].get("ty") or "").replace("&", "").startswith("std::result::Result<"):
            # an opaque Result continues as its Ok payload (the convention of `?`, see ev_try): `r.and_then(f)` is `f(r?)` and `r.map(f)` is `Ok(f(r?))`
            f = args[0]
            env2 = dict(f.env)
            self.bind(f.params[0], recv, env2)
            body = self.collapse(self.eval(f.body, env2, depth))
            return body if m == "and_then" else Sym("ctor", "Ok", body)
        if isinstance(recv, Sym) and recv.tag[:1] != ("ctor",) and m == "map" and len(args) == 1 and (isinstance(args[0], Clo) or (isinstance(args[0], Sym) and args[0].tag[:1] == ("fn",))) and \
                (e["recv"].get("ty") or "").replace("&", "").startswith("std::option::Option<") and (e.get("ty") or "").startswith("std::option::Option<std::result::Result<"):
            # `opt.map(fallible)` (followed by transpose()?): Some(v) => Some(fallible(v)), None => None — the two paths of the explicit match
            g = ("arm", ("Some", "_"), vkey(recv))
            pv = Sym("payload", vkey(recv), 0)
            if isinstance(args[0], Clo):
                env2 = dict(args[0].env)
                self.bind(args[0].params[0], pv, env2)
                body = self.collapse(self.eval(args[0].body, env2, depth))
            else:
                body = self.call_value(args[0], [pv], e, depth)
            return Alt([(g, Sym("ctor", "Some", body)), (("not", g), Sym("ctor", "None"))])
        if isinstance(recv, Sym) and m in ("map_or", "map", "and_then", "is_some_and") and args and isinstance(args[-1], Clo):
            f = args[-1]
            env2 = dict(f.env)
            self.bind(f.params[0], Sym("payload", vkey(recv), 0), env2)
            body = self.collapse(self.eval(f.body, env2, depth))
            if m == "map_or" and len(args) == 2 and all(isinstance(b_, Sym) and b_.tag[:1] == ("bool",) for b_ in (args[0], body)) and args[0].tag[1] != body.tag[1]:
                # x.map_or(true, |_| false) is x.is_none(); x.map_or(false, |_| true) is x.is_some()
                isn = Sym("m", "is_none", vkey(recv), ())
                return isn if args[0].tag[1] == "true" else Sym("not", vkey(isn))
            if m in ("map_or", "is_some_and", "is_none_or") and (e["recv"].get("ty") or "").replace("&", "").startswith("std::option::Option<"):
                # the two paths of `match o { Some(v) => f(v), None => default }`
                g = ("arm", ("Some", "_"), vkey(recv))
                dflt = args[0] if m == "map_or" else Sym("bool", "false" if m == "is_some_and" else "true")
                return Alt([(g, body), (("not", g), dflt)])
            return Sym("optcase", m, vkey(recv), tuple(vkey(a) for a in args[:-1]), vkey(body))
        if m in ("eq", "ne") and len(args) == 1 and not isinstance(recv, (Poly, Rec)) and not isinstance(args[0], (Poly, Rec)) and self.facts.fn(d) is None:
            return eq_sym(recv, args[0]) if m == "eq" else Sym("not", vkey(eq_sym(recv, args[0])))      # a.eq(&b) is a == b
        if isinstance(recv, Sym) and m in ("is_some", "is_none") and not args and recv.tag[:2] == ("m", "get_index_of") and len(recv.tag) == 4 and len(recv.tag[3]) == 1:
            c_ = Sym("m", "contains", recv.tag[2], recv.tag[3])          # `s.get_index_of(x).is_some()` is `s.contains(x)`
            return c_ if m == "is_some" else Sym("not", vkey(c_))
        if isinstance(recv, Sym) and m == "is_some" and not args:
            return Sym("not", vkey(Sym("m", "is_none", vkey(recv), ())))           # one spelling for is_some / !is_none / != None
        if isinstance(recv, Sym):
            # opaque: an unmodelled method of an opaque value stays an opaque value (it can only fail to match an expected form)
            return Sym("m", m, vkey(recv), tuple(vkey(a) for a in args))
        raise Unsupported("method %s (%s) on %s not modelled" % (m, d, vfmt(recv)[:80]))


def key_subst(k, old, new):
    if k == old:
        return new
    if isinstance(k, tuple):
        return tuple(key_subst(x, old, new) for x in k)
    return k


def key_mentions(k, needle):
    if k == needle:
        return True
    return isinstance(k, tuple) and any(key_mentions(x, needle) for x in k)


def counted_loop(assigned, env, env2, cond):
    """(x id, counter id, iteration count, final counter) if the while loop is: two locals, an integer counter c (constant start, +1 with guard c < N or
    -1 with guard c > N, N loop-invariant) and one carried value x whose step does not read the counter. The count is N - c0 (resp. c0 - N); a
    non-positive count means no iteration, as for an empty range."""
    if len(assigned) != 2:
        return None
    for cid in assigned:
        xid = [a for a in assigned if a != cid][0]
        kc, kx = assigned.index(cid), assigned.index(xid)
        c0, cstep = env[cid], env2[cid]
        if not (isinstance(c0, Poly) and c0.const_value() is not None and isinstance(cstep, Poly)) or isinstance(env[xid], Poly):
            continue
        lv = Poly.atom(("loopvar", kc))
        delta = (cstep - lv).const_value()
        if delta not in (1, -1):
            continue
        if key_mentions(vkey(env2[xid]), ("loopvar", kc)) or not key_mentions(vkey(env2[xid]), vkey(Sym("loopvar", kx))):
            continue
        # guard: c < N  (delta +1)  or  c > N (delta -1), N free of loop variables; integer comparisons are canonical `p < 0` (possibly negated)
        g = cond
        negated = False
        if isinstance(g, Sym) and g.tag[0] == "not" and isinstance(g.tag[1], tuple) and g.tag[1][:3] == ("sym", "cmp", "Lt") and len(g.tag[1]) == 4:
            g, negated = Sym(*g.tag[1][1:]), True
        if not (isinstance(g, Sym) and g.tag[:2] == ("cmp", "Lt") and len(g.tag) == 3):
            continue
        p = poly_from_key(g.tag[2])
        if negated:
            p = -p - Poly.const(1)                 # over the integers  !(q < 0)  ==  -q - 1 < 0
        n_ = (lv - p) if delta == 1 else (lv + p)          # c - N < 0  ->  N = c - p ;  N - c < 0  ->  N = c + p
        if key_mentions(n_.key(), ("loopvar", kc)) or key_mentions(n_.key(), ("loopvar", kx)):
            continue
        count = (n_ - c0) if delta == 1 else (c0 - n_)
        return xid, cid, count, n_
    return None


def canon_seq(seq):
    """One spelling for quantification over consecutive elements / shifted ranges: `x.iter().zip(x.iter().skip(k))` runs over range(0, len(x) - k) with the
    same element function, and a range that starts at a != 0 is range(0, b - a) with the index shifted — so `for i in 1..n { .. t[i-1] .. t[i] .. }` and
    `t.iter().zip(t.iter().skip(1))` quantify over the same thing."""
    src = vkey(seq.src)
    if isinstance(src, tuple) and src[:2] == ("sym", "zip") and isinstance(src[3], tuple) and src[3][:2] == ("sym", "skip") and src[3][2] == src[2]:
        n = Poly.atom(("len", src[2], None)) - poly_from_key(src[3][3])
        return Seq(Sym("range", Poly.const(0).key(), n.key()), seq.fn, seq.enumerated)
    if isinstance(src, tuple) and src[:2] == ("sym", "range") and src[2] == Poly.const(0).key():
        n = poly_from_key(src[3])
        if len(n.t) == 1:
            ((mono, tens), coef), = n.t.items()
            if coef == 1 and tens is None and len(mono) == 1 and mono[0][1] == 1 and isinstance(mono[0][0], tuple) and mono[0][0][:1] == ("len",) and mono[0][0][2] is None:
                # `for i in 0..c.len()` walks c itself (the body reaches the elements as c[i])
                return Seq(Sym(*mono[0][0][1][1:]) if isinstance(mono[0][0][1], tuple) and mono[0][0][1][:1] == ("sym",) else seq.src, seq.fn, seq.enumerated)
    if isinstance(src, tuple) and src[:2] == ("sym", "range") and src[2] != Poly.const(0).key():
        a, b = poly_from_key(src[2]), poly_from_key(src[3])
        return Seq(Sym("range", Poly.const(0).key(), (b - a).key()), lambda idx, f0=seq.fn, a=a: f0(idx + a), seq.enumerated)
    return seq


WEEKDAY_NO = {"Mon": 0, "Tue": 1, "Wed": 2, "Thu": 3, "Fri": 4, "Sat": 5, "Sun": 6}


def is_lit(v):
    return isinstance(v, Sym) and v.tag[:1] == ("lit",) and len(v.tag) == 2


def concat_sym(keys):
    """Canonical string concatenation: nested concatenations are flattened, empty literals dropped, adjacent literals merged; a single piece is itself."""
    flat = []
    for k in keys:
        if isinstance(k, tuple) and k[:2] == ("sym", "concat"):
            flat.extend(k[2:])
        else:
            flat.append(k)
    out = []
    for k in flat:
        if isinstance(k, tuple) and k[:2] == ("sym", "lit") and k[2] == "":
            continue
        if out and isinstance(k, tuple) and k[:2] == ("sym", "lit") and isinstance(out[-1], tuple) and out[-1][:2] == ("sym", "lit") and \
                isinstance(k[2], str) and isinstance(out[-1][2], str):
            out[-1] = ("sym", "lit", out[-1][2] + k[2])
            continue
        out.append(k)
    if len(out) == 1 and isinstance(out[0], tuple) and out[0][:1] == ("sym",):
        return Sym(*out[0][1:])
    return Sym("concat", *out)


def collected(seq):
    """`seq.collect()`: walking a container element by element and collecting is collecting the container (`c.into_iter().collect()` == `from_iter(c)`)."""
    i_ = Poly.atom("i")
    if not seq.enumerated and not getattr(seq, "elem_guard", None) and isinstance(seq.src, Sym) and seq.src.tag[:1] in (("param",), ("stored",), ("field",)) and \
            vkey(seq.fn(i_)) == vkey(Sym("at", vkey(seq.src), i_.key())):
        return Sym("collect", vkey(seq.src))
    return Coll(seq)


def len_base(k):
    """The container whose length `k` has: sorting in place keeps the number of entries, and a map has as many keys / values as entries."""
    if isinstance(k, tuple) and k[:2] == ("sym", "mut") and len(k) == 5 and k[2] in ("sort", "sort_keys", "sort_unstable", "reverse", "sort_by_key", "sort_by"):
        return len_base(k[3])
    if isinstance(k, tuple) and k[:2] == ("sym", "m") and len(k) == 5 and k[2] in ("keys", "values", "iter") and not k[4]:
        return len_base(k[3])          # a map has as many keys / values as entries
    if isinstance(k, tuple) and len(k) == 4 and k[:2] == ("sym", "call") and isinstance(k[2], str) and k[2].endswith("::from_vec") and len(k[3]) == 1:
        return len_base(k[3][0])       # an array made from a vector has the vector's length
    return k


def quant(kind, src, body):
    """One spelling for quantified tests: the quantified body is never a negation — `any(|x| !p(x))` is `!all(p)` and `all(|x| !p(x))` is `!any(p)`."""
    if isinstance(body, Sym) and body.tag[:1] == ("not",) and isinstance(body.tag[1], tuple) and body.tag[1][:1] == ("sym",):
        inner = Sym(*body.tag[1][1:])
        if inner.tag[:1] == ("not",) and isinstance(inner.tag[1], tuple) and inner.tag[1][:1] == ("sym",):
            return quant(kind, src, Sym(*inner.tag[1][1:]))          # !!p
        return Sym("not", vkey(quant("exists" if kind == "forall" else "forall", src, inner)))
    return Sym(kind, vkey(src), vkey(body))


def guard_value(g):
    """The boolean value a guard tests, as a symbolic value (None if the guard has no value form)."""
    if isinstance(g, tuple) and len(g) == 2 and g[0] == "not":
        inner = guard_value(g[1])
        if inner is None:
            return None
        if isinstance(inner, Sym) and inner.tag[:1] == ("not",) and isinstance(inner.tag[1], tuple) and inner.tag[1][:1] == ("sym",):
            return Sym(*inner.tag[1][1:])
        return Sym("not", vkey(inner))
    if isinstance(g, tuple) and len(g) == 2 and g[0] == "if" and isinstance(g[1], tuple) and g[1][:1] == ("sym",):
        return Sym(*g[1][1:])
    if isinstance(g, tuple) and len(g) == 3 and g[0] == "arm":
        if g[1] == ("Some", "_"):
            return Sym("not", vkey(Sym("m", "is_none", g[2], ())))
        if g[1] == "None":
            return Sym("m", "is_none", g[2], ())
        return Sym("armtest", g[1], g[2])
    return None


def boolify(v):
    """`if c { true } else { false }` / `matches!(x, P)` as a value is the test itself."""
    if isinstance(v, Alt) and len(v.alts) == 2:
        (g1, b1), (g2, b2) = v.alts
        if g2 == neg_guard(g1) and all(isinstance(b, Sym) and b.tag[:1] == ("bool",) for b in (b1, b2)) and b1.tag[1] != b2.tag[1]:
            return guard_value(g1 if b1.tag[1] == "true" else g2)
    return None


def strip_pat(p):
    while p.get("k") in ("ref", "box", "deref") and "p" in p:
        p = p["p"]
    return p


def arm_guard(pat, scrut):
    """Guard of a match arm. An arm of `a.cmp(&b)` (integers) on an Ordering variant is the integer comparison itself, so a match on the ordering and an
    if-chain on the comparisons leave the same literals on their paths."""
    if isinstance(scrut, Sym) and scrut.tag[:1] == ("icmp3",) and pat.get("k") == "path":
        name = pat.get("def", "").rsplit("::", 1)[-1]
        op = {"Less": "Lt", "Equal": "Eq", "Greater": "Gt"}.get(name)
        if op:
            return ("if", vkey(cmp_sym(op, poly_from_key(scrut.tag[1]), Poly.const(0), True)))
    if pat.get("k") == "lit" and pat.get("lk") == "int" and isinstance(scrut, Poly) and scrut.order == 0:
        # `match m { 0 => .. }` tests `m == 0`
        return ("if", vkey(cmp_sym("Eq", scrut, Poly.const(-int(pat["v"]) if pat.get("neg") else int(pat["v"])), True)))
    if pat.get("k") == "tuple" and isinstance(scrut, Tup) and len(pat.get("ps", [])) == len(scrut.items) and len(scrut.items) >= 2:
        # `(Some(a), Some(b))` against the pair `(x, y)` is `Some(a)` against x and `Some(b)` against y (the nested-match spelling of the same test)
        parts = [arm_guard(p_, s_) for p_, s_ in zip(pat["ps"], scrut.items) if strip_pat(p_).get("k") not in ("wild", "bind")]
        if len(parts) == 1:
            return parts[0]
        if len(parts) > 1:
            return ("all", tuple(parts))
    if pat.get("k") == "range" and (not isinstance(scrut, Poly) or scrut.order == 0) and not isinstance(scrut, (Alt, Rec, Tup)) and all(pat.get(b_) is None or (pat[b_].get("k") == "lit" and pat[b_].get("lk") == "int") for b_ in ("lo", "hi")):
        # `match m { 1..=12 => .. }` tests `1 <= m && m <= 12` (integers): the same condition an if-chain on the comparisons leaves
        val = lambda b_: Poly.const(-int(b_["v"]) if b_.get("neg") else int(b_["v"]))
        cs = []
        cmp_ = (lambda op, b_: cmp_sym(op, scrut, b_, True)) if isinstance(scrut, Poly) else (lambda op, b_: Sym("cmp", op, vkey(scrut), vkey(b_)))      # (opaque operand: as `x >= b` evaluates)
        if pat.get("lo") is not None:
            cs.append(vkey(cmp_("Ge", val(pat["lo"]))))
        if pat.get("hi") is not None:
            cs.append(vkey(cmp_("Le" if pat.get("incl") else "Lt", val(pat["hi"]))))
        if len(cs) == 1:
            return ("if", cs[0])
        if len(cs) == 2:
            a_, b_ = sorted(cs, key=repr)
            return ("if", vkey(Sym("and", a_, b_)))
    if pat.get("k") == "lit" and str(pat.get("v")) in ("true", "false"):
        g = guard_of(scrut)                       # `match flag { true => .., false => .. }` is `if flag {..} else {..}`
        return g if str(pat["v"]) == "true" else neg_guard(g)
    return ("arm", pat_key(pat), vkey(scrut))


def unq(v):
    """Forget the distinction between `%` and the explicit truncated-quotient formula (they agree as real functions; only rounding differs):
    used where a value is compared with the calculus rule rather than with another implementation."""
    if isinstance(v, Poly):
        return poly_from_key(key_subst(v.key(), "truncq", "trunc"))
    if isinstance(v, Rec):
        return Rec(v.adt, {k: unq(x) for k, x in v.fields.items()})
    return v


def eq_sym(a, b):
    """Equality of two opaque values: symmetric, so the operands are kept in one canonical order."""
    ka, kb = sorted([vkey(a), vkey(b)], key=repr)
    return Sym("cmp", "Eq", ka, kb)


def neg_guard(g):
    return g[1] if isinstance(g, tuple) and len(g) == 2 and g[0] == "not" else ("not", g)


def guard_of(cv):
    """Guard for a condition value: a two-way alternative of boolean constants (what `matches!(x, P)` expands to) is the test of its first guard."""
    if isinstance(cv, Alt) and len(cv.alts) == 2:
        (g1, b1), (g2, b2) = cv.alts
        if g2 == neg_guard(g1) and all(isinstance(b, Sym) and b.tag[:1] == ("bool",) for b in (b1, b2)) and b1.tag[1] != b2.tag[1]:
            return g1 if b1.tag[1] == "true" else neg_guard(g1)
    if isinstance(cv, Sym) and cv.tag[:2] == ("m", "is_none") and len(cv.tag) == 4 and cv.tag[3] == ():
        return ("not", ("arm", ("Some", "_"), cv.tag[2]))          # `if x.is_none()` tests what `match x { None => .. }` tests
    if isinstance(cv, Sym) and cv.tag[:1] == ("not",) and isinstance(cv.tag[1], tuple) and cv.tag[1][:3] == ("sym", "m", "is_none") and cv.tag[1][4] == ():
        return ("arm", ("Some", "_"), cv.tag[1][3])
    if isinstance(cv, Sym) and cv.tag[:1] == ("armtest",):
        return ("arm", cv.tag[1], cv.tag[2])
    if isinstance(cv, Sym) and cv.tag[:1] == ("not",) and isinstance(cv.tag[1], tuple) and cv.tag[1][:2] == ("sym", "armtest"):
        return ("not", ("arm", cv.tag[1][2], cv.tag[1][3]))
    if isinstance(cv, Sym) and cv.tag[:1] == ("not",) and isinstance(cv.tag[1], tuple) and cv.tag[1][:1] == ("sym",):
        return ("not", ("if", cv.tag[1]))          # `if !c {A} else {B}` branches on c
    return ("if", vkey(cv))


def is_continue_block(b):
    while b.get("k") == "block":
        if not b["stmts"] and "e" in b:
            b = b["e"]
        elif len(b["stmts"]) == 1 and "e" not in b and b["stmts"][0]["k"] in ("expr", "semi"):
            b = b["stmts"][0]["e"]
        else:
            return False
    return b.get("k") == "continue"


def catch_all_pat(p):
    return p.get("k") == "wild" or (p.get("k") == "bind" and "sub" not in p)


def catch_all(arm):
    p = arm["pat"]
    return "guard" not in arm and (p.get("k") == "wild" or (p.get("k") == "bind" and "sub" not in p))


def num(v):
    """An array that was only ever zero-initialised is the zero tensor."""
    if isinstance(v, Arr) and not v.writes and isinstance(v.base, Poly) and v.base.is_zero():
        return Poly({}, len(v.dims))
    return v


def fork_env(env):
    out = {}
    for k, v in env.items():
        if isinstance(v, Arr):
            a = Arr(v.dims, v.base, v.name)
            a.writes = list(v.writes)
            out[k] = a
        elif isinstance(v, Rec):
            out[k] = Rec(v.adt, dict(v.fields))
        else:
            out[k] = v
    return out


def length_of(v, ax=None):
    """Symbolic length of a container value (mirrors what `.len()` evaluates to); a ones(shape) tensor has its shape's length by construction."""
    if isinstance(v, Poly) and v.order == 1 and len(v.t) == 1:
        ((m, t), c), = v.t.items()
        if not m and c == 1 and isinstance(t, tuple) and t[0] == "ones" and len(t[1]) == 1:
            return poly_from_key(t[1][0])
    if isinstance(v, Poly):
        return Poly.atom(("len", v.key(), ax))
    if isinstance(v, Arr) and len(v.dims) == 1 and isinstance(v.dims[0], Poly):
        return v.dims[0]
    if isinstance(v, Coll):
        return Poly.atom(("len", len_base(vkey(v.seq.src)), None))
    return Poly.atom(("len", len_base(vkey(v)), None))


def as_poly(v):
    v = num(v)
    if isinstance(v, Poly):
        return v
    raise Unsupported("expected a numeric value, got " + vfmt(v)[:80])


INT_TYPES = {"i8", "i16", "i32", "i64", "i128", "isize", "u8", "u16", "u32", "u64", "u128", "usize"}


def cmp_sym(op, l, r, integer=False):
    """Canonical comparison: (relation, l - r) with Gt/Ge mirrored to Lt/Le; over the integers a <= b is a < b + 1."""
    d = l - r
    cv = d.const_value()
    if cv is not None:
        res = {"Eq": cv == 0, "Ne": cv != 0, "Lt": cv < 0, "Le": cv <= 0, "Gt": cv > 0, "Ge": cv >= 0}[op]
        return Sym("bool", "true" if res else "false")
    if integer and op in ("Lt", "Le", "Gt", "Ge"):
        # over the integers every order test is `p < 0` for one p; p < 0 and -p - 1 < 0 are complementary, so the representative with a positive
        # leading coefficient is kept and the other spelling becomes its negation (days >= 0  ==  !(days < 0))
        p = {"Lt": d, "Le": d - Poly.const(1), "Gt": -d, "Ge": -d - Poly.const(1)}[op]
        nonconst = sorted((kv for kv in p.t.items() if kv[0] != ((), None)), key=lambda kv: repr(kv[0]))
        if nonconst and nonconst[0][1] < 0:
            return Sym("not", Sym("cmp", "Lt", (-p - Poly.const(1)).key()).key())
        return Sym("cmp", "Lt", p.key())
    if op in ("Eq", "Ne") and d.t:
        lead = sorted(d.t.items(), key=lambda kv: repr(kv[0]))[0][1]
        if lead < 0:
            d = -d
    if op == "Ne":
        return Sym("not", Sym("cmp", "Eq", d.key()).key())          # one literal for `a == b` and `a != b`
    flip = {"Gt": "Lt", "Ge": "Le"}
    if op in flip:
        return Sym("cmp", flip[op], (-d).key())
    return Sym("cmp", op, d.key())


def pat_key(p):
    k = p.get("k")
    if k == "path":
        return p.get("def", "?").rsplit("::", 1)[-1]
    if k == "or":
        return tuple(sorted((pat_key(x) for x in p["ps"]), key=repr))          # (alternatives of mixed shape: `Some(Greater) | None`)
    if k == "wild":
        return "_"
    if k == "bind":
        return "_"
    if k == "lit":
        return ("-" if p.get("neg") else "") + str(p["v"])
    if k in ("ts", "struct"):
        sub = p.get("ps") or [x[1] for x in p.get("fields", [])]
        return (p.get("def", "?").rsplit("::", 1)[-1],) + tuple(pat_key(x) for x in sub)
    if k == "tuple":
        return tuple(pat_key(x) for x in p["ps"])
    if k in ("ref", "box", "deref"):
        return pat_key(p["p"])
    if k == "slice":
        return ("slice", len(p["before"]), "mid" in p, len(p["after"]))          # what the arm tests is the length: == before+after, or >= with a `..`
    return k
