"""Obligation bookkeeping, known findings, evidence and the interface lines."""
import json, os, sys, time, hashlib

VERIF = os.path.dirname(os.path.dirname(os.path.abspath(__file__)))


def load_known():
    p = os.path.join(VERIF, "known_findings.json")
    if not os.path.exists(p):
        return []
    with open(p) as fh:
        return json.load(fh)


class Check:
    def __init__(self, pid, tier, facts_key="", repo="/repo"):
        self.pid, self.tier, self.t0 = pid, tier, time.time()
        self.facts_key, self.repo = facts_key, repo
        self.rules = {}          # rule -> {"text":..., "obl":n, "ok":n, "samples":[...], "floor":n}
        self.violations = []     # dicts
        self.notes = []
        self.not_decided = []
        self.trusted = []
        self.extra = {}
        self._only = None        # while set: only these rule ids are recorded (see restrict)
        self._muted = {}

    # -- including another property's rules
    def restrict(self, only):
        """Context manager: while active, rules whose id is not in `only` are evaluated but not recorded (used when a property includes
        selected necessary-condition rules of another property's module)."""
        ck = self

        class _R:
            def __enter__(self_):
                self_.prev = ck._only
                ck._only = set(only) if ck._only is None else (ck._only & set(only))

            def __exit__(self_, *a):
                ck._only = self_.prev
                return False
        return _R()

    # -- declaring
    def rule(self, rid, text, floor=1):
        if self._only is not None and rid not in self._only:
            self._muted[rid] = {"text": text, "obligations": 0, "discharged": 0, "samples": [], "floor": 0}
            return rid
        self._muted.pop(rid, None)
        self.rules.setdefault(rid, {"text": text, "obligations": 0, "discharged": 0, "samples": [], "floor": floor})
        return rid

    def ok(self, rid, key, sample=None):
        if rid in self._muted:
            return
        r = self.rules[rid]
        r["obligations"] += 1
        r["discharged"] += 1
        if sample is not None and len(r["samples"]) < 4:
            r["samples"].append({"key": key, "holds": sample})

    def fail(self, rid, key, what, where=None, detail=None):
        """A violated obligation. key must not contain line numbers."""
        if rid in self._muted:
            return
        r = self.rules[rid]
        r["obligations"] += 1
        self.violations.append({"rule": rid, "key": "%s:%s" % (rid, key), "what": what, "where": where, "detail": detail})

    def check(self, rid, key, cond, what, where=None, detail=None, sample=None):
        if cond:
            self.ok(rid, key, sample)
        else:
            self.fail(rid, key, what, where, detail)
        return cond

    # -- finishing
    def finish(self):
        # floors: a rule matching fewer instances than counted by hand is itself a violation (fail closed)
        for rid, r in self.rules.items():
            if r["obligations"] < r["floor"]:
                self.violations.append({"rule": rid, "key": "%s:floor" % rid,
                                        "what": "rule matched %d instances, floor is %d (anchor missing or refactored beyond recognition)"
                                                % (r["obligations"], r["floor"]), "where": None, "detail": None})
        known = [k for k in load_known() if k.get("property") == self.pid]
        open_keys = {k["key"]: k for k in known if k.get("status") == "open"}
        new, listed = [], []
        for v in self.violations:
            (listed if v["key"] in open_keys else new).append(v)
        out = []
        seen = set()
        for v in listed:
            if v["key"] in seen:
                continue
            seen.add(v["key"])
            out.append("KNOWN-FINDING: property=%s %s %s" % (self.pid, v["key"], open_keys[v["key"]].get("what", v["what"])))
        replay_dir = os.path.join(VERIF, ".cache", "replay")
        seenv = set()
        for v in new:
            if v["key"] in seenv:
                continue
            seenv.add(v["key"])
            os.makedirs(replay_dir, exist_ok=True)
            rp = os.path.join(replay_dir, "%s-%s.json" % (self.pid, hashlib.sha1(v["key"].encode()).hexdigest()[:10]))
            with open(rp, "w") as fh:
                json.dump({"property": self.pid, **v, "facts_key": self.facts_key, "repo": self.repo}, fh, indent=1)
            out.append("REPORT %s at %s: %s" % (v["key"], v["where"] or "-", v["what"]))
            if v.get("detail"):
                out.append("   detail: " + str(v["detail"])[:1500])
            out.append("VIOLATION property=%s replay=%s" % (self.pid, rp))
        obligations = sum(r["obligations"] for r in self.rules.values())
        discharged = sum(r["discharged"] for r in self.rules.values())
        samples = []
        for rid, r in self.rules.items():
            for s in r["samples"][:2]:
                samples.append({"rule": rid, **s})
        ev = {
            "property_id": self.pid,
            "tier": self.tier,
            "seed": int(os.environ.get("VERIF_SEED", "0") or 0),
            "level": "other",
            "coverage": {
                "explanation": "Static analysis of /repo's current source (typed HIR, MIR CFG, impl/ADT tables, constant tables) "
                               "extracted by the factdrv rustc driver; every obligation is one (rule, code site) pair decided "
                               "without executing rateslib. " + " ".join(self.notes),
                "obligations": obligations,
                "discharged": discharged,
                "rules": {rid: {k: r[k] for k in ("text", "obligations", "discharged", "floor")} for rid, r in self.rules.items()},
                "samples": samples[:40],
                "checker_cmd": "./vcheck %s --tier %s" % (self.pid, self.tier),
                "trusted_base": ["rustc type checking / trait resolution / MIR construction", "factdrv extractor", *self.trusted],
                "facts_key": self.facts_key,
                "repo": self.repo,
                "not_decided": self.not_decided,
                "known_findings_reported": sorted(seen),
                **self.extra,
            },
            "assumptions": self.not_decided,
            "wall_s": round(time.time() - self.t0, 3),
            "violations": len(seenv),
        }
        if self.repo == "/repo":
            os.makedirs(os.path.join(VERIF, "evidence"), exist_ok=True)
            tmp = os.path.join(VERIF, "evidence", ".%s.json.tmp%d" % (self.pid, os.getpid()))
            with open(tmp, "w") as fh:
                json.dump(ev, fh, indent=1)
            os.rename(tmp, os.path.join(VERIF, "evidence", "%s.json" % self.pid))
        print("%s [%s] rules=%d obligations=%d discharged=%d new_violations=%d known=%d (%.1fs)"
              % (self.pid, self.tier, len(self.rules), obligations, discharged, len(seenv), len(seen), time.time() - self.t0))
        for l in out:
            print(l)
        self.new_keys = sorted(seenv)
        self.known_keys = sorted(seen)
        return 1 if seenv else 0
