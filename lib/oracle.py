"""The independent calculus oracle used by E2: a table of partial derivatives and one composition formula (DESIGN.md §2).

for h = g(u, v) on numbers (r, d, D)  (value, gradient vector, *half*-Hessian as stored):
   h.r = g ;  h.d = g_u u.d + g_v v.d
   h.D = g_u u.D + g_v v.D + 1/2 g_uu outer(u.d,u.d) + 1/2 g_vv outer(v.d,v.d) + 1/2 g_uv (outer(u.d,v.d) + outer(v.d,u.d))
A float operand is the constant (f, 0, 0)."""
from fractions import Fraction as F
from cel import Poly, Rec, func_atom, powf, outer, Unsupported

ZERO, ONE = Poly.const(0), Poly.const(1)
HALF = Poly.const(F(1, 2))
SQRT2PI = func_atom("sqrt", Poly.const(2) * Poly.atom("PI"))


def triple(x):
    """(r, d, D, is_second_order) of an operand value; floats are constants."""
    if isinstance(x, Rec):
        return x.fields["real"], x.fields["dual"], x.fields.get("dual2", Poly({}, 2)), "dual2" in x.fields
    if isinstance(x, Poly) and x.order == 0:
        return x, Poly({}, 1), Poly({}, 2), None
    raise Unsupported("operand is neither a dual number nor a float")


def partials(op, u, v, p=None):
    """g, g_u, g_v, g_uu, g_vv, g_uv as scalar polynomials in u = u.r, v = v.r (p: the float exponent of pow)."""
    if op == "add":
        return u + v, ONE, ONE, ZERO, ZERO, ZERO
    if op == "sub":
        return u - v, ONE, -ONE, ZERO, ZERO, ZERO
    if op == "mul":
        return u * v, v, u, ZERO, ZERO, ONE
    if op == "div":
        vi = v.inv()
        return u * vi, vi, -(u * vi * vi), ZERO, Poly.const(2) * u * vi * vi * vi, -(vi * vi)
    if op == "neg":
        return -u, -ONE, ZERO, ZERO, ZERO, ZERO
    if op == "pow":
        return powf(u, p), p * powf(u, p - ONE), ZERO, p * (p - ONE) * powf(u, p - Poly.const(2)), ZERO, ZERO
    if op == "exp":
        e = func_atom("exp", u)
        return e, e, ZERO, e, ZERO, ZERO
    if op == "log":
        ui = u.inv()
        return func_atom("ln", u), ui, ZERO, -(ui * ui), ZERO, ZERO
    if op == "norm_cdf":
        phi = func_atom("exp", -(HALF * u * u)) * SQRT2PI.inv()
        return func_atom("Phi", u), phi, ZERO, -(u * phi), ZERO, ZERO
    if op == "inv_norm_cdf":
        y = func_atom("PhiInv", u)
        iphi = SQRT2PI * func_atom("exp", HALF * y * y)     # 1/phi(y)
        return y, iphi, ZERO, y * iphi * iphi, ZERO, ZERO
    if op == "rem":
        q = func_atom("trunc", u * v.inv())
        return u - q * v, ONE, -q, ZERO, ZERO, ZERO
    raise Unsupported("no oracle row for " + op)


def expected(op, uval, vval=None, p=None):
    """Expected (real, dual, dual2) of `op` applied to the operand values, generated from the table."""
    ur, ud, uD, _ = triple(uval)
    if vval is not None:
        vr, vd, vD, _ = triple(vval)
    else:
        vr, vd, vD = ZERO, Poly({}, 1), Poly({}, 2)
    g, gu, gv, guu, gvv, guv = partials(op, ur, vr, p)
    real = g
    dual = gu * ud + gv * vd
    dual2 = (gu * uD + gv * vD + HALF * guu * outer(ud, ud) + HALF * gvv * outer(vd, vd)
             + HALF * guv * (outer(ud, vd) + outer(vd, ud)))
    return {"real": real, "dual": dual, "dual2": dual2}
