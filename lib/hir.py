"""Typed-HIR helpers: resugaring of compiler desugarings, traversal, pretty printing."""


def children(e):
    """Yield direct sub-expressions (exprs only, not patterns)."""
    if not isinstance(e, dict):
        return
    k = e.get("k")
    for key in ("f", "recv", "l", "r", "e", "i", "c", "t", "base", "init", "body", "b", "iter", "guard"):
        v = e.get(key)
        if isinstance(v, dict) and "k" in v:
            yield v
    for key in ("args", "es"):
        for v in e.get(key, ()):  # lists of exprs
            yield v
    if k == "struct":
        for n, v in e.get("fields", ()):  # [name, expr]
            yield v
    if k == "block":
        for s in e["stmts"]:
            if s["k"] == "let":
                if "init" in s:
                    yield s["init"]
                if "els" in s:
                    yield s["els"]
            elif s["k"] in ("expr", "semi"):
                yield s["e"]
    if k == "match":
        for a in e["arms"]:
            if "guard" in a:
                yield a["guard"]
            yield a["body"]
    if k == "format":
        yield e["raw"]          # the expansion (it contains the argument expressions): scans over a body see what they saw before the resugaring


def walk(e):
    """Pre-order traversal over all sub-expressions, closures included."""
    stack = [e]
    while stack:
        x = stack.pop()
        yield x
        stack.extend(reversed(list(children(x))))


def _is_path_to(e, suffix):
    return e.get("k") == "path" and e.get("def", "").endswith(suffix)


def resugar(e):
    """Rewrite for-loop / `?` / while desugarings and common std macros back to surface forms (in place, returns node)."""
    if isinstance(e, list):
        return [resugar(x) for x in e]
    if not isinstance(e, dict):
        return e
    for key, v in list(e.items()):
        if key in ("pat", "params", "mac", "gargs"):
            continue
        if isinstance(v, (dict, list)):
            e[key] = resugar(v)
    k = e.get("k")
    if k == "block":
        counted_while_to_for(e)
    if k == "match" and e.get("src") == "ForLoopDesugar":
        # match into_iter(ITER) { mut iter => loop { match next(&mut iter) { None => break, Some(PAT) => BODY } } }
        try:
            it = e["e"]["args"][0]
            lp = e["arms"][0]["body"]
            inner = lp["b"]["stmts"][0]["e"] if lp["b"]["stmts"] else lp["b"]["e"]
            some = inner["arms"][1]
            sp = some["pat"]
            pat = sp["ps"][0] if "ps" in sp else sp["fields"][0][1]
            return {"k": "for", "pat": pat, "iter": it, "body": some["body"], "ln": e.get("ln"), "ty": "()"}
        except (KeyError, IndexError, TypeError):
            return e
    if k == "match" and e.get("src", "").startswith("TryDesugar"):
        try:
            inner = e["e"]["args"][0]
            return {"k": "try", "e": inner, "ln": e.get("ln"), "ty": e.get("ty")}
        except (KeyError, IndexError):
            return e
    if k == "loop" and e.get("src") == "While":
        # loop { if COND { BODY } else { break } }
        try:
            b = e["b"]
            iff = b["e"] if "e" in b else b["stmts"][0]["e"]
            return {"k": "while", "c": iff["c"], "body": iff["t"], "ln": e.get("ln"), "ty": "()"}
        except (KeyError, IndexError):
            return e
    if k == "loop" and e.get("src") != "While":
        r_ = _rotate_loop(e)
        if r_ is not None:
            return r_
        # loop { if C { return V; } REST }   ==   while !C { REST }  return V      (no break/continue anywhere in the body)
        try:
            b = e["b"]
            first = b["stmts"][0]
            iff = first["e"] if first["k"] in ("expr", "semi") else None
            rest_rets = any(x.get("k") == "ret" for s_ in b["stmts"][1:] for x in walk(s_.get("e") or s_.get("init") or {})) or \
                ("e" in b and any(x.get("k") == "ret" for x in walk(b["e"])))
            if rest_rets:
                raise KeyError          # another `return` in the rest of the body: not a plain search loop (left as `loop`: tail-recursion form)
            if iff and iff.get("k") == "if" and "e" not in iff and iff["c"].get("k") == "letx" and not any(x.get("k") in ("break", "continue") for x in walk(b)):
                # loop { if let P = E { return V(P); } REST }   ==   while !matches!(E, P) { REST }  match E { P => return V(P), _ => unreachable }   (E is re-evaluated: it
                # must be free of effects, which holds for the probe calls this idiom is used with; the locals REST assigns are the loop state)
                t = iff["t"]
                leave = None
                if t.get("k") == "block" and len(t["stmts"]) == 1 and "e" not in t and t["stmts"][0]["k"] in ("expr", "semi") and t["stmts"][0]["e"].get("k") == "ret":
                    leave = t["stmts"][0]["e"]
                elif t.get("k") == "block" and not t["stmts"] and t.get("e", {}).get("k") == "ret":
                    leave = t["e"]
                probe = iff["c"]["init"]
                pure = not any(x.get("k") in ("assign", "assignop", "closure") for x in walk(probe))
                if leave is not None and pure:
                    import copy
                    tst = {"k": "match", "e": copy.deepcopy(probe), "ty": "bool", "ln": iff.get("ln"), "arms": [
                        {"pat": copy.deepcopy(iff["c"]["pat"]), "body": {"k": "lit", "lk": "bool", "v": "true", "ty": "bool"}},
                        {"pat": {"k": "wild"}, "body": {"k": "lit", "lk": "bool", "v": "false", "ty": "bool"}}]}
                    rest = {"k": "block", "stmts": b["stmts"][1:], "ln": b.get("ln"), "ty": "()"}
                    if "e" in b:
                        rest["stmts"] = rest["stmts"] + [{"k": "semi", "e": b["e"]}]
                    wh = {"k": "while", "c": {"k": "un", "op": "Not", "e": tst, "ty": "bool", "ln": iff.get("ln")}, "body": rest, "ln": e.get("ln"), "ty": "()"}
                    fin = {"k": "if", "c": iff["c"], "t": {"k": "block", "stmts": [], "e": leave, "ty": "!"}, "e": {"k": "panic", "name": "unreachable", "ty": "!"}, "ln": iff.get("ln"), "ty": "!"}
                    return {"k": "block", "stmts": [{"k": "semi", "e": wh}], "e": fin, "ln": e.get("ln"), "ty": e.get("ty")}
            if iff and iff.get("k") == "if" and "e" not in iff and iff["c"].get("k") != "letx" and not any(x.get("k") in ("break", "continue") for x in walk(b)):
                t = iff["t"]
                leave = None
                if t.get("k") == "block" and len(t["stmts"]) == 1 and "e" not in t and t["stmts"][0]["k"] in ("expr", "semi") and t["stmts"][0]["e"].get("k") == "ret":
                    leave = t["stmts"][0]["e"]
                elif t.get("k") == "block" and not t["stmts"] and t.get("e", {}).get("k") == "ret":
                    leave = t["e"]
                if leave is not None:
                    rest = {"k": "block", "stmts": b["stmts"][1:], "ln": b.get("ln"), "ty": "()"}
                    if "e" in b:
                        rest["stmts"] = rest["stmts"] + [{"k": "semi", "e": b["e"]}]
                    wh = {"k": "while", "c": {"k": "un", "op": "Not", "e": iff["c"], "ty": "bool", "ln": iff.get("ln")}, "body": rest, "ln": e.get("ln"), "ty": "()"}
                    return {"k": "block", "stmts": [{"k": "semi", "e": wh}], "e": leave, "ln": e.get("ln"), "ty": e.get("ty")}
        except (KeyError, IndexError, TypeError):
            pass
    if k == "call" and e["f"].get("k") == "path" and e["f"].get("def") == "std::hint::must_use" and "format" in (e["f"].get("mac") or []):
        fm = _format_call(e)
        if fm is not None:
            return fm
    mac = e.get("mac")
    if mac:
        if "vec" in mac and k in ("call", "mcall"):
            arrs = [x for x in walk(e) if x.get("k") in ("array", "repeat", "vec", "vecrep") and x is not e]
            if arrs:
                a = arrs[0]
                if a["k"] in ("vec", "vecrep"):
                    return a
                if a["k"] == "array":
                    return {"k": "vec", "es": a["es"], "ln": e.get("ln"), "ty": e.get("ty")}
                return {"k": "vecrep", "e": a["e"], "ln": e.get("ln"), "ty": e.get("ty"), "raw": e}
            if k == "call" and e["f"].get("def", "").endswith("Vec::<T>::new"):
                return {"k": "vec", "es": [], "ln": e.get("ln"), "ty": e.get("ty")}
            return e
        for pm in ("panic", "unreachable", "unimplemented", "todo"):
            if pm in mac and k in ("call", "mcall", "block", "match"):
                return {"k": "panic", "name": pm, "ln": e.get("ln"), "ty": e.get("ty")}
    return e


def _format_call(e):
    """`format!("..{}..", a, b)` as {"k": "format", "parts": [["lit", text] | ["arg", expr, "display"|"debug"]]}: the expansion's argument tuple, its
    `Argument::new_*` array and the byte-encoded template (length-prefixed literals, 0xC0 = next argument with default formatting, 0 = end) are read back.
    Anything else in the template (width, precision, positional arguments) leaves the expansion as it is."""
    import re as _re
    try:
        inner = e["args"][0]
        while inner.get("k") == "block" and not inner["stmts"] and "e" in inner:
            inner = inner["e"]
        if not (inner.get("k") == "call" and inner["f"].get("def") in ("std::fmt::format", "alloc::fmt::format")):
            return None
        b = inner["args"][0]
        if b.get("k") != "block" or len(b["stmts"]) != 2:
            return None
        tup, arr_ = b["stmts"][0]["init"], b["stmts"][1]["init"]
        if tup.get("k") != "tup" or arr_.get("k") != "array":
            return None
        tail = b["e"]
        while tail.get("k") == "block" and not tail["stmts"] and "e" in tail:
            tail = tail["e"]
        if not (tail.get("k") == "call" and tail["f"].get("def", "").startswith("std::fmt::Arguments") and tail["f"]["def"].endswith("::new")):
            return None
        lit = tail["args"][0]
        while lit.get("k") in ("ref", "block") and "e" in lit:
            lit = lit["e"]
        if not (lit.get("k") == "lit" and str(lit.get("v", "")).startswith("ByteStr([")):
            return None
        bs = [int(x) for x in _re.findall(r"\d+", lit["v"].split("]")[0])]
        args = []
        for a in arr_["es"]:
            if not (a.get("k") == "call" and a["f"].get("def", "").startswith("core::fmt::rt::Argument") and a["args"][0].get("k") == "field"):
                return None
            kind = a["f"]["def"].rsplit("::", 1)[-1]
            if kind not in ("new_display", "new_debug"):
                return None
            x = tup["es"][int(a["args"][0]["name"])]
            while x.get("k") == "ref":
                x = x["e"]
            args.append((x, kind[4:]))
        parts, i, nxt = [], 0, 0
        while i < len(bs):
            c = bs[i]
            if c == 0:
                break
            if c == 192:
                if nxt >= len(args):
                    return None
                parts.append(["arg", args[nxt][0], args[nxt][1]])
                nxt += 1
                i += 1
            elif c < 128:
                parts.append(["lit", bytes(bs[i + 1:i + 1 + c]).decode("utf-8", "replace")])
                i += 1 + c
            else:
                return None
        if nxt != len(args):
            return None
        return {"k": "format", "parts": parts, "ln": e.get("ln"), "ty": "std::string::String", "raw": e}
    except (KeyError, IndexError, TypeError, ValueError):
        return None


def _rotate_loop(e):
    """`loop { PRE; if C { break V } POST }`  ==  `{ PRE; while !C { POST; PRE' } V }` where PRE' is PRE with its `let x = init` turned into `x = init`
    (loop rotation). PRE: simple `let` bindings and assignments without control flow; exactly one `break` (with a value), no `continue`/`return`, no nested loop
    that could own the break. Returns the rewritten expression or None."""
    import copy
    try:
        b = e["b"]
        st = list(b["stmts"]) + ([{"k": "semi", "e": b["e"]}] if "e" in b else [])
        jumps = [x for x in walk(b) if x.get("k") in ("break", "continue", "ret")]
        if len(jumps) != 1 or jumps[0].get("k") != "break" or "e" not in jumps[0]:
            return None
        if any(x.get("k") in ("loop", "while", "for", "closure") for s_ in st for x in walk(s_.get("e") or s_.get("init") or {})):
            return None
        pos = None
        for n, s_ in enumerate(st):
            x = s_.get("e") if s_["k"] in ("expr", "semi") else None
            if x and x.get("k") == "if" and "e" not in x and x["c"].get("k") != "letx":
                t = x["t"]
                lv = None
                if t.get("k") == "block" and len(t["stmts"]) == 1 and "e" not in t and t["stmts"][0]["k"] in ("expr", "semi") and t["stmts"][0]["e"] is jumps[0]:
                    lv = jumps[0]
                elif t.get("k") == "block" and not t["stmts"] and t.get("e") is jumps[0]:
                    lv = jumps[0]
                elif t is jumps[0]:
                    lv = jumps[0]
                if lv is not None:
                    pos = n
                    break
        if pos is None or pos == 0:
            return None
        pre, iff, post = st[:pos], st[pos]["e"], st[pos + 1:]
        again = []
        for s_ in pre:
            if s_["k"] == "let" and s_["pat"].get("k") == "bind" and "sub" not in s_["pat"] and "init" in s_:
                tgt = {"k": "path", "res": "local", "name": s_["pat"].get("name"), "id": s_["pat"]["id"], "ln": s_.get("ln"), "ty": s_["init"].get("ty")}
                again.append({"k": "semi", "e": {"k": "assign", "l": tgt, "r": copy.deepcopy(s_["init"]), "ln": s_.get("ln"), "ty": "()"}})
            elif s_["k"] in ("expr", "semi") and s_["e"].get("k") in ("assign", "assignop"):
                again.append(copy.deepcopy(s_))
            else:
                return None
        body = {"k": "block", "stmts": [x if x["k"] != "expr" else {"k": "semi", "e": x["e"]} for x in post] + again, "ln": b.get("ln"), "ty": "()"}
        wh = {"k": "while", "c": {"k": "un", "op": "Not", "e": iff["c"], "ty": "bool", "ln": iff.get("ln")}, "body": body, "ln": e.get("ln"), "ty": "()", "rotated_loop": True}
        return {"k": "block", "stmts": pre + [{"k": "semi", "e": wh}], "e": jumps[0]["e"], "ln": e.get("ln"), "ty": e.get("ty")}
    except (KeyError, IndexError, TypeError):
        return None


def _refs_local(e, lid):
    return any(x.get("k") == "path" and x.get("res") == "local" and x.get("id") == lid for x in walk(e))


def counted_while_to_for(b):
    """`let mut i = A; while i < N { BODY; i += 1; }` (i not otherwise assigned, no break/continue, i dead afterwards) is `for i in A..N { BODY }`."""
    st = b["stmts"]
    n = 0
    while n + 1 < len(st):
        a, w = st[n], st[n + 1]
        ok = a["k"] == "let" and a["pat"].get("k") == "bind" and "sub" not in a["pat"] and "init" in a and w["k"] in ("expr", "semi") and w["e"].get("k") == "while"
        if ok:
            lid, wh = a["pat"]["id"], w["e"]
            c = wh["c"]
            cond_ok = c.get("k") == "bin" and c["op"] == "Lt" and c["l"].get("k") == "path" and c["l"].get("res") == "local" and c["l"].get("id") == lid \
                and not _refs_local(c["r"], lid)
            body = wh["body"]
            bs = (body["stmts"] + ([{"k": "semi", "e": body["e"]}] if "e" in body else [])) if body.get("k") == "block" else None
            last = bs[-1]["e"] if bs and bs[-1]["k"] in ("expr", "semi") else None
            inc_ok = bool(last) and last.get("k") == "assignop" and last["op"].startswith("Add") and last["l"].get("k") == "path" and last["l"].get("id") == lid \
                and last["r"].get("k") == "lit" and str(last["r"].get("v")).split("_")[0] == "1"
            # descending form: `let mut i = N; while i > 0 { i -= 1; BODY }`  ==  `for i in (0..N).rev() { BODY }`
            gt0 = c.get("k") == "bin" and c["op"] == "Gt" and c["l"].get("k") == "path" and c["l"].get("res") == "local" and c["l"].get("id") == lid \
                and c["r"].get("k") == "lit" and str(c["r"].get("v")).split("_")[0] == "0"
            first = bs[0]["e"] if bs and bs[0]["k"] in ("expr", "semi") else None
            dec_ok = bool(first) and first.get("k") == "assignop" and first["op"].startswith("Sub") and first["l"].get("k") == "path" and first["l"].get("id") == lid \
                and first["r"].get("k") == "lit" and str(first["r"].get("v")).split("_")[0] == "1"
            if gt0 and dec_ok:
                rest_body = {"k": "block", "stmts": bs[1:], "ln": body.get("ln"), "ty": "()"}
                assigned = any(x.get("k") in ("assign", "assignop") and x["l"].get("k") == "path" and x["l"].get("id") == lid for x in walk(rest_body))
                jumps = any(x.get("k") in ("break", "continue") for x in walk(rest_body))
                live_after = any(_refs_local(s_.get("init") or s_.get("e") or {}, lid) for s_ in st[n + 2:]) or ("e" in b and _refs_local(b["e"], lid))
                if not assigned and not jumps and not live_after:
                    zero = {"k": "lit", "lk": "int", "v": "0", "ty": "usize", "ln": wh.get("ln")}
                    rng = {"k": "struct", "res": "def", "dk": "Struct", "def": "std::ops::Range", "fields": [["start", zero], ["end", a["init"]]], "ln": wh.get("ln"),
                           "ty": "std::ops::Range<usize>"}
                    it = {"k": "mcall", "m": "rev", "recv": rng, "args": [], "ln": wh.get("ln"), "ty": "std::iter::Rev<std::ops::Range<usize>>",
                          "callee": "std::iter::Iterator::rev"}
                    st[n:n + 2] = [{"k": "semi", "e": {"k": "for", "pat": dict(a["pat"]), "iter": it, "body": rest_body, "ln": wh.get("ln"), "ty": "()",
                                                        "counted_while_dec_ln": first.get("ln")}}]
                    continue
            if cond_ok and inc_ok:
                rest_body = {"k": "block", "stmts": bs[:-1], "ln": body.get("ln"), "ty": "()"}
                assigned = any(x.get("k") in ("assign", "assignop") and x["l"].get("k") == "path" and x["l"].get("id") == lid for x in walk(rest_body))
                jumps = any(x.get("k") in ("break", "continue") for x in walk(rest_body))
                live_after = any(_refs_local(s_.get("init") or s_.get("e") or {}, lid) for s_ in st[n + 2:]) or ("e" in b and _refs_local(b["e"], lid))
                if not assigned and not jumps and not live_after:
                    rng = {"k": "struct", "res": "def", "dk": "Struct", "def": "std::ops::Range", "fields": [["start", a["init"]], ["end", c["r"]]], "ln": wh.get("ln"),
                           "ty": "std::ops::Range<usize>"}
                    pat = dict(a["pat"])
                    st[n:n + 2] = [{"k": "semi", "e": {"k": "for", "pat": pat, "iter": rng, "body": rest_body, "ln": wh.get("ln"), "ty": "()",
                                                        "counted_while_inc_ln": last.get("ln")}}]
                    continue
        n += 1


def fmt_pat(p):
    k = p.get("k")
    if k == "bind":
        s = p["name"]
        if "sub" in p:
            s += " @ " + fmt_pat(p["sub"])
        return s
    if k == "wild":
        return "_"
    if k == "tuple":
        return "(" + ", ".join(fmt_pat(x) for x in p["ps"]) + ")"
    if k == "ts":
        return short(p.get("def", "?")) + "(" + ", ".join(fmt_pat(x) for x in p["ps"]) + ")"
    if k == "struct":
        return short(p.get("def", "?")) + "{" + ", ".join(n + ": " + fmt_pat(x) for n, x in p["fields"]) + "}"
    if k == "path":
        return short(p.get("def", "?"))
    if k == "lit":
        return ("-" if p.get("neg") else "") + str(p["v"])
    if k == "or":
        return " | ".join(fmt_pat(x) for x in p["ps"])
    if k in ("ref", "box", "deref"):
        return "&" + fmt_pat(p["p"])
    return "<pat:%s>" % k


def short(path):
    """Last two path segments, for readable reports."""
    if not path:
        return "?"
    parts = path.split("::")
    return "::".join(parts[-2:]) if len(parts) > 1 else path


def fmt(e, ind=0):
    """Pseudo-Rust rendering of a HIR expression (for reports and evidence samples)."""
    pad = "  " * ind
    if e is None:
        return ""
    k = e.get("k")
    if k == "lit":
        return repr(e["v"]) if e["lk"] == "str" else str(e["v"])
    if k == "path":
        return e["name"] if e.get("res") == "local" else short(e.get("def", e.get("dbg", "?")))
    if k == "call":
        return fmt(e["f"]) + "(" + ", ".join(fmt(a) for a in e["args"]) + ")"
    if k == "mcall":
        return fmt(e["recv"]) + "." + e["m"] + "(" + ", ".join(fmt(a) for a in e["args"]) + ")"
    if k == "bin":
        ops = {"Add": "+", "Sub": "-", "Mul": "*", "Div": "/", "Rem": "%", "And": "&&", "Or": "||", "Eq": "==", "Ne": "!=",
               "Lt": "<", "Le": "<=", "Gt": ">", "Ge": ">=", "BitAnd": "&", "BitOr": "|", "BitXor": "^", "Shl": "<<", "Shr": ">>"}
        return "(" + fmt(e["l"]) + " " + ops.get(e["op"], e["op"]) + " " + fmt(e["r"]) + ")"
    if k == "un":
        return {"Neg": "-", "Not": "!", "Deref": "*"}.get(e["op"], e["op"]) + fmt(e["e"])
    if k == "ref":
        return ("&mut " if e.get("mut") else "&") + fmt(e["e"])
    if k == "field":
        return fmt(e["e"]) + "." + e["name"]
    if k == "index":
        return fmt(e["e"]) + "[" + fmt(e["i"]) + "]"
    if k == "tup":
        return "(" + ", ".join(fmt(a) for a in e["es"]) + ")"
    if k == "array":
        if len(e["es"]) > 8:
            return "[" + ", ".join(fmt(a) for a in e["es"][:4]) + ", …%d more]" % (len(e["es"]) - 4)
        return "[" + ", ".join(fmt(a) for a in e["es"]) + "]"
    if k == "vec":
        return "vec![" + ", ".join(fmt(a) for a in e["es"]) + "]"
    if k == "vecrep":
        return "vec![" + fmt(e["e"]) + "; _]"
    if k == "repeat":
        return "[" + fmt(e["e"]) + "; _]"
    if k == "struct":
        s = short(e.get("def", "?")) + " { " + ", ".join(n + ": " + fmt(v) for n, v in e["fields"])
        if "base" in e:
            s += ", .." + fmt(e["base"])
        return s + " }"
    if k == "block":
        lines = []
        for s in e["stmts"]:
            if s["k"] == "let":
                t = "let " + fmt_pat(s["pat"])
                if "init" in s:
                    t += " = " + fmt(s["init"], ind + 1)
                if "els" in s:
                    t += " else " + fmt(s["els"], ind + 1)
                lines.append(t + ";")
            elif s["k"] in ("expr", "semi"):
                lines.append(fmt(s["e"], ind + 1) + ";")
        if "e" in e:
            lines.append(fmt(e["e"], ind + 1))
        if not lines:
            return "{}"
        return "{\n" + "\n".join(pad + "  " + l for l in lines) + "\n" + pad + "}"
    if k == "if":
        s = "if " + fmt(e["c"]) + " " + fmt(e["t"], ind)
        if "e" in e:
            s += " else " + fmt(e["e"], ind)
        return s
    if k == "letx":
        return "let " + fmt_pat(e["pat"]) + " = " + fmt(e["init"])
    if k == "match":
        s = "match " + fmt(e["e"]) + " {\n"
        for a in e["arms"]:
            s += pad + "  " + fmt_pat(a["pat"]) + (" if " + fmt(a["guard"]) if "guard" in a else "") + " => " + fmt(a["body"], ind + 1) + ",\n"
        return s + pad + "}"
    if k == "loop":
        return "loop " + fmt(e["b"], ind)
    if k == "while":
        return "while " + fmt(e["c"]) + " " + fmt(e["body"], ind)
    if k == "for":
        return "for " + fmt_pat(e["pat"]) + " in " + fmt(e["iter"]) + " " + fmt(e["body"], ind)
    if k == "try":
        return fmt(e["e"]) + "?"
    if k == "closure":
        return "|" + ", ".join(fmt_pat(p) for p in e["params"]) + "| " + fmt(e["body"], ind)
    if k == "assign":
        return fmt(e["l"]) + " = " + fmt(e["r"])
    if k == "assignop":
        return fmt(e["l"]) + " " + e["op"] + "= " + fmt(e["r"])
    if k == "ret":
        return "return " + (fmt(e["e"]) if "e" in e else "")
    if k == "break":
        return "break"
    if k == "continue":
        return "continue"
    if k == "cast":
        return "(" + fmt(e["e"]) + " as " + e.get("ty", "?") + ")"
    if k == "panic":
        return e["name"] + "!(..)"
    return "<%s>" % k


def ctor_name(e):
    """'Some' / 'None' / 'Ok' / 'Err' / variant name when `e` is a constructor call or a unit-variant path; else None."""
    if e.get("k") == "call" and e["f"].get("k") == "path" and e["f"].get("dk", "").startswith("Ctor"):
        return e["f"]["def"].rsplit("::", 1)[-1]
    if e.get("k") == "path" and e.get("dk", "").startswith("Ctor"):
        return e["def"].rsplit("::", 1)[-1]
    return None
