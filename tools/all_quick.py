#!/usr/bin/env python3
"""Run every registered quick check in parallel and print one line each (developer regression helper)."""
import json, os, subprocess, sys
from concurrent.futures import ThreadPoolExecutor
HERE = os.path.dirname(os.path.dirname(os.path.abspath(__file__)))
m = json.load(open(os.path.join(HERE, "MANIFEST.json")))
extra = sys.argv[1:]


def run(c):
    r = subprocess.run(c["quick_cmd"].split() + extra, cwd=HERE, capture_output=True, text=True)
    first = (r.stdout.splitlines() or [""])[0]
    bad = [l for l in r.stdout.splitlines() if l.startswith("REPORT")][:3]
    return c["property_id"], r.returncode, first, bad


subprocess.run([os.path.join(HERE, "vcheck"), m["checks"][0]["property_id"]] + extra, cwd=HERE, capture_output=True)  # warm the facts once
with ThreadPoolExecutor(8) as ex:
    res = list(ex.map(run, m["checks"]))
rc = 0
for pid, code, first, bad in res:
    print("%s rc=%d %s" % (pid, code, first))
    for b in bad:
        print("     " + b[:220])
    rc = rc or code
sys.exit(rc)
