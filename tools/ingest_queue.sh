#!/bin/sh
# (set INGEST_SCR=<dir> to run several queues side by side)
# ingest_queue.sh [-b BASE] [-l LABELPREFIX] C04 C07 ...  — confirm and file both mutants of each listed property, one after the other
BASE=/tmp/mut; LP=m
while getopts b:l: o; do case $o in b) BASE=$OPTARG;; l) LP=$OPTARG;; esac; done
shift $((OPTIND-1))
for P in "$@"; do
  for N in 1 2; do
    if [ -f $BASE/$P/_mutant/m${N}_patch.diff ]; then
      python3 /verif/tools/ingest_mutant.py $BASE/$P/_mutant $P $N --label=${LP}${N} > $BASE/ingest_${P}_${N}.log 2>&1
      echo "$P ${LP}$N: $(grep -E '"verdict"|detected_by_own' $BASE/ingest_${P}_${N}.log | tr -d '\n')"
    fi
  done
done
