#!/bin/sh
# ingest_queue.sh C04 C07 ...  — confirm and file both mutants of each listed property, one after the other (shared scratch worktree/target)
for P in "$@"; do
  for N in 1 2; do
    if [ -f /tmp/mut/$P/_mutant/m${N}_patch.diff ]; then
      python3 /verif/tools/ingest_mutant.py /tmp/mut/$P/_mutant $P $N > /tmp/mut/ingest_${P}_${N}.log 2>&1
      echo "$P m$N: $(grep -E '"verdict"|detected_by_own' /tmp/mut/ingest_${P}_${N}.log | tr -d '\n')"
    fi
  done
done
