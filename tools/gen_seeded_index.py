#!/usr/bin/env python3
"""Writes seeded/INDEX.md from the meta.json of every confirmed seeded change: which property it breaks, what it needs to manifest, which rule keys report it."""
import glob, json, os, re
HERE = os.path.dirname(os.path.dirname(os.path.abspath(__file__)))
rows = []
for d in sorted(glob.glob(os.path.join(HERE, "seeded", "C*-*"))):
    mp = os.path.join(d, "meta.json")
    if not os.path.exists(mp):
        continue
    m = json.load(open(mp))
    notes = ""
    np_ = os.path.join(d, "NOTES.md")
    if os.path.exists(np_):
        lines = [l.strip() for l in open(np_).read().splitlines() if l.strip() and not l.startswith("#")]
        notes = re.sub(r"\s+", " ", " ".join(lines[:2]))[:260].replace("|", "/")
    prop = m["property"]
    det = m["confirmed"].get("checks", {}).get(prop, {})
    keys = "; ".join(k[:90] for k in det.get("keys", [])[:2]).replace("|", "/")
    caught = m.get("caught_now") or {}
    if caught:
        keys = "; ".join(k[:90] for k in caught.get("keys", [])[:2]).replace("|", "/")
    rows.append((os.path.basename(d), prop, "yes" if (caught.get("rc", det.get("rc")) == 1) else "NO", keys, notes))
with open(os.path.join(HERE, "seeded", "INDEX.md"), "w") as fh:
    fh.write("# Seeded breaking changes (independently authored, confirmed here)\n\n"
             "Each directory holds `patch.diff` (the library change), `demo.diff` (a test that passes without and fails with it), `NOTES.md` (the author's account)\n"
             "and `meta.json` (what was run to confirm it, and what the checks reported). `reported` = the own property's quick check exits 1 on a scratch copy carrying only the patch.\n\n"
             "| change | property | reported | first rule keys | what it is / needs to manifest |\n|---|---|---|---|---|\n")
    for r in rows:
        fh.write("| %s | %s | %s | %s | %s |\n" % r)
print("seeded/INDEX.md: %d changes, %d reported" % (len(rows), sum(1 for r in rows if r[2] == "yes")))
