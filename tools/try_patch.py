#!/usr/bin/env python3
"""try_patch.py <patch.diff> <prop> [more props]: apply a patch to a scratch copy of /repo and run the given checks on it (developer helper)."""
import os, re, shutil, subprocess, sys, tempfile
HERE = os.path.dirname(os.path.dirname(os.path.abspath(__file__)))
VERBOSE = "-v" in sys.argv
args = [a for a in sys.argv[1:] if a != "-v"]
patch, props = args[0], args[1:]
d = tempfile.mkdtemp(prefix="verif-try-", dir=os.environ.get("VERIF_SCRATCH", "/var/tmp"))
try:
    subprocess.run(["rsync", "-a", "--exclude", "target", "--exclude", ".git", "--exclude", "docs", "--exclude", "notebooks", "/repo/", d + "/"], check=True)
    r = subprocess.run(["patch", "-p1", "-s", "-i", os.path.abspath(patch)], cwd=d, capture_output=True, text=True)
    if r.returncode:
        print("patch failed:", r.stdout, r.stderr); sys.exit(2)
    for p in props:
        c = subprocess.run([os.path.join(HERE, "vcheck"), p, "--repo", d], capture_output=True, text=True)
        keys = re.findall(r"^REPORT (.*?) at \S+: (.*)$", c.stdout, re.M)
        if VERBOSE:
            print(c.stdout[-6000:])
        print("%s rc=%d %s" % (p, c.returncode, "; ".join("%s" % k for k, _ in keys[:4]) or (c.stderr[-300:] if c.returncode == 2 else "no report")))
finally:
    shutil.rmtree(d, ignore_errors=True)
