#!/usr/bin/env python3
"""recheck_seeded.py [name-prefix ...]: re-run the own property's quick check against every confirmed seeded change (scratch copy of /repo + patch.diff only)
and record the outcome as `caught_now` in its meta.json. Exit 1 if a change that is not a declared miss goes unreported."""
import concurrent.futures, glob, json, os, re, shutil, subprocess, sys, tempfile, time
HERE = os.path.dirname(os.path.dirname(os.path.abspath(__file__)))
SCRATCH = os.environ.get("VERIF_SCRATCH", "/var/tmp")
WRITE = True
DECLARED_MISS = {"C07-w2m1": "edits stk.rs and its oracle stk_script.py consistently; the fixing file that would contradict it starts later (DESIGN 10.6)",
                 "C19-w8m2": "`f64 % Dual` takes its value from the built-in `%` (exact fmod) and its gradient from trunc(a/b): equal to a - trunc(a/b)*b as real functions, "
                             "different only in rounding — which C19's claim does not decide; today's `Dual % f64` is written the same way (DESIGN 10.6)"}


def one(d):
    name = os.path.basename(d)
    m = json.load(open(os.path.join(d, "meta.json")))
    prop = m["property"]
    t = tempfile.mkdtemp(prefix="verif-re-", dir=SCRATCH)
    try:
        subprocess.run(["rsync", "-a", "--exclude", "target", "--exclude", ".git", "--exclude", "docs", "--exclude", "notebooks", "/repo/", t + "/"], check=True)
        r = subprocess.run(["patch", "-p1", "-s", "-i", os.path.join(d, "patch.diff")], cwd=t, capture_output=True, text=True)
        if r.returncode:
            return name, prop, 3, ["patch does not apply to the current tree (skipped)"]
        c = subprocess.run([os.path.join(HERE, "vcheck"), prop, "--repo", t], capture_output=True, text=True)
        keys = [k for k, _ in re.findall(r"^REPORT (.*?) at \S+: (.*)$", c.stdout, re.M)]
        if c.returncode == 2:
            keys = ["checker broken: " + c.stderr[-200:]]
        if WRITE:
            m["caught_now"] = {"rc": c.returncode, "keys": keys[:8], "at": time.strftime("%Y-%m-%dT%H:%M:%SZ", time.gmtime())}
            with open(os.path.join(d, "meta.json"), "w") as fh:
                json.dump(m, fh, indent=1)
        return name, prop, c.returncode, keys
    finally:
        shutil.rmtree(t, ignore_errors=True)


def main():
    global WRITE
    WRITE = "--no-write" not in sys.argv
    pre = [a for a in sys.argv[1:] if not a.startswith("--")]
    dirs = [d for d in sorted(glob.glob(os.path.join(HERE, "seeded", "C*-*"))) if os.path.exists(os.path.join(d, "meta.json")) and os.path.exists(os.path.join(d, "patch.diff"))
            and (not pre or any(os.path.basename(d).startswith(p) for p in pre))]
    bad = 0
    with concurrent.futures.ThreadPoolExecutor(max_workers=8) as ex:
        for name, prop, rc, keys in ex.map(one, dirs):
            miss = rc not in (1, 3)
            tag = "reported" if rc == 1 else ("skipped" if rc == 3 else ("declared-miss" if name in DECLARED_MISS else "MISSED"))
            if miss and name not in DECLARED_MISS:
                bad += 1
            print("SEEDED %-10s %s %-13s %s" % (name, prop, tag, "; ".join(keys[:3])[:200]))
    print("recheck: %d changes, %d unreported (undeclared)" % (len(dirs), bad))
    return 1 if bad else 0


if __name__ == "__main__":
    sys.exit(main())
