#!/usr/bin/env python3
"""Developer tool: regenerate rules/c20_sites.json from the current tree + the reviewed reasons below.
Never run by a check. Unmatched sites are printed and left out (the check then reports them)."""
import json, os, re, sys
HERE = os.path.dirname(os.path.dirname(os.path.abspath(__file__)))
sys.path.insert(0, os.path.join(HERE, "lib")); sys.path.insert(0, HERE)
import facts
from rules import c20_common as cc

# (function-family regex, kind regex, class, reason[, need]).  First match wins.  `need` = number of dominating guards every site of the row must keep
# (default 0): the reviewed reason of most rows does not rest on a branch in the same function, and where it does the branch logic itself is decided
# by the rule cited in the reason (C20 includes those rules) — the count is only a backstop.
# Classes: G early-return guards dominate (ctrl depth checked) · L loop/branch bound · I type invariant established at construction
#          K constant operand · R documented range of the statement · S allocation-size arithmetic (usize, needs > 2^63 elements)
REASONS = [
 (r"DateRoll::add_bus_days$", r"assert:Overflow", "L", "i8 counter moves toward `days` inside `while counter >/< days`, so it stays within [-128,127]", 0, 1),
 (r"DateRoll::add_bus_days$|roll_(forward|backward)(_settled)?_bus_day$|DateRoll::add_days$", r"ext:(add|sub)$", "R", "NaiveDateTime ± Days: dates stay inside chrono's range for inputs in 1970-2200 and |days| <= 128"),
 (r"DateRoll::add_days$", r"panic:Result::unwrap", "L", "u64::try_from(days) on the `days >= 0` branch (C05 R05.5)", 1),
 (r"DateRoll::lag$", r"assert:Overflow", "L", "`days + 1` only on the days<0 path, `days - 1` only on the days>0 path (C05 R05.4)", 1),
 (r"DateRoll::lag$", r"panic:Result::unwrap", "L", "add_bus_days only fails for a non-business start; start is a business day (branch on is_bus_day, or result of a roll search)"),
 (r"DateRoll::add_months$", r"assert:DivisionByZero|assert:Overflow\(Div\)", "K", "divisor is the literal 12"),
 (r"DateRoll::add_months$", r"assert:Overflow|ext:num::abs|ext:num::rem_euclid", "R", "month offsets landing in 1970-2200 are < 2^31/12; rem_euclid by literal 12"),
 (r"DateRoll::add_months$", r"panic:Result::unwrap", "R", "month in 1..=12 fits i32/u32; RollDay::Unspecified was rewritten to Int before get_roll (C08 R08.2)"),
 (r"get_roll_by_day$", r"assert:Overflow\(Sub\)", "L", "`day - 1` under `day > 28` (C08 R08.3)", 1),
 (r"get_roll_by_day$", r"panic:panic!", "R", "valid (year, month) and roll day 1-31: from_ymd_opt succeeds at the latest for day 28 (C08 R08.3)", 1),
 (r"get_roll_by_day$", r"panic:Option::unwrap", "K", "from_hms_opt(0,0,0)"),
 (r"calendars::calendar::ndt$", r"panic:", "R", "valid civil date supplied by callers (constants or statement's range); from_hms_opt(0,0,0) constant"),
 (r"get_imm$", r"panic:|assert:", "R", "valid (year, month); day 15..21 exists in every month"),
 (r"Cal::new$", r"panic:Result::unwrap", "R", "week mask entries 0-6 (statement); built-in masks are [5,6] (C07 R07.2)"),
 (r"get_holidays_by_name$", r"panic:Result::unwrap", "K", "every HOLIDAYS literal parses under the format string (C07 R07.2 checks all literals)"),
 (r"NamedCal::try_new$", r"ext:index", "G", "parts[0] always exists (split yields >= 1 piece); parts[1] only when there is exactly one `|` (C06 R06.3)"),
 (r"Dual2::try_new$", r"assert:Overflow\(Mul\)", "S", "n*n on usize lengths"),
 (r"Dual2::try_new$", r"panic:Result::unwrap", "G", "reshape behind `dual2.len() != n*n -> Err` (R20.6)", 1),
 (r"to_new_vars(::\{closure#\d\})?$", r"ext:arraytraits::index", "L", "index returned by get_index_of on the same vars list whose length equals the array's (type invariant |vars| = |dual|)"),
 (r"linalg_dual::argabsmax$", r"panic:Option::unwrap", "L", "max_by over the slice a[j.., j] with j < n: non-empty"),
 (r"(f?dmul\d\d_|fouter11_)$", r"panic:|ext:", "G", "shape asserts: operands come from csolve behind its tau/y length guards, or from square n x n matrices built in the same function"),
 (r"f?dsolve(_upper)?21_$", r"panic:|ext:|assert:", "G", "square system n x n with n = tau.len() (csolve guards); loop indices < n"),
 (r"linalg_dual::(el_swap|row_swap)$", r"ext:", "L", "called with j < k < n from the pivot loop (k = argabsmax + j)"),
 (r"FXRates::set_ad_order$", r"panic:Result::unwrap|ext:impl_methods::len_of", "I", "from_shape_vec((n,n), ..) on the n*n elements of an n x n array; Axis(0) exists on Array2"),
 (r"FXRates::try_new$", r"assert:Overflow\(Add\)", "S", "len + 1 on usize lengths"),
 (r"FXRates::try_new$", r"ext:index", "G", "fx_rates[0] behind `fx_rates.is_empty() -> Err` (C09 R09.1)", 1),
 (r"FXRates::update$", r"ext:index", "G", "slot index found by position() behind the contains-all guard (C10 R10.4, R10.6); currencies[0] of a non-empty market", 1),
 (r"create_fx_array$", r"ext:index", "L", "vars[i] with i from enumerate over fx_rates, vars has one entry per quote"),
 (r"create_initial_edges$|create_initial_fx_array$", r"panic:Option::unwrap|ext:arraytraits|ext:index", "I", "currencies is built from the same quote list (try_new) so get_index_of hits; indices < n"),
 (r"create_initial_fx_array$", r"panic:assert_eq!", "I", "fx_pairs and fx_rates both mapped from the same quote list"),
 (r"mut_arrays_remaining_elements(::\{closure#\d\})?$", r"assert:Overflow\(Mul\)", "S", "n*n on usize"),
 (r"mut_arrays_remaining_elements(::\{closure#\d\})?$", r"assert:Overflow\(Add\)", "R", "i16 counter bounded by the number of currency pairs; statement range 2..12 currencies"),
 (r"mut_arrays_remaining_elements(::\{closure#\d\})?$", r"ext:", "L", "indices from combinations/argmax over 0..n on n x n arrays; Axis(0)/Axis(1) exist on 2-D arrays"),
 (r"PPSpline::<T>::bsplmatrix$", r"assert:|ext:", "G", "tau[0], tau[len-1], tau[j] inside `for i in 0..n` (n >= 1) with tau.len() == n guarded by csolve", 0, 1),
 (r"bspl(d?n?)ev_single_f64$", r"assert:|ext:", "I", "knot indices i..i+k with i < n = len(t) - k (PPSpline::new); k-1 / m-1 behind the k==1 / m==0 early returns"),
 (r"impl std::ops::(Add|Sub|Mul|Div)<dual::dual::Dual2?> for dual::dual::Dual2?>::\w+$", r"ext:ArrayBase>::(add|sub|mul)|ext:impl_methods::len_of", "I", "array arithmetic on operands aligned by to_union_vars / same-Arc fast path (C03 R03.1)"),
 (r"impl num_traits::Pow<f64> for dual::dual::Dual2>::pow$|Signed for dual::dual::Dual2?>::abs$|MathFuncs for dual::dual::Dual2?>::\w+$", r"ext:ArrayBase>::(add|sub|mul)", "I", "arrays derived from one number (same shape)"),
 (r"From<dual::dual::Dual> for dual::dual::Dual2>::from$", r"ext:impl_methods::len_of", "K", "Axis(0) of a 1-D array"),
 (r"dual::enums::Number", r"panic:panic!", "U", "mixed Dual/Dual2 arms of Number operators: Number is never a type argument of a generic solver/fill-in (R20.4)"),
]


def main():
    f = facts.load()
    P, R, fams, missing = cc.inventory(f)
    out, unmatched = [], []
    for fam, members in sorted(fams.items()):
        kinds = {}
        roots = {}
        for name, per in members:
            rt = roots.setdefault(cc.root_of(name), {})
            for k, ss in per.items():
                rt.setdefault(k, []).extend(s["ctrl"] for s in ss)
        for rt in roots.values():
            for k, ctr in rt.items():
                ctr = sorted(ctr)
                if k in kinds and kinds[k] != ctr:
                    # variants disagree: keep the elementwise minimum / max count
                    a = kinds[k]
                    ctr = [min(x, y) for x, y in zip(a, ctr)] + (a[len(ctr):] if len(a) > len(ctr) else ctr[len(a):])
                kinds[k] = ctr
        for k, ctr in sorted(kinds.items()):
            for row in REASONS:
                frx, krx, cls, why = row[:4]
                need = row[4] if len(row) > 4 else 0
                if re.search(frx, fam) and re.search(krx, k):
                    if any(c < need for c in ctr):
                        print("NEED-NOT-MET", fam, k, ctr, need)
                    ent = {"fn": fam, "kind": k, "count": len(ctr), "ctrl": [need] * len(ctr), "seen_ctrl": ctr, "class": cls, "reason": why}
                    if len(row) > 5:
                        ent["loop"] = row[5]          # every site of the row sits inside (at least) this many loops: the review relies on it
                    out.append(ent)
                    break
            else:
                unmatched.append((fam, k, ctr))
    with open(os.path.join(HERE, "rules", "c20_sites.json"), "w") as fh:
        json.dump(out, fh, indent=0)
    print("entries written:", len(out), "sites:", sum(e["count"] for e in out), "missing entries:", missing)
    for u in unmatched:
        print("UNMATCHED", u)


if __name__ == "__main__":
    main()
