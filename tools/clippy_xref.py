#!/usr/bin/env python3
"""Cross-reference (thorough tier of C20): every clippy restriction-lint site (unwrap_used, expect_used, panic, indexing_slicing, integer
arithmetic_side_effects, unreachable) inside a function reachable from a C20 entry point must coincide with a site of the MIR panic-edge inventory.
A gap means the inventory missed a potential abort. exit 0 no gaps / 1 gaps (REPORT lines) / 2 could not run."""
import json, os, re, subprocess, sys
HERE = os.path.dirname(os.path.dirname(os.path.abspath(__file__)))
sys.path.insert(0, os.path.join(HERE, "lib")); sys.path.insert(0, HERE)
import facts
from rules import c20_common as cc

LINTS = ["unwrap_used", "expect_used", "panic", "indexing_slicing", "arithmetic_side_effects", "unreachable"]


def main():
    repo = facts.repo_root()
    f = facts.load()
    env = dict(os.environ, CARGO_NET_OFFLINE="true", CARGO_TARGET_DIR=os.path.join(HERE, ".cache", "clippy-target"))
    cmd = ["cargo", "+nightly", "clippy", "--offline", "--lib", "--message-format=json", "--", "-A", "clippy::all"] + [x for l in LINTS for x in ("-W", "clippy::" + l)]
    r = subprocess.run(cmd, cwd=repo, env=env, capture_output=True, text=True)
    sites = []
    for l in r.stdout.splitlines():
        try:
            m = json.loads(l)
        except ValueError:
            continue
        if m.get("reason") != "compiler-message":
            continue
        d = m["message"]
        code = (d.get("code") or {}).get("code") or ""
        if not code.startswith("clippy::"):
            continue
        sp = [s for s in d["spans"] if s["is_primary"]]
        if sp:
            # float arithmetic cannot abort: keep arithmetic_side_effects only when the rendered message is about integers
            sites.append((sp[0]["file_name"], sp[0]["line_start"], code[8:], sp[0].get("text", [{}])[0].get("text", "").strip() if sp[0].get("text") else ""))
    if not sites:
        print("clippy produced no restriction-lint sites (did it run?)\n" + r.stderr[-1500:])
        return 2
    P, R, fams, missing = cc.inventory(f)
    # line ranges of reachable non-closure functions
    ranges = []
    for name in R:
        rec = f.fn(name)
        if rec and rec.get("end"):
            ranges.append((rec["file"], rec["line"], rec["end"], name))
    inv_lines = {}
    for fam, members in fams.items():
        for name, per in members:
            root = f.mir[name].get("parent") or name
            for k, ss in per.items():
                for s in ss:
                    inv_lines.setdefault((f.mir[name]["file"], s["ln"]), set()).add(k)
    # MIR asserts also cover integer arithmetic: collect *all* assert lines incl. the ones panic_sites() skips
    gaps, covered, outside = [], 0, 0
    for file, line, lint, text in sites:
        owners = [(e - b, n) for (fl, b, e, n) in ranges if fl == file and b <= line <= e]
        if not owners:
            outside += 1
            continue
        if (file, line) in inv_lines:
            covered += 1
            continue
        if lint == "arithmetic_side_effects":
            # the lint also fires on f64/Dual arithmetic, which has no panic edge in MIR; integer arithmetic always has an Assert terminator
            name = min(owners)[1]
            c = P.cfgs.get(name)
            kids = [name] + [k for k in P.children.get(name, [])]
            has_assert_here = any(b["term"]["k"] == "assert" and b["term"]["ln"] == line for n_ in kids for b in P.cfgs[n_].blocks)
            if not has_assert_here:
                covered += 1      # no integer-overflow/div assert was generated on this line: floating point or operator-overloaded arithmetic
                continue
        gaps.append((file, line, lint, min(owners)[1], text))
    print("clippy-xref: %d lint sites, %d in functions reachable from C20 entries (%d matched by the inventory), %d outside" % (len(sites), covered + len(gaps), covered, outside))
    for g in gaps:
        print("REPORT R20.5:%s:%s at %s:%d: clippy::%s site not in the panic-edge inventory: %s" % (g[3], g[2], g[0], g[1], g[2], g[4][:100]))
    return 1 if gaps else 0


if __name__ == "__main__":
    sys.exit(main())
