#!/bin/sh
# dbg_patch.sh <patch.diff> <dir>: patched scratch copy of /repo kept at <dir> (developer helper; remove the directory afterwards)
set -e
rm -rf "$2"; mkdir -p "$2"
rsync -a --exclude target --exclude .git --exclude docs --exclude notebooks /repo/ "$2"/
patch -p1 -s -d "$2" -i "$(realpath "$1")"
