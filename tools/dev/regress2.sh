#!/bin/sh
S=/var/tmp/vsnap
rm -rf $S; mkdir $S; rsync -a --exclude .cache --exclude .git /verif/ $S/; ln -s /verif/.cache $S/.cache
cd $S
L=/var/tmp/logs; rm -f $L/DONE2
python3 tools/recheck_seeded.py --no-write > $L/recheck2.log 2>&1
for d in refactors6 refactors5 refactors4 refactors3; do python3 tools/try_refactors.py $d > $L/${d}_r2.log 2>&1; done
date > $L/DONE2
