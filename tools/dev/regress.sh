#!/bin/sh
# regress.sh: snapshot /verif and run the whole regression chain there; results under /var/tmp/logs
S=/var/tmp/vsnap
rm -rf $S; mkdir $S; rsync -a --exclude .cache --exclude .git /verif/ $S/; ln -s /verif/.cache $S/.cache
cd $S
L=/var/tmp/logs; mkdir -p $L; rm -f $L/DONE
python3 tools/recheck_seeded.py > $L/recheck.log 2>&1
python3 tools/gen_seeded_index.py >> $L/recheck.log 2>&1
for d in refactors6 refactors5 refactors4 refactors3 refactors2 refactors; do python3 tools/try_refactors.py $d > $L/$d.log 2>&1; done
python3 tools/run_selftest.py > $L/selftest.log 2>&1
python3 tools/all_quick.py > $L/all_quick.log 2>&1
date > $L/DONE
