#!/bin/sh
cd /verif
L=/var/tmp/logs
python3 tools/try_refactors.py refactors4 > $L/refactors4_final.log 2>&1
cp $L/refactors4_final.log refactors4/LAST_RUN.txt
python3 tools/recheck_seeded.py > $L/recheck_final.log 2>&1
python3 tools/gen_seeded_index.py >> $L/recheck_final.log 2>&1
python3 tools/run_selftest.py > $L/selftest_final.log 2>&1
python3 tools/all_quick.py > $L/all_quick_final.log 2>&1
date > $L/FINAL_DONE
