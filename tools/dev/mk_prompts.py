import json, os, re, glob, sys
BASE = sys.argv[1]
props = [json.loads(l) for l in open('/verif/properties.jsonl')]
tmpl = open('/var/tmp/mut_prompt_example.txt').read()
head_end = tmpl.index("Here is a semantic property")
task_start = tmpl.index("YOUR TASK:")
prev_start = tmpl.index("IMPORTANT — previous authors")
simple_start = tmpl.index("Simple edits inside the anchored")
for p in props:
    pid = p["id"]; d = "%s/%s" % (BASE, pid)
    head = tmpl[:head_end].replace("/tmp/mut5/C01", d)
    anchors = (p.get("anchors") or {}).get("files", [])
    files = list(anchors)
    body = "Here is a semantic property the library is supposed to satisfy:\n\nPROPERTY %s — %s\n\nStatement: %s\n\nQuantified over: %s\n\nWhy the existing tests cannot settle it: %s\n\nSource files the property is anchored in: %s\n\n\n" % (
        pid, p["title"], p["statement"], p["quantifier"]["text"], p.get("why_tests_cant", ""), ", ".join(files))
    task = tmpl[task_start:prev_start]
    prev = []
    for sd in sorted(glob.glob("/verif/seeded/%s-*" % pid)):
        try:
            diff = open(sd + "/patch.diff").read()
        except OSError:
            continue
        f = re.search(r"^\+\+\+ b/(\S+)", diff, re.M)
        minus = [l[1:].strip() for l in diff.splitlines() if l.startswith("-") and not l.startswith("---") and l[1:].strip()][:2]
        plus = [l[1:].strip() for l in diff.splitlines() if l.startswith("+") and not l.startswith("+++") and l[1:].strip()][:2]
        prev.append("  - %s: %s  =>  %s" % (f.group(1) if f else "?", " / ".join(minus)[:200], " / ".join(plus)[:200]))
    prevtxt = "IMPORTANT — previous authors already delivered the following %d mutants for this property; yours must be DIFFERENT in mechanism and location (do not re-use these ideas or trivially vary them):\n%s\n" % (len(prev), "\n".join(prev))
    tail = tmpl[simple_start:].replace("/tmp/mut5/C01", d)
    open("%s/%s.prompt.txt" % (BASE, pid), "w").write(head + body + task + prevtxt + tail)
print("ok")
