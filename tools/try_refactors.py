#!/usr/bin/env python3
"""try_refactors.py <dir with rN_patch.diff ...> : apply each behaviour-preserving refactor to a scratch copy of /repo and run ALL twenty quick checks on it.
Any report is a false alarm of the checker (developer helper for the both-ways test; nothing here touches /repo)."""
import glob, os, re, shutil, subprocess, sys, tempfile, concurrent.futures
HERE = os.path.dirname(os.path.dirname(os.path.abspath(__file__)))
PROPS = os.environ.get("VERIF_PROPS", "").split() or ["C%02d" % i for i in range(1, 21)]


def one(patch):
    d = tempfile.mkdtemp(prefix="verif-ref-", dir=os.environ.get("VERIF_SCRATCH", "/var/tmp"))
    try:
        subprocess.run(["rsync", "-a", "--exclude", "target", "--exclude", ".git", "--exclude", "docs", "--exclude", "notebooks", "/repo/", d + "/"], check=True)
        r = subprocess.run(["patch", "-p1", "-s", "-i", os.path.abspath(patch)], cwd=d, capture_output=True, text=True)
        if r.returncode:
            return patch, ["patch failed: " + (r.stdout + r.stderr)[-200:]]
        out = []
        first = subprocess.run([os.path.join(HERE, "vcheck"), PROPS[0], "--repo", d], capture_output=True, text=True)   # builds the facts once
        res = [(PROPS[0], first)]
        with concurrent.futures.ThreadPoolExecutor(max_workers=6) as ex:
            res += list(zip(PROPS[1:], ex.map(lambda p: subprocess.run([os.path.join(HERE, "vcheck"), p, "--repo", d], capture_output=True, text=True), PROPS[1:])))
        for p, c in res:
            keys = [k for k, _ in re.findall(r"^REPORT (.*?) at \S+: (.*)$", c.stdout, re.M)]
            if c.returncode == 2:
                keys = ["BROKEN " + c.stderr[-300:].replace("\n", " ")]
            if c.returncode != 0:
                out.append("%s: %s" % (p, "; ".join(keys[:3])[:300]))
        return patch, out
    finally:
        shutil.rmtree(d, ignore_errors=True)


def main():
    pats = []
    for a in sys.argv[1:]:
        if os.path.isdir(a):
            pats += sorted(glob.glob(os.path.join(a, "r*_patch.diff"))) + sorted(glob.glob(os.path.join(a, "*", "patch.diff"))) + sorted(glob.glob(os.path.join(a, "patch.diff")))
        else:
            pats.append(a)
    bad = 0
    with concurrent.futures.ThreadPoolExecutor(max_workers=3) as ex:
        for patch, out in ex.map(one, pats):
            print("%s  %s" % (patch, "silent" if not out else "ALARM"))
            for l in out:
                print("     " + l)
            bad += bool(out)
    print("refactors: %d, alarms: %d" % (len(pats), bad))


if __name__ == "__main__":
    main()
