#!/usr/bin/env python3
"""ingest_mutant.py <src_dir> <prop> <n> [--all-props]

Confirm a sub-agent's mutant in a scratch worktree of /repo and, if it is valid, file it under /verif/seeded/<prop>-m<n>/.
Confirmation = (1) demo applies on the clean tree and the whole suite (incl. the demo) passes; (2) patch + demo compile, every original test still
passes and at least one demo test fails. Then the registered check(s) are run against a scratch copy carrying ONLY the patch."""
import json, os, re, shutil, subprocess, sys, time
HERE = os.path.dirname(os.path.dirname(os.path.abspath(__file__)))
SCR = os.environ.get("INGEST_SCR", "/var/tmp/scr")          # one scratch area per concurrent queue
WT = os.path.join(SCR, "ingest")
TGT = os.path.join(SCR, "tgt")


def sh(cmd, cwd=None, env=None, timeout=3600):
    e = dict(os.environ, CARGO_NET_OFFLINE="true")
    if env:
        e.update(env)
    return subprocess.run(cmd, cwd=cwd, env=e, shell=isinstance(cmd, str), capture_output=True, text=True, timeout=timeout)


def fresh_worktree():
    sh(["git", "-C", "/repo", "worktree", "remove", "--force", WT])
    shutil.rmtree(WT, ignore_errors=True)
    sh(["git", "-C", "/repo", "worktree", "prune"])
    r = sh(["git", "-C", "/repo", "worktree", "add", "-f", "--detach", WT, "HEAD"])
    if r.returncode:
        raise SystemExit("cannot create worktree: " + r.stderr)


def run_suite():
    r = sh("cargo test --workspace --no-fail-fast --offline 2>&1", cwd=WT, env={"CARGO_TARGET_DIR": TGT})
    out = r.stdout
    compiled = "error: could not compile" not in out and "error[E" not in out
    passed = set(re.findall(r"^test (\S+)(?: - should panic)? \.\.\. ok", out, re.M))
    failed = set(re.findall(r"^test (\S+)(?: - should panic)? \.\.\. FAILED", out, re.M))
    return compiled, passed, failed, out


def main():
    src, prop, n = sys.argv[1], sys.argv[2], sys.argv[3]
    patch, demo, notes = (os.path.join(src, "m%s_%s" % (n, x)) for x in ("patch.diff", "demo.diff", "NOTES.md"))
    for p in (patch, demo):
        if not os.path.exists(p):
            raise SystemExit("missing " + p)
    baseline = set(json.load(open("/root/.vp/BASELINE.json"))["stable_pass"])
    baseline = {t.replace("rateslib::", "", 1) for t in baseline}
    rep = {"property": prop, "n": int(n), "source": src, "at": time.strftime("%Y-%m-%dT%H:%M:%SZ", time.gmtime())}
    fresh_worktree()
    try:
        r = sh(["git", "apply", demo], cwd=WT)
        if r.returncode:
            raise SystemExit("demo.diff does not apply on the clean tree: " + r.stderr)
        ok, p1, f1, out1 = run_suite()
        demo_tests = sorted((p1 | f1) - baseline - {t for t in p1 | f1 if " - " in t or t.startswith("rust/")})
        demo_tests = [t for t in demo_tests if t not in baseline]
        rep["clean_plus_demo"] = {"compiled": ok, "baseline_missing": sorted(baseline - p1), "failed": sorted(f1), "demo_tests": demo_tests}
        if not ok or f1 or (baseline - p1):
            rep["verdict"] = "rejected: demo does not pass on the clean tree"
            print(json.dumps(rep, indent=1)); return 1
        r = sh(["git", "apply", patch], cwd=WT)
        if r.returncode:
            rep["verdict"] = "rejected: patch.diff does not apply with the demo: " + r.stderr[:300]
            print(json.dumps(rep, indent=1)); return 1
        ok, p2, f2, out2 = run_suite()
        rep["mutant_plus_demo"] = {"compiled": ok, "baseline_failed": sorted(f2 & baseline), "baseline_missing": sorted(baseline - p2 - f2), "demo_failed": sorted(f2 - baseline)}
        if not ok:
            rep["verdict"] = "rejected: mutant does not compile"
            print(json.dumps(rep, indent=1)); return 1
        if (f2 & baseline) or (baseline - p2):
            rep["verdict"] = "rejected: mutant breaks existing tests"
            print(json.dumps(rep, indent=1)); return 1
        if not (f2 - baseline):
            rep["verdict"] = "rejected: demo does not fail with the mutant"
            print(json.dumps(rep, indent=1)); return 1
        # checks against the patch only
        sh(["git", "checkout", "--", "."], cwd=WT)
        sh(["git", "clean", "-fdq", "--", "rust", "python"], cwd=WT)
        r = sh(["git", "apply", patch], cwd=WT)
        if r.returncode:
            rep["verdict"] = "rejected: patch.diff does not apply on the clean tree: " + r.stderr[:300]
            print(json.dumps(rep, indent=1)); return 1
        props = ["C%02d" % i for i in range(1, 21)] if "--all-props" in sys.argv else [prop]
        det = {}
        for pid in props:
            c = sh([os.path.join(HERE, "vcheck"), pid, "--repo", WT])
            keys = re.findall(r"^REPORT (.*?) at \S+: ", c.stdout, re.M)
            det[pid] = {"rc": c.returncode, "keys": keys[:8]}
        rep["checks"] = det
        rep["detected_by_own_property"] = det[prop]["rc"] == 1
        rep["detected_by"] = sorted(p for p, d in det.items() if d["rc"] == 1)
        rep["verdict"] = "confirmed"
        label = next((a.split("=", 1)[1] for a in sys.argv if a.startswith("--label=")), "m%s" % n)
        dst = os.path.join(HERE, "seeded", "%s-%s" % (prop, label))
        os.makedirs(dst, exist_ok=True)
        shutil.copy(patch, os.path.join(dst, "patch.diff"))
        shutil.copy(demo, os.path.join(dst, "demo.diff"))
        if os.path.exists(notes):
            shutil.copy(notes, os.path.join(dst, "NOTES.md"))
        meta = {"property": prop, "breaks": prop, "author": "independent sub-agent (given only the property text and a scratch worktree)",
                "needs_to_manifest": "see NOTES.md", "confirmed": rep, "ran": [
                    "git apply demo.diff && cargo test --workspace --no-fail-fast --offline  (all baseline tests + demo pass)",
                    "git apply patch.diff && cargo test ...  (all baseline tests pass, demo fails)",
                    "git checkout -- . && git apply patch.diff && ./vcheck %s --repo <scratch>" % prop]}
        json.dump(meta, open(os.path.join(dst, "meta.json"), "w"), indent=1)
        print(json.dumps({k: rep[k] for k in ("property", "n", "verdict", "detected_by_own_property", "detected_by")}, indent=1))
        print("own-property keys:", det[prop]["keys"][:4])
        return 0
    finally:
        sh(["git", "-C", "/repo", "worktree", "remove", "--force", WT])
        shutil.rmtree(WT, ignore_errors=True)


if __name__ == "__main__":
    sys.exit(main())
