#!/usr/bin/env python3
"""coverage.py <prefix>: developer aid — which function bodies of the crate did no check fetch (evaluate or inspect)?  Run the checks with
VERIF_COVERAGE=<prefix> first (python3 tools/all_quick.py); C20's call-graph rules see every body through the MIR and are not counted here."""
import glob, os, re, sys
sys.path.insert(0, os.path.join(os.path.dirname(os.path.dirname(os.path.abspath(__file__))), "lib"))
import facts as F
seen = set()
for f in glob.glob(sys.argv[1] + ".*"):
    seen |= set(open(f).read().split("\n"))
facts = F.load()
rows = []
for r in facts.all_fns():
    n = r["fn"]
    if n in seen or "::tests::" in n or "::{closure" in n or r["file"].startswith("rust/main") or "/tests" in r["file"]:
        continue
    if any(n.startswith(s + "::{closure") for s in seen):
        continue
    rows.append((r["file"], r["line"], n))
rows.sort()
for f, l, n in rows:
    print("%s:%d %s" % (f, l, n))
print("# %d of %d bodies never fetched" % (len(rows), sum(1 for _ in facts.all_fns())), file=sys.stderr)
