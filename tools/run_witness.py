#!/usr/bin/env python3
"""run_witness.py <module filter, e.g. c18>  — compile-fail witnesses + compiling twins against /repo's current tree (cargo +nightly test --doc).
exit 0 all witnesses hold / 1 a witness or twin failed (printed) / 2 could not run."""
import os, re, shutil, subprocess, sys
HERE = os.path.dirname(os.path.dirname(os.path.abspath(__file__)))
W = os.path.join(HERE, "witness")
repo = os.environ.get("VERIF_REPO", "/repo")
flt = sys.argv[1] if len(sys.argv) > 1 else ""
open(os.path.join(W, "Cargo.toml"), "w").write(open(os.path.join(W, "Cargo.toml.in")).read().replace("@REPO@", repo))
shutil.copy(os.path.join(repo, "Cargo.lock"), os.path.join(W, "Cargo.lock"))
env = dict(os.environ, CARGO_NET_OFFLINE="true", CARGO_TARGET_DIR=os.path.join(HERE, ".cache", "witness-target"))
r = subprocess.run(["cargo", "+nightly", "test", "--doc", "--offline", "--", flt], cwd=W, env=env, capture_output=True, text=True)
out = r.stdout + r.stderr
res = re.findall(r"^test (\S.*?) \.\.\. (ok|FAILED|ignored)", out, re.M)
if not res:
    print("WITNESS could not run:\n" + out[-2000:])
    sys.exit(2)
bad = [(n, s) for n, s in res if s == "FAILED"]
for n, s in res:
    print("WITNESS %-7s %s" % (s, n))
print("witness: %d doc tests, %d failed" % (len(res), len(bad)))
sys.exit(1 if bad else 0)
