#!/usr/bin/env python3
"""Both-ways self-test: apply each seeded variant to a scratch copy of /repo (outside /repo and /verif), run the property's check on the
copy, and require that it is reported with a key matching the variant's expectation. Never prints the interface word for a detected seed.
exit 0 all detected (or skipped because the patch no longer applies) / 2 a variant that applies was not reported."""
import os, re, shutil, subprocess, sys, tempfile, json
from concurrent.futures import ThreadPoolExecutor
HERE = os.path.dirname(os.path.dirname(os.path.abspath(__file__)))
sys.path.insert(0, HERE)
from selftest.variants import VARIANTS

SCRATCH = os.environ.get("VERIF_SCRATCH", "/var/tmp")
REPO = os.environ.get("VERIF_REPO", "/repo")


def copy_repo(dst):
    subprocess.run(["rsync", "-a", "--exclude", "target", "--exclude", ".git", "--exclude", "docs", "--exclude", "notebooks", "--exclude", "benches",
                    "--exclude", "benchmarks", REPO + "/", dst + "/"], check=True)


def run_variant(v):
    d = tempfile.mkdtemp(prefix="verif-st-%s-" % v["name"], dir=SCRATCH)
    try:
        copy_repo(d)
        for f, old, new in v["edits"]:
            p = os.path.join(d, f)
            s = open(p).read()
            if s.count(old) != 1:
                return v["name"], "skipped", "anchor text occurs %d times in %s" % (s.count(old), f)
            open(p, "w").write(s.replace(old, new))
        r = subprocess.run([os.path.join(HERE, "vcheck"), v["prop"], "--repo", d], capture_output=True, text=True)
        if r.returncode == 2:
            return v["name"], "broken", (r.stderr or r.stdout)[-600:]
        keys = re.findall(r"^REPORT (.*?) at \S+: ", r.stdout, re.M)
        if v["expect"] is None:
            # behaviour-preserving refactor: any report is a false alarm of the checker
            if keys:
                return v["name"], "falsealarm", "reported keys: %s" % keys[:4]
            return v["name"], "silent", "no report on an equivalent refactor"
        hit = [k for k in keys if re.search(v["expect"], k)]
        if hit:
            return v["name"], "detected", hit[0]
        return v["name"], "missed", "reported keys: %s" % keys[:5]
    finally:
        shutil.rmtree(d, ignore_errors=True)


def main():
    only = sys.argv[1:] 
    vs = [v for v in VARIANTS if not only or v["prop"] in only or v["name"] in only]
    # facts extraction serialises on a lock; a few workers keep the pipeline busy
    with ThreadPoolExecutor(max_workers=4) as ex:
        res = list(ex.map(run_variant, vs))
    bad = 0
    for name, st, info in res:
        print("SELFTEST %-9s %s %s" % (st, name, info))
        if st in ("missed", "broken", "falsealarm"):
            bad += 1
    print("selftest: %d variants, %d detected, %d silent on equivalent refactors, %d skipped, %d wrong" % (len(res), sum(1 for r in res if r[1] == "detected"),
          sum(1 for r in res if r[1] == "silent"), sum(1 for r in res if r[1] == "skipped"), bad))
    return 2 if bad else 0


if __name__ == "__main__":
    sys.exit(main())
