#!/usr/bin/env python3
"""Writes /verif/MANIFEST.json from the claims table below (kept next to the rules so they cannot drift apart)."""
import json, os, sys
HERE = os.path.dirname(os.path.dirname(os.path.abspath(__file__)))
sys.path.insert(0, HERE)
from claims import CLAIMS, NOT_APPLICABLE

BASE = "cd /repo/$(cat /w/out/cargo_root.txt 2>/dev/null || echo .) && (cargo nextest run --workspace --no-fail-fast --tool-config-file pb:/w/lib/nextest.toml --profile pb --test-threads 8 --offline || cargo test --workspace --no-fail-fast --offline)"

m = {
    "version": 1,
    "setup_cmd": "./setup.sh",
    "hooks": {
        "guard": "rateslib_verif",
        "enable": "none needed: the static checks read /repo's source through the compiler (typed HIR, MIR) and need no instrumentation",
        "baseline_off_cmd": BASE,
        "source_commits": [],
        "add_only": True,
    },
    "engines": [
        {"name": "factdrv", "path": "driver/", "serves_properties": sorted(CLAIMS), "kind_free_text": "rustc_private driver: typed HIR, MIR CFG, impl/ADT tables, expanded-AST attributes -> facts file"},
        {"name": "rules", "path": "rules/", "serves_properties": sorted(CLAIMS), "kind_free_text": "python3 (stdlib) analysers over the facts: canonical-expression normaliser + calculus oracle, match-arm tables, MIR dominance/panic inventory, idiom recognisers, constant tables, serde config lint"},
    ],
    "checks": [],
    "not_applicable": NOT_APPLICABLE,
    "notes": "Family: static analysis only. Every check re-extracts facts from /repo's working tree when its content hash changed. exit 0 held / 1 violation / 2 checker broken.",
}
for pid in sorted(CLAIMS):
    c = CLAIMS[pid]
    m["checks"].append({
        "property_id": pid,
        "quick_cmd": "./vcheck %s --tier quick" % pid,
        "thorough_cmd": "./vcheck %s --tier thorough" % pid,
        "evidence_file": "evidence/%s.json" % pid,
        "replay_cmd_template": "./vcheck %s --replay {path}" % pid,
        "engine": "factdrv+rules",
        "level_claimed": {"category": "other", "text": c["text"], "design_ref": c["design_ref"]},
        "level_note": c["note"],
        "technique": c["technique"],
    })
with open(os.path.join(HERE, "MANIFEST.json"), "w") as fh:
    json.dump(m, fh, indent=1)
print("MANIFEST.json: %d checks, %d not_applicable" % (len(m["checks"]), len(NOT_APPLICABLE)))
