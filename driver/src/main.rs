// factdrv — rustc_private fact extractor for the rateslib static checks (engine E1).
//
// Invoked by cargo as RUSTC_WORKSPACE_WRAPPER: argv = [factdrv, <rustc>, args...].
// For the crate named `rateslib` it writes one JSON-lines facts file to $FACTDRV_OUT:
//   typed HIR of every fn/const body, MIR CFG of every fn/closure, impl table, ADT table,
//   expanded-AST attributes and format templates, source file list.
// It never executes analysed code; it only reads the compiler's own tables.
#![feature(rustc_private)]
#![allow(unused)]

extern crate rustc_abi;
extern crate rustc_ast;
extern crate rustc_ast_pretty;
extern crate rustc_driver;
extern crate rustc_hir;
extern crate rustc_interface;
extern crate rustc_middle;
extern crate rustc_span;

use rustc_driver::{Callbacks, Compilation};
use rustc_hir as hir;
use rustc_hir::def::{DefKind, Res};
use rustc_hir::def_id::{DefId, LocalDefId};
use rustc_interface::interface::Compiler;
use rustc_middle::mir;
use rustc_middle::ty::print::with_no_trimmed_paths;
use rustc_middle::ty::{self, Instance, TyCtxt, TypingEnv};
use rustc_span::{ExpnKind, Span};
use std::fmt::Write as _;

const DRIVER_VERSION: &str = "factdrv-4";

// ---------------------------------------------------------------- JSON helpers
fn js(s: &str) -> String {
    let mut o = String::with_capacity(s.len() + 2);
    o.push('"');
    for c in s.chars() {
        match c {
            '"' => o.push_str("\\\""),
            '\\' => o.push_str("\\\\"),
            '\n' => o.push_str("\\n"),
            '\r' => o.push_str("\\r"),
            '\t' => o.push_str("\\t"),
            c if (c as u32) < 0x20 => {
                let _ = write!(o, "\\u{:04x}", c as u32);
            }
            c => o.push(c),
        }
    }
    o.push('"');
    o
}
fn arr(v: Vec<String>) -> String {
    let mut o = String::from("[");
    for (i, x) in v.iter().enumerate() {
        if i > 0 {
            o.push(',');
        }
        o.push_str(x);
    }
    o.push(']');
    o
}
struct O(String);
impl O {
    fn new() -> O {
        O(String::from("{"))
    }
    fn key(&mut self, k: &str) {
        if self.0.len() > 1 {
            self.0.push(',');
        }
        self.0.push_str(&js(k));
        self.0.push(':');
    }
    fn s(mut self, k: &str, v: &str) -> O {
        self.key(k);
        self.0.push_str(&js(v));
        self
    }
    fn so(mut self, k: &str, v: Option<String>) -> O {
        if let Some(v) = v {
            self.key(k);
            self.0.push_str(&js(&v));
        }
        self
    }
    fn r(mut self, k: &str, v: String) -> O {
        self.key(k);
        self.0.push_str(&v);
        self
    }
    fn ro(mut self, k: &str, v: Option<String>) -> O {
        if let Some(v) = v {
            self.key(k);
            self.0.push_str(&v);
        }
        self
    }
    fn n(mut self, k: &str, v: i128) -> O {
        self.key(k);
        let _ = write!(self.0, "{}", v);
        self
    }
    fn b(mut self, k: &str, v: bool) -> O {
        self.key(k);
        self.0.push_str(if v { "true" } else { "false" });
        self
    }
    fn end(mut self) -> String {
        self.0.push('}');
        self.0
    }
}

// ---------------------------------------------------------------- callbacks
struct Drv {
    ast_lines: Vec<String>,
}

impl Callbacks for Drv {
    fn after_expansion<'tcx>(&mut self, _c: &Compiler, tcx: TyCtxt<'tcx>) -> Compilation {
        if tcx.crate_name(rustc_hir::def_id::LOCAL_CRATE).as_str() != "rateslib" {
            return Compilation::Continue;
        }
        let resolver = tcx.resolver_for_lowering().borrow();
        let krate: &rustc_ast::Crate = &resolver.1;
        let mut v = AstV { stack: vec![], out: vec![] };
        rustc_ast::visit::walk_crate(&mut v, krate);
        self.ast_lines = v.out;
        Compilation::Continue
    }

    fn after_analysis<'tcx>(&mut self, _c: &Compiler, tcx: TyCtxt<'tcx>) -> Compilation {
        if tcx.crate_name(rustc_hir::def_id::LOCAL_CRATE).as_str() != "rateslib" {
            return Compilation::Continue;
        }
        let out_path = match std::env::var("FACTDRV_OUT") {
            Ok(p) => p,
            Err(_) => return Compilation::Continue,
        };
        let mut lines: Vec<String> = Vec::new();
        let mut counts = (0usize, 0usize, 0usize, 0usize, 0usize);
        with_no_trimmed_paths!({
            // ---- bodies (typed HIR)
            for ldid in tcx.hir_body_owners() {
                let did = ldid.to_def_id();
                let dk = tcx.def_kind(did);
                match dk {
                    DefKind::Fn | DefKind::AssocFn | DefKind::Const { .. } | DefKind::Static { .. } | DefKind::AssocConst { .. } => {}
                    _ => continue,
                }
                let cx = Cx { tcx, tr: tcx.typeck(ldid), owner: ldid };
                lines.push(cx.body_fact(ldid, dk));
                counts.0 += 1;
            }
            // ---- MIR
            for ldid in tcx.mir_keys(()) {
                let did = ldid.to_def_id();
                match tcx.def_kind(did) {
                    DefKind::Fn | DefKind::AssocFn | DefKind::Closure => {}
                    _ => continue,
                }
                lines.push(mir_fact(tcx, *ldid));
                counts.1 += 1;
            }
            // ---- impls / adts
            for id in tcx.hir_free_items() {
                let item = tcx.hir_item(id);
                let did = item.owner_id.to_def_id();
                match &item.kind {
                    hir::ItemKind::Impl(imp) => {
                        lines.push(impl_fact(tcx, did, item.span));
                        counts.2 += 1;
                    }
                    hir::ItemKind::Struct(..) | hir::ItemKind::Enum(..) => {
                        lines.push(adt_fact(tcx, did, item.span));
                        counts.3 += 1;
                    }
                    _ => {}
                }
            }
            // ---- source files in the module tree
            let sm = tcx.sess.source_map();
            let mut files = vec![];
            for f in sm.files().iter() {
                let n = fname(&f.name);
                if !n.starts_with('/') && !n.starts_with('<') {
                    files.push(js(&n));
                }
            }
            lines.push(O::new().r("files", arr(files)).end());
        });
        counts.4 = self.ast_lines.len();
        let hdr = O::new()
            .n("hdr", 1)
            .s("driver", DRIVER_VERSION)
            .r(
                "counts",
                O::new()
                    .n("bodies", counts.0 as i128)
                    .n("mir", counts.1 as i128)
                    .n("impls", counts.2 as i128)
                    .n("adts", counts.3 as i128)
                    .n("ast", counts.4 as i128)
                    .end(),
            )
            .end();
        let mut text = String::new();
        text.push_str(&hdr);
        text.push('\n');
        for l in lines.iter().chain(self.ast_lines.iter()) {
            text.push_str(l);
            text.push('\n');
        }
        let tmp = format!("{}.tmp{}", out_path, std::process::id());
        std::fs::write(&tmp, text).expect("factdrv: cannot write facts");
        std::fs::rename(&tmp, &out_path).expect("factdrv: cannot rename facts");
        Compilation::Continue
    }
}

fn fname(n: &rustc_span::FileName) -> String {
    format!("{}", n.prefer_local_unconditionally())
}

fn loc<'tcx>(tcx: TyCtxt<'tcx>, sp: Span) -> (String, usize, Vec<String>) {
    let mut macs = vec![];
    if sp.from_expansion() {
        for d in sp.macro_backtrace() {
            match d.kind {
                ExpnKind::Macro(_, name) => macs.push(name.to_string()),
                ExpnKind::Desugaring(k) => macs.push(format!("desugar:{:?}", k)),
                _ => {}
            }
        }
        if macs.is_empty() {
            // desugaring-only expansion
            let d = sp.ctxt().outer_expn_data();
            if let ExpnKind::Desugaring(k) = d.kind {
                macs.push(format!("desugar:{:?}", k));
            }
        }
    }
    let cs = sp.source_callsite();
    let p = tcx.sess.source_map().lookup_char_pos(cs.lo());
    (fname(&p.file.name), p.line, macs)
}

fn resolve<'tcx>(tcx: TyCtxt<'tcx>, owner: DefId, did: DefId, args: ty::GenericArgsRef<'tcx>) -> Option<String> {
    match tcx.def_kind(did) {
        DefKind::Fn | DefKind::AssocFn | DefKind::Closure => {}
        _ => return None,
    }
    let env = TypingEnv::post_analysis(tcx, owner);
    match Instance::try_resolve(tcx, env, did, args) {
        Ok(Some(inst)) => Some(tcx.def_path_str(inst.def_id())),
        _ => None,
    }
}

// ---------------------------------------------------------------- typed HIR
struct Cx<'tcx> {
    tcx: TyCtxt<'tcx>,
    tr: &'tcx ty::TypeckResults<'tcx>,
    owner: LocalDefId,
}

impl<'tcx> Cx<'tcx> {
    fn body_fact(&self, ldid: LocalDefId, dk: DefKind) -> String {
        let tcx = self.tcx;
        let did = ldid.to_def_id();
        let (file, line, macs) = loc(tcx, tcx.def_span(did));
        let body = tcx.hir_body_owned_by(ldid);
        let end_line = tcx.sess.source_map().lookup_char_pos(body.value.span.source_callsite().hi()).line;
        let mut o = O::new()
            .n("end", end_line as i128)
            .s("fn", &tcx.def_path_str(did))
            .s("dk", &format!("{:?}", dk))
            .s("file", &file)
            .n("line", line as i128)
            .r("mac", arr(macs.iter().map(|m| js(m)).collect()));
        if matches!(dk, DefKind::Fn | DefKind::AssocFn) {
            o = o.s("vis", &format!("{:?}", tcx.visibility(did)));
            let sig = tcx.fn_sig(did).skip_binder().skip_binder();
            o = o.s("ret", &sig.output().to_string());
            o = o.r("sig", arr(sig.inputs().iter().map(|t| js(&t.to_string())).collect()));
            // generic parameters in substitution order (parent's first), aligned with the `gargs` of a call to this item
            let gens = tcx.generics_of(did);
            let names: Vec<String> = (0..gens.count()).map(|i| js(gens.param_at(i, tcx).name.as_str())).collect();
            if !names.is_empty() {
                o = o.r("generics", arr(names));
            }
            if let Some(ti) = tcx.trait_item_of(did) {
                o = o.s("trait_item", &tcx.def_path_str(ti));
            }
            if let Some(imp) = tcx.impl_of_assoc(did) {
                o = o.s("impl", &tcx.def_path_str(imp));
                o = o.s("self_ty", &tcx.type_of(imp).instantiate_identity().skip_normalization().to_string());
            }
        }
        let params: Vec<String> = body.params.iter().map(|p| self.pat(p.pat)).collect();
        o = o.r("params", arr(params));
        o = o.r("body", self.expr(body.value));
        o.end()
    }

    fn ty_of(&self, e: &hir::Expr<'tcx>) -> Option<String> {
        self.tr.expr_ty_opt(e).map(|t| t.to_string())
    }

    fn qres(&self, qp: &hir::QPath<'tcx>, id: hir::HirId, mut o: O) -> O {
        let tcx = self.tcx;
        match self.tr.qpath_res(qp, id) {
            Res::Local(hid) => o.s("res", "local").s("name", tcx.hir_name(hid).as_str()).n("id", hid.local_id.as_u32() as i128),
            Res::Def(kind, did) => {
                o = o.s("res", "def").s("dk", &format!("{:?}", kind)).s("def", &tcx.def_path_str(did));
                if let Some(args) = self.tr.node_args_opt(id) {
                    if !args.is_empty() {
                        o = o.r("gargs", arr(args.iter().map(|a| js(&a.to_string())).collect()));
                    }
                    if let Some(r) = resolve(tcx, self.owner.to_def_id(), did, args) {
                        o = o.s("resolved", &r);
                    }
                }
                o
            }
            Res::SelfCtor(did) => o.s("res", "selfctor").s("def", &tcx.def_path_str(did)),
            Res::SelfTyAlias { alias_to, .. } => o.s("res", "selfty").s("def", &tcx.def_path_str(alias_to)),
            r => o.s("res", "other").s("dbg", &format!("{:?}", r)),
        }
    }

    fn method_callee(&self, id: hir::HirId, mut o: O) -> O {
        let tcx = self.tcx;
        if let Some(did) = self.tr.type_dependent_def_id(id) {
            o = o.s("callee", &tcx.def_path_str(did));
            o = o.b("callee_local", did.is_local());
            if let Some(args) = self.tr.node_args_opt(id) {
                if !args.is_empty() {
                    o = o.r("gargs", arr(args.iter().map(|a| js(&a.to_string())).collect()));
                }
                if let Some(r) = resolve(tcx, self.owner.to_def_id(), did, args) {
                    o = o.s("resolved", &r);
                }
            }
        }
        o
    }

    fn block(&self, b: &hir::Block<'tcx>) -> String {
        let mut stmts = vec![];
        for s in b.stmts {
            match &s.kind {
                hir::StmtKind::Let(l) => {
                    let (_, ln, _) = loc(self.tcx, s.span);
                    let mut o = O::new().s("k", "let").n("ln", ln as i128).r("pat", self.pat(l.pat));
                    if let Some(i) = l.init {
                        o = o.r("init", self.expr(i));
                    }
                    if let Some(els) = l.els {
                        o = o.r("els", self.block(els));
                    }
                    stmts.push(o.end());
                }
                hir::StmtKind::Expr(e) => stmts.push(O::new().s("k", "expr").r("e", self.expr(e)).end()),
                hir::StmtKind::Semi(e) => stmts.push(O::new().s("k", "semi").r("e", self.expr(e)).end()),
                hir::StmtKind::Item(_) => stmts.push(O::new().s("k", "item").end()),
            }
        }
        let mut o = O::new().s("k", "block").r("stmts", arr(stmts));
        if let Some(e) = b.expr {
            o = o.r("e", self.expr(e));
        }
        o.end()
    }

    fn expr(&self, e: &hir::Expr<'tcx>) -> String {
        use hir::ExprKind as K;
        let tcx = self.tcx;
        // transparent wrappers
        if let K::DropTemps(inner) = e.kind {
            return self.expr(inner);
        }
        let (_, ln, macs) = loc(tcx, e.span);
        let mut o = O::new();
        let kind: &str;
        macro_rules! k {
            ($s:expr) => {
                o = o.s("k", $s)
            };
        }
        match &e.kind {
            K::Lit(l) => {
                k!("lit");
                use rustc_ast::LitKind as L;
                match &l.node {
                    L::Str(s, _) => o = o.s("lk", "str").s("v", s.as_str()),
                    L::Int(n, _) => o = o.s("lk", "int").s("v", &format!("{}", n.get())),
                    L::Float(s, _) => o = o.s("lk", "float").s("v", s.as_str()),
                    L::Bool(b) => o = o.s("lk", "bool").s("v", if *b { "true" } else { "false" }),
                    L::Char(c) => o = o.s("lk", "char").s("v", &c.to_string()),
                    other => o = o.s("lk", "other").s("v", &format!("{:?}", other)),
                }
            }
            K::Path(qp) => {
                k!("path");
                o = self.qres(qp, e.hir_id, o);
            }
            K::Call(f, args) => {
                k!("call");
                o = o.r("f", self.expr(f));
                o = o.r("args", arr(args.iter().map(|a| self.expr(a)).collect()));
                if self.tr.is_method_call(e) {
                    o = self.method_callee(e.hir_id, o);
                }
            }
            K::MethodCall(seg, recv, args, _) => {
                k!("mcall");
                o = o.s("m", seg.ident.name.as_str());
                o = o.r("recv", self.expr(recv));
                o = o.r("args", arr(args.iter().map(|a| self.expr(a)).collect()));
                o = self.method_callee(e.hir_id, o);
            }
            K::Binary(op, l, r) => {
                k!("bin");
                o = o.s("op", &format!("{:?}", op.node));
                o = o.r("l", self.expr(l)).r("r", self.expr(r));
                if self.tr.is_method_call(e) {
                    o = self.method_callee(e.hir_id, o);
                }
            }
            K::Unary(op, x) => {
                k!("un");
                o = o.s("op", &format!("{:?}", op));
                o = o.r("e", self.expr(x));
                if self.tr.is_method_call(e) {
                    o = self.method_callee(e.hir_id, o);
                }
            }
            K::AddrOf(_, m, x) => {
                k!("ref");
                o = o.b("mut", m.is_mut());
                o = o.r("e", self.expr(x));
            }
            K::Field(x, id) => {
                k!("field");
                o = o.s("name", id.name.as_str());
                o = o.r("e", self.expr(x));
            }
            K::Index(x, i, _) => {
                k!("index");
                o = o.r("e", self.expr(x)).r("i", self.expr(i));
                if self.tr.is_method_call(e) {
                    o = self.method_callee(e.hir_id, o);
                }
            }
            K::Tup(xs) => {
                k!("tup");
                o = o.r("es", arr(xs.iter().map(|a| self.expr(a)).collect()));
            }
            K::Array(xs) => {
                k!("array");
                o = o.r("es", arr(xs.iter().map(|a| self.expr(a)).collect()));
            }
            K::Repeat(x, _) => {
                k!("repeat");
                o = o.r("e", self.expr(x));
            }
            K::Struct(qp, fields, tail) => {
                k!("struct");
                o = self.qres(qp, e.hir_id, o);
                let fs: Vec<String> = fields.iter().map(|f| arr(vec![js(f.ident.name.as_str()), self.expr(f.expr)])).collect();
                o = o.r("fields", arr(fs));
                if let hir::StructTailExpr::Base(b) = tail {
                    o = o.r("base", self.expr(b));
                }
            }
            K::Block(b, _) => {
                return self.block(b);
            }
            K::If(c, t, el) => {
                k!("if");
                o = o.r("c", self.expr(c)).r("t", self.expr(t));
                if let Some(el) = el {
                    o = o.r("e", self.expr(el));
                }
            }
            K::Let(l) => {
                k!("letx");
                o = o.r("pat", self.pat(l.pat)).r("init", self.expr(l.init));
            }
            K::Match(x, arms, src) => {
                k!("match");
                o = o.s("src", &format!("{:?}", src));
                o = o.r("e", self.expr(x));
                let mut av = vec![];
                for a in arms.iter() {
                    let mut ao = O::new().r("pat", self.pat(a.pat));
                    if let Some(g) = a.guard {
                        ao = ao.r("guard", self.expr(g));
                    }
                    ao = ao.r("body", self.expr(a.body));
                    av.push(ao.end());
                }
                o = o.r("arms", arr(av));
            }
            K::Loop(b, _, src, _) => {
                k!("loop");
                o = o.s("src", &format!("{:?}", src));
                o = o.r("b", self.block(b));
            }
            K::Closure(c) => {
                k!("closure");
                let b = tcx.hir_body(c.body);
                o = o.r("params", arr(b.params.iter().map(|p| self.pat(p.pat)).collect()));
                o = o.r("body", self.expr(b.value));
            }
            K::Assign(l, r, _) => {
                k!("assign");
                o = o.r("l", self.expr(l)).r("r", self.expr(r));
            }
            K::AssignOp(op, l, r) => {
                k!("assignop");
                o = o.s("op", &format!("{:?}", op.node));
                o = o.r("l", self.expr(l)).r("r", self.expr(r));
                if self.tr.is_method_call(e) {
                    o = self.method_callee(e.hir_id, o);
                }
            }
            K::Ret(x) => {
                k!("ret");
                if let Some(x) = x {
                    o = o.r("e", self.expr(x));
                }
            }
            K::Break(_, x) => {
                k!("break");
                if let Some(x) = x {
                    o = o.r("e", self.expr(x));
                }
            }
            K::Continue(_) => {
                k!("continue");
            }
            K::Cast(x, _) => {
                k!("cast");
                o = o.r("e", self.expr(x));
            }
            K::Type(x, _) => {
                return self.expr(x);
            }
            K::Use(x, _) => {
                return self.expr(x);
            }
            other => {
                k!("other");
                let d = format!("{:?}", other);
                let d: String = d.chars().take(60).collect();
                o = o.s("dbg", &d);
            }
        }
        o = o.n("ln", ln as i128);
        if !macs.is_empty() {
            o = o.r("mac", arr(macs.iter().map(|m| js(m)).collect()));
        }
        if let Some(t) = self.tr.expr_ty_opt(e) {
            let ts = if matches!(t.kind(), ty::FnDef(..)) { "fndef".to_string() } else { t.to_string() };
            if let Some(ta) = self.tr.expr_ty_adjusted_opt(e) {
                let tas = ta.to_string();
                if tas != ts {
                    o = o.s("tya", &tas);
                }
            }
            o = o.s("ty", &ts);
        }
        o.end()
    }

    fn patexpr(&self, pe: &hir::PatExpr<'tcx>) -> String {
        let mut o = O::new();
        match &pe.kind {
            hir::PatExprKind::Lit { lit, negated } => {
                use rustc_ast::LitKind as L;
                o = o.s("k", "lit").b("neg", *negated);
                match &lit.node {
                    L::Str(s, _) => o = o.s("lk", "str").s("v", s.as_str()),
                    L::Int(n, _) => o = o.s("lk", "int").s("v", &format!("{}", n.get())),
                    L::Float(s, _) => o = o.s("lk", "float").s("v", s.as_str()),
                    L::Bool(b) => o = o.s("lk", "bool").s("v", if *b { "true" } else { "false" }),
                    other => o = o.s("lk", "other").s("v", &format!("{:?}", other)),
                }
            }
            hir::PatExprKind::Path(qp) => {
                o = o.s("k", "path");
                o = self.qres(qp, pe.hir_id, o);
            }
            _ => o = o.s("k", "other").s("dbg", "constblock"),
        }
        o.end()
    }

    fn pat(&self, p: &hir::Pat<'tcx>) -> String {
        use hir::PatKind as P;
        let tcx = self.tcx;
        let mut o = O::new();
        match &p.kind {
            P::Wild => o = o.s("k", "wild"),
            P::Binding(mode, hid, ident, sub) => {
                o = o.s("k", "bind").s("name", ident.name.as_str()).n("id", hid.local_id.as_u32() as i128);
                o = o.s("mode", &format!("{:?}", mode));
                if let Some(s) = sub {
                    o = o.r("sub", self.pat(s));
                }
            }
            P::Struct(qp, fields, _) => {
                o = o.s("k", "struct");
                o = self.qres(qp, p.hir_id, o);
                let fs: Vec<String> = fields.iter().map(|f| arr(vec![js(f.ident.name.as_str()), self.pat(f.pat)])).collect();
                o = o.r("fields", arr(fs));
            }
            P::TupleStruct(qp, ps, _) => {
                o = o.s("k", "ts");
                o = self.qres(qp, p.hir_id, o);
                o = o.r("ps", arr(ps.iter().map(|x| self.pat(x)).collect()));
            }
            P::Tuple(ps, _) => {
                o = o.s("k", "tuple").r("ps", arr(ps.iter().map(|x| self.pat(x)).collect()));
            }
            P::Or(ps) => {
                o = o.s("k", "or").r("ps", arr(ps.iter().map(|x| self.pat(x)).collect()));
            }
            P::Ref(x, ..) => {
                o = o.s("k", "ref").r("p", self.pat(x));
            }
            P::Box(x) => {
                o = o.s("k", "box").r("p", self.pat(x));
            }
            P::Deref(x) => {
                o = o.s("k", "deref").r("p", self.pat(x));
            }
            P::Slice(before, mid, after) => {
                o = o.s("k", "slice").r("before", arr(before.iter().map(|x| self.pat(x)).collect()));
                if let Some(m) = mid {
                    o = o.r("mid", self.pat(m));
                }
                o = o.r("after", arr(after.iter().map(|x| self.pat(x)).collect()));
            }
            P::Expr(pe) => return self.patexpr(pe),
            P::Range(lo, hi, end) => {
                // `a..=b`, `a..`, `..=b` on a scrutinee: the bounds are pattern expressions (literals or paths)
                o = o.s("k", "range").b("incl", matches!(end, hir::RangeEnd::Included));
                if let Some(l) = lo {
                    o = o.r("lo", self.patexpr(l));
                }
                if let Some(h) = hi {
                    o = o.r("hi", self.patexpr(h));
                }
            }
            other => {
                let d = format!("{:?}", other);
                let d: String = d.chars().take(60).collect();
                o = o.s("k", "other").s("dbg", &d);
            }
        }
        o.end()
    }
}

// ---------------------------------------------------------------- MIR
fn mir_fact<'tcx>(tcx: TyCtxt<'tcx>, ldid: LocalDefId) -> String {
    let did = ldid.to_def_id();
    let body = tcx.optimized_mir(did);
    let (file, line, macs) = loc(tcx, tcx.def_span(did));
    let mut o = O::new()
        .s("mir", &tcx.def_path_str(did))
        .s("dk", &format!("{:?}", tcx.def_kind(did)))
        .s("file", &file)
        .n("line", line as i128)
        .n("argc", body.arg_count as i128);
    if tcx.def_kind(did) == DefKind::Closure {
        o = o.s("parent", &tcx.def_path_str(tcx.typeck_root_def_id(did)));
    }
    // locals
    let mut locals = vec![];
    for (l, d) in body.local_decls.iter_enumerated() {
        locals.push(js(&d.ty.to_string()));
    }
    o = o.r("locals", arr(locals));
    let mut names = vec![];
    for v in body.var_debug_info.iter() {
        if let mir::VarDebugInfoContents::Place(p) = &v.value {
            names.push(arr(vec![js(v.name.as_str()), js(&format!("{:?}", p))]));
        }
    }
    o = o.r("names", arr(names));
    let mut blocks = vec![];
    for (bb, data) in body.basic_blocks.iter_enumerated() {
        let mut bo = O::new();
        if data.is_cleanup {
            bo = bo.b("cleanup", true);
        }
        let mut stmts = vec![];
        for s in data.statements.iter() {
            match &s.kind {
                mir::StatementKind::Assign(bx) => {
                    let (place, rv) = &**bx;
                    let (_, ln, _) = loc(tcx, s.source_info.span);
                    let mut so = O::new().s("p", &format!("{:?}", place)).s("rv", &format!("{:?}", rv)).n("ln", ln as i128);
                    match rv {
                        mir::Rvalue::Aggregate(kind, _) => {
                            if let mir::AggregateKind::Adt(adid, vidx, ..) = &**kind {
                                let adt = tcx.adt_def(*adid);
                                so = so.s("adt", &tcx.def_path_str(*adid)).s("variant", adt.variant(*vidx).name.as_str());
                            } else {
                                so = so.s("agg", "other");
                            }
                        }
                        mir::Rvalue::BinaryOp(op, _) => {
                            so = so.s("binop", &format!("{:?}", op));
                        }
                        mir::Rvalue::UnaryOp(op, _) => {
                            so = so.s("unop", &format!("{:?}", op));
                        }
                        _ => {}
                    }
                    stmts.push(so.end());
                }
                _ => {}
            }
        }
        bo = bo.r("stmts", arr(stmts));
        let term = data.terminator();
        let (_, tln, tmacs) = loc(tcx, term.source_info.span);
        let mut to = O::new().n("ln", tln as i128);
        if !tmacs.is_empty() {
            to = to.r("mac", arr(tmacs.iter().map(|m| js(m)).collect()));
        }
        use mir::TerminatorKind as T;
        match &term.kind {
            T::Call { func, args, destination, target, .. } => {
                to = to.s("k", "call");
                if let Some((cdid, cargs)) = func.const_fn_def() {
                    to = to.s("callee", &tcx.def_path_str(cdid)).b("local", cdid.is_local());
                    to = to.s("callee_full", &tcx.def_path_str_with_args(cdid, cargs));
                    to = to.r("gargs", arr(cargs.iter().map(|a| js(&a.to_string())).collect()));
                    if let Some(r) = resolve(tcx, did, cdid, cargs) {
                        to = to.s("resolved", &r);
                        // is the resolved instance local?
                        let env = TypingEnv::post_analysis(tcx, did);
                        if let Ok(Some(inst)) = Instance::try_resolve(tcx, env, cdid, cargs) {
                            to = to.b("resolved_local", inst.def_id().is_local());
                        }
                    }
                } else {
                    to = to.s("callee", "<indirect>").s("func", &format!("{:?}", func));
                }
                to = to.r("args", arr(args.iter().map(|a| js(&format!("{:?}", a.node))).collect()));
                to = to.s("dest", &format!("{:?}", destination));
                if let Some(t) = target {
                    to = to.n("target", t.as_u32() as i128);
                }
            }
            T::Assert { cond, expected, msg, target, .. } => {
                use mir::AssertKind as A;
                let what = match &**msg {
                    A::BoundsCheck { .. } => "BoundsCheck".to_string(),
                    A::Overflow(op, ..) => format!("Overflow({:?})", op),
                    A::OverflowNeg(..) => "OverflowNeg".to_string(),
                    A::DivisionByZero(..) => "DivisionByZero".to_string(),
                    A::RemainderByZero(..) => "RemainderByZero".to_string(),
                    other => {
                        let d = format!("{:?}", other);
                        d.chars().take(40).collect()
                    }
                };
                to = to.s("k", "assert").s("what", &what).s("cond", &format!("{:?}", cond)).n("target", target.as_u32() as i128);
            }
            T::SwitchInt { discr, targets } => {
                to = to.s("k", "switch").s("on", &format!("{:?}", discr));
                let mut tv = vec![];
                for (v, t) in targets.iter() {
                    tv.push(arr(vec![format!("{}", v), format!("{}", t.as_u32())]));
                }
                to = to.r("targets", arr(tv)).n("otherwise", targets.otherwise().as_u32() as i128);
            }
            T::Return => to = to.s("k", "return"),
            T::Goto { .. } => to = to.s("k", "goto"),
            T::Drop { .. } => to = to.s("k", "drop"),
            T::Unreachable => to = to.s("k", "unreachable"),
            T::UnwindResume => to = to.s("k", "resume"),
            T::FalseEdge { .. } => to = to.s("k", "falseedge"),
            T::FalseUnwind { .. } => to = to.s("k", "falseunwind"),
            other => {
                let d = format!("{:?}", other);
                let d: String = d.chars().take(40).collect();
                to = to.s("k", "other").s("dbg", &d);
            }
        }
        // normal successors: exclude unwind edges
        let mut succ = vec![];
        let unwind_target = match term.unwind() {
            Some(mir::UnwindAction::Cleanup(b)) => Some(*b),
            _ => None,
        };
        for s in term.successors() {
            if Some(s) == unwind_target {
                continue;
            }
            succ.push(format!("{}", s.as_u32()));
        }
        to = to.r("succ", arr(succ));
        bo = bo.r("term", to.end());
        blocks.push(bo.end());
    }
    o = o.r("blocks", arr(blocks));
    // function items mentioned as values (passed to map/map_or/..., never called directly here)
    struct FnRefs<'tcx> {
        tcx: TyCtxt<'tcx>,
        owner: DefId,
        out: Vec<String>,
    }
    impl<'tcx> mir::visit::Visitor<'tcx> for FnRefs<'tcx> {
        fn visit_const_operand(&mut self, c: &mir::ConstOperand<'tcx>, _l: mir::Location) {
            if let ty::FnDef(d, a) = c.const_.ty().kind() {
                let mut o = O::new().s("callee", &self.tcx.def_path_str(*d)).b("local", d.is_local());
                o = o.r("gargs", arr(a.iter().map(|x| js(&x.to_string())).collect()));
                let env = TypingEnv::post_analysis(self.tcx, self.owner);
                if matches!(self.tcx.def_kind(*d), DefKind::Fn | DefKind::AssocFn) {
                    if let Ok(Some(inst)) = Instance::try_resolve(self.tcx, env, *d, a) {
                        o = o.s("resolved", &self.tcx.def_path_str(inst.def_id())).b("resolved_local", inst.def_id().is_local());
                    }
                }
                self.out.push(o.end());
            }
        }
    }
    let mut fr = FnRefs { tcx, owner: did, out: vec![] };
    mir::visit::Visitor::visit_body(&mut fr, body);
    fr.out.sort();
    fr.out.dedup();
    o = o.r("fnrefs", arr(fr.out));
    o.end()
}

// ---------------------------------------------------------------- impls / adts
fn impl_fact<'tcx>(tcx: TyCtxt<'tcx>, did: DefId, span: Span) -> String {
    let (file, line, macs) = loc(tcx, span);
    let mut o = O::new().s("impl", &tcx.def_path_str(did)).s("file", &file).n("line", line as i128);
    o = o.r("mac", arr(macs.iter().map(|m| js(m)).collect()));
    o = o.s("self_ty", &tcx.type_of(did).instantiate_identity().skip_normalization().to_string());
    if let Some(tr) = tcx.impl_opt_trait_ref(did) {
        let tr = tr.instantiate_identity().skip_normalization();
        o = o.s("trait", &tcx.def_path_str(tr.def_id));
        o = o.s("trait_full", &tr.to_string());
        o = o.r("targs", arr(tr.args.iter().map(|a| js(&a.to_string())).collect()));
    }
    o = o.b("derived", tcx.is_automatically_derived(did));
    let items: Vec<String> = tcx.associated_item_def_ids(did).iter().map(|i| js(&tcx.def_path_str(*i))).collect();
    o = o.r("items", arr(items));
    o.end()
}

fn adt_fact<'tcx>(tcx: TyCtxt<'tcx>, did: DefId, span: Span) -> String {
    let (file, line, _) = loc(tcx, span);
    let adt = tcx.adt_def(did);
    let mut o = O::new()
        .s("adt", &tcx.def_path_str(did))
        .s("kind", if adt.is_enum() { "enum" } else { "struct" })
        .s("file", &file)
        .n("line", line as i128)
        .s("vis", &format!("{:?}", tcx.visibility(did)));
    let mut vs = vec![];
    for v in adt.variants().iter() {
        let mut fs = vec![];
        for f in v.fields.iter() {
            fs.push(
                O::new()
                    .s("name", f.name.as_str())
                    .s("ty", &tcx.type_of(f.did).instantiate_identity().skip_normalization().to_string())
                    .s("vis", &format!("{:?}", tcx.visibility(f.did)))
                    .end(),
            );
        }
        vs.push(O::new().s("name", v.name.as_str()).r("fields", arr(fs)).end());
    }
    o = o.r("variants", arr(vs));
    o.end()
}

// ---------------------------------------------------------------- expanded AST
struct AstV {
    stack: Vec<String>,
    out: Vec<String>,
}

fn attr_strs(attrs: &[rustc_ast::Attribute]) -> Vec<String> {
    attrs
        .iter()
        .filter(|a| !a.is_doc_comment())
        .map(|a| js(&rustc_ast_pretty::pprust::attribute_to_string(a)))
        .collect()
}

impl<'a> rustc_ast::visit::Visitor<'a> for AstV {
    fn visit_item(&mut self, i: &'a rustc_ast::Item) {
        use rustc_ast::ItemKind as I;
        let name: Option<String> = match &i.kind {
            I::Mod(_, id, _) => Some(id.name.to_string()),
            I::Struct(id, ..) | I::Enum(id, ..) => Some(id.name.to_string()),
            I::Fn(f) => Some(f.ident.name.to_string()),
            I::Impl(imp) => Some(format!("impl<{}>", rustc_ast_pretty::pprust::ty_to_string(&imp.self_ty))),
            I::Const(c) => Some(c.ident.name.to_string()),
            _ => None,
        };
        match &i.kind {
            I::Struct(_, _, vd) => {
                let mut fs = vec![];
                for f in vd.fields() {
                    let n = f.ident.map(|x| x.name.to_string()).unwrap_or_default();
                    fs.push(O::new().s("name", &n).r("attrs", arr(attr_strs(&f.attrs))).end());
                }
                let path = format!("{}::{}", self.stack.join("::"), name.clone().unwrap());
                self.out.push(O::new().s("astadt", &path).s("kind", "struct").r("attrs", arr(attr_strs(&i.attrs))).r("fields", arr(fs)).end());
            }
            I::Enum(_, _, ed) => {
                let mut vs = vec![];
                for v in ed.variants.iter() {
                    let mut fs = vec![];
                    for f in v.data.fields() {
                        let n = f.ident.map(|x| x.name.to_string()).unwrap_or_default();
                        fs.push(O::new().s("name", &n).r("attrs", arr(attr_strs(&f.attrs))).end());
                    }
                    vs.push(O::new().s("name", v.ident.name.as_str()).r("attrs", arr(attr_strs(&v.attrs))).r("fields", arr(fs)).end());
                }
                let path = format!("{}::{}", self.stack.join("::"), name.clone().unwrap());
                self.out.push(O::new().s("astadt", &path).s("kind", "enum").r("attrs", arr(attr_strs(&i.attrs))).r("variants", arr(vs)).end());
            }
            _ => {}
        }
        if let Some(n) = name {
            self.stack.push(n);
            rustc_ast::visit::walk_item(self, i);
            self.stack.pop();
        } else {
            rustc_ast::visit::walk_item(self, i);
        }
    }
    fn visit_assoc_item(&mut self, i: &'a rustc_ast::AssocItem, ctxt: rustc_ast::visit::AssocCtxt) {
        let name = match &i.kind {
            rustc_ast::AssocItemKind::Fn(f) => Some(f.ident.name.to_string()),
            _ => None,
        };
        if let Some(n) = name {
            if !i.attrs.is_empty() {
                let path = format!("{}::{}", self.stack.join("::"), n);
                self.out.push(O::new().s("astfn", &path).r("attrs", arr(attr_strs(&i.attrs))).end());
            }
            self.stack.push(n);
            rustc_ast::visit::walk_assoc_item(self, i, ctxt);
            self.stack.pop();
        } else {
            rustc_ast::visit::walk_assoc_item(self, i, ctxt);
        }
    }
    fn visit_expr(&mut self, e: &'a rustc_ast::Expr) {
        if let rustc_ast::ExprKind::FormatArgs(fa) = &e.kind {
            let mut pieces = vec![];
            for p in fa.template.iter() {
                match p {
                    rustc_ast::FormatArgsPiece::Literal(s) => pieces.push(js(s.as_str())),
                    rustc_ast::FormatArgsPiece::Placeholder(_) => pieces.push("{}".to_string()),
                }
            }
            self.out.push(O::new().s("fmt", &self.stack.join("::")).r("pieces", arr(pieces)).end());
        }
        rustc_ast::visit::walk_expr(self, e);
    }
}

fn main() {
    let mut args: Vec<String> = std::env::args().collect();
    // RUSTC_WORKSPACE_WRAPPER form: factdrv <rustc> <args...>
    if args.len() > 1 && (args[1].ends_with("rustc") || args[1].contains("/rustc")) {
        args.remove(1);
    }
    let mut cb = Drv { ast_lines: vec![] };
    rustc_driver::run_compiler(&args, &mut cb);
}
