"""What each registered check claims (source of MANIFEST.json; see tools/gen_manifest.py)."""

CLAIMS = {
    "C20": {
        "text": "Static panic-freedom argument over the resolved call graph: every panic edge (MIR assert, unwrap/expect/panic!/assert!, "
                "indexing and other aborting library calls) reachable from the statement's entry points is enumerated from MIR and must be in a "
                "reviewed table with the control depth it had when reviewed; types with a validating constructor must deserialise through a "
                "panic-free validating conversion; struct literals of shape-constrained types are confined to reviewed constructors. "
                "Quantifies over code sites, which is how 'for any input' is reached without running anything.",
        "design_ref": "DESIGN.md §4 C20",
        "note": "Trusted: rustc MIR, the reviewed reasons in rules/c20_sites.json (classes L/I/R/K/S are human-reviewed; machine-checked part is "
                "table membership + dominating-branch count), the denylist of aborting externals. Not decided: aborts inside dependencies outside "
                "the documented ranges, allocation failure, recursion depth.",
        "technique": "MIR call-graph panic-edge inventory + dominance (control-depth) check + serde-attribute lint + who-may-construct rule",
    },
}

_PENDING = "check not built yet in this session (build in progress; see DESIGN.md §4 for the planned static rules)"
NOT_APPLICABLE = [{"property_id": "C%02d" % i, "reason": _PENDING} for i in range(1, 21) if "C%02d" % i not in CLAIMS]
