"""What each registered check claims (source of MANIFEST.json; see tools/gen_manifest.py)."""

CLAIMS = {
    "C15": {
        "text": "bsplmatrix is evaluated as an array comprehension and must be zeros((len(tau), n)) with exactly three write families (row 0: order "
                "left_n at tau[0]; last row: order right_n at tau[last]; interior rows: values), column i <-> basis i; csolve's two count guards give Err "
                "with the spline untouched and success stores Some(fdsolve(bsplmatrix(tau,left_n,right_n), y, allow_lsq)); every ppdnev_single* is "
                "inner(c, [B_i^(m)(x)]_{i<n}) (Err before solving; the two mixed-kind methods always Err); the dual liftings equal the unary chain rule "
                "with f, f', f'' = B^(m), B^(m+1), B^(m+2) at x.real; the 9-case mapped_value type table."
                " Also included: C13's and C14's rules and R15.6 (Python-facing spline methods: order 0 vs m, float promotion without variables, kind refusal).",
        "design_ref": "DESIGN.md §4 C15",
        "note": "Not decided: interpolation / polynomial reproduction as numerical facts (rest on C13's undecided part).",
        "technique": "array-comprehension semantics; explore() of &mut self methods; oracle composition formula; case tables",
    },
    "C14": {
        "text": "Recurrence conformance: bsplev_single_f64 and bspldnev_single_f64 are flattened into their complete path sets (8 resp. 10 paths, for "
                "org_k given or defaulted) and must equal the Cox-de Boor decision list with the support short-circuit and the right-end rule, resp. "
                "the derivative recursion (m=0 -> value, k=1 or m>=k -> 0, factor k-1, Some(org_k) on every recursive call); every quotient's "
                "denominator must be the difference its guard tests. Non-negativity, locality and partition of unity are consequences of the "
                "recurrence and are not separately evaluated."
                ' Also included: R15.4 (the basis at a dual abscissa) and R15.6 (the vectorised evaluator and the Python-facing spline methods reach the kernels with their arguments unchanged). Path sets are minimised, so the order of independent tests does not matter. R15.1 is included too (the collocation matrix evaluates basis i at site j for every site), and R15.3 (the evaluator sums all n basis functions).',
        "design_ref": "DESIGN.md §4 C14",
        "note": "Not decided: values at concrete knots/points, rounding. A behaviour-preserving restructuring of the kernels' decision order can trip R14.1 (fail closed).",
        "technique": "path-set equality of symbolic summaries against the recurrence; guard/denominator agreement",
    },
    "C13": {
        "text": "Claimed for structure only: both eliminations are evaluated as ordered lists of guarded update statements on (A, b); the generic and the "
                "float-matrix implementation must have identical lists (sibling agreement — a change to one not mirrored in the other is reported), the "
                "row swap must be immediately followed by the rhs swap with the same (j,k) under j != k with k = argabsmax(A[j.., j]) + j, argabsmax "
                "must compare absolute values; back substitution is x[i] = (b[i] - u[i,i+1..].x[i+1..])/u[i,i] descending in both; with allow_lsq the "
                "system is (A^T A, A^T b) from the same transposed operand. Numerical correctness of elimination is NOT decided."
                ' Also: row_swap/el_swap exchange whole rows/elements (R13.1); the AD rules and the sum rules R19.4/R19.5 are included (inner products are Iterator::sum). R13.6: the Python-facing solver entry points hand a (reshaped row-major), b and allow_lsq to the core solver unchanged and return its result as it is. R13.7: the product helpers (inner = sum of a_i*b_i over the zipped pair; matrix products as inner products over rows x cols, row-major, in shape (rows(a), cols(b)); outer products; float crossovers) are evaluated with ndarray lanes modelled.',
        "design_ref": "DESIGN.md §4 C13",
        "note": "Not decided (declared): that the returned vector solves the system in value and derivatives for all well-conditioned inputs; row-order independence.",
        "technique": "sibling cross-check of canonical update-statement lists; call pairing with index agreement; idiom check",
    },
    "C09": {
        "text": "Partial correctness (safety) of the FX market: try_new's paths are flattened — empty / under- / over-specified / inconsistent-settlement "
                "inputs each give Err and create_fx_array is reached only when all are false (settlement guard checked as the exact forall-shape); every "
                "write to the rate matrix is chain-typed (quote at [idx(p0),idx(p1)], reciprocal at the mirror, M[p,n]*M[n,q] at [p,q] with one inner "
                "index) and paired with edge writes; crosses only where the edge entry is 0; Ok(true) only under edges.sum()==n*n, exhausted "
                "candidates give Err; lookup reads [idx(lhs), idx(rhs)] in all variants. By induction every entry of an Ok market is the product of "
                "quotes along a path with inverses on reversed edges, quoted pairs returned as quoted."
                " Also included: C10's state rules R10.3-R10.6, the FXRates loader rule (S20.2: a stored market goes through try_new) and R10.7 (Python-facing FXRates methods delegate unchanged). S16.1 is included (a stored market's quotes come back exactly: exact float text round trip); the starting-array builders are found by what they return, not by name. R09.8: the edge-count capacity; the Ccy/FXPair loader rules are included. R09.9: a quote is stored as given (FXRate::try_new, and Python's FXRate(...) is that constructor). R09.10: == and hash of Ccy and FXPair are the derived structural ones (or a hand-written field-by-field conjunction). The fx_array / fx_vector exporters of R10.7 are included. The operator alignment rules R03.1/R03.3/R03.5 are included (a cross is a product of quotes that may be Dual/Dual2 with nested variable sets).",
        "design_ref": "DESIGN.md §4 C09",
        "note": "Not decided (declared): that every valid tree is accepted (liveness of the recursive fill-in); order/base independence as executed; rounding.",
        "technique": "path flattening of symbolic summaries; array-comprehension semantics of indexed writes (chain typing); quantifier shapes",
    },
    "C10": {
        "text": "Naming protocol checked on both sides of the FFI (Rust format template + Display(FXPair) vs the Python f-string, parsed with ast); quote i "
                "is lifted with the name formatted from pair i; refusal is atomic (MIR: no Err-producing block reachable from a block writing through "
                "self in update/set_ad_order); update refuses unknown pairs (forall/exists shape), replaces the slot found by pair equality, rebuilds on "
                "currencies[0] from the full list and replaces all three fields; set_ad_order's 9 cases: identity / rebuild at the target order / "
                "value-preserving element projection into n x n."
                ' Also included: the AD operator and alignment rules (C01/C02/C03) and R10.7 (Python-facing methods, incl. the fx_array / fx_vector exporters: the stored matrix read row by row for every kind); R09.1 and R09.10 are included.',
        "design_ref": "DESIGN.md §4 C10",
        "note": "Not decided: numeric sensitivities on concrete markets (C01/C02 along C09's chain typing). Trusted: lib/cel.py, MIR place syntax.",
        "technique": "cross-language constant agreement; MIR reachability (no write before last fallible point); symbolic case evaluation with explore()",
    },
    "C08": {
        "text": "get_imm's seven arms evaluated per weekday of the 1st (day = 15 + ((2 - wd) mod 7)); get_roll's five "
                "arms (Int, EoM -> 31 capped, SoM -> 1, IMM, Unspecified -> Err); add_months rewrites Unspecified to the start date's own day and feeds "
                "get_roll then roll with its own modifier/settlement; get_roll_by_day's three paths (valid / retry day-1 while day>28 / abort); "
                "get_eom's downward search from 31; is_leap_year = Feb 29 exists; is_imm/is_eom. R08.5 decides the year/month carry of add_months by "
                "value-set analysis of its path formulas: Q = trunc(months/12) stays symbolic, t = month + remainder ranges over -10..23, each path's "
                "feasible t-set is computed from its branch conditions and on it 12*carry + month' = t with month' in 1..12; the sets partition the range."
                ' Also included: R05.6 (Python-facing calendar methods incl. add_months).',
        "design_ref": "DESIGN.md §4 C08, §10.3",
        "note": "Assumed: chrono's month() in 1..=12, |months| < 2^31. Not decided: Gregorian validity (chrono). Trusted: chrono::NaiveDate::from_ymd_opt.",
        "technique": "exhaustive case evaluation of match tables and loop summaries over typed HIR",
    },
    "C06": {
        "text": "UnionCal's predicates are evaluated symbolically and put in negation normal form: is_weekday = forall members, is_holiday = exists "
                "member, is_settlement = true without settlement calendars else forall settlement calendars is_bus_day (each over its own field); "
                "NamedCal and every CalType variant forward to the wrapped calendar; Cal's leaves are the mask/holiday membership tests; try_new's three "
                "paths (lower-case before split, >2 parts Err, part 0 -> calendars, part 1 -> settlement) and parse_cals (one lookup per piece, ? "
                "propagation); the behavioural equalities quantify over 1970-01-01..2200-12-31 and require both agreements on the same date."
                ' Also included: R05.6 (Python-facing calendar methods). R06.5: the Python-facing __eq__ of the three calendar classes is the core == for every kind of right operand. The NamedCal loader rule (S20.2) and the storage rules of the calendar types (S16.2/3/7) are included; so is the table wiring of C07 (R07.1/R07.2: every name resolves to its own table; fed = nyc minus Good Friday). R06.6: UnionCal::new stores its two lists as given. R07.5 (Cal::new stores the given holidays and exactly the weekdays of the given mask) is included.',
        "design_ref": "DESIGN.md §4 C06",
        "note": "Not decided: nothing about concrete dates (C07). Trusted: lib/cel.py quantifier model; cal_date_range being calendar independent is checked.",
        "technique": "symbolic evaluation with quantifier normal forms (NNF); path flattening; delegation tables",
    },
    "C04": {
        "text": "Each adjustment rule's body is summarised symbolically (while loops as iterate(init, condition, step)) and must be exactly the textbook "
                "idiom: one-day linear search in its direction on is_bus_day; the settlement search with the same direction in all three places; the "
                "four modified rules as 'F(date), unless the month differs then G(original date)' with F, G opposite members of one family; both "
                "dispatch tables per modifier (Act = identity) and roll()'s table selection; no calendar type overrides a provided method. The idiom's "
                "postcondition is the statement; calendars never enter the argument, so it holds for arbitrary calendars."
                " Also included: C06's predicate rules R06.0-R06.2 and the Python-facing calendar methods (R05.6: arguments handed to the core methods unchanged); R06.3/R06.6: a named or explicit combination is built from exactly the calendars named or given; R07.5: Cal::new keeps the given working week. The storage rules S16.2/S16.3/S16.7 for the calendar types are included (a calendar that was stored and loaded is the same calendar).",
        "design_ref": "DESIGN.md §4 C04",
        "note": "Not decided: termination; dates outside chrono's range. Trusted: lib/cel.py loop summarisation; chrono's day arithmetic.",
        "technique": "symbolic summarisation of loops and dispatch tables over typed HIR, compared with idiom normal forms",
    },
    "C05": {
        "text": "add_bus_days is flattened to its paths: a non-business start gives Err first; under days<0 the counted loop is 'c from 0, step "
                "roll_backward(x-1 day), c-1, while c>days' and the settlement roll is backward, otherwise the forward mirror (n=0 forward); lag's four "
                "cases with the +/-1 count adjustment; bus_date_range = collect while x<=end stepping add_bus_days(x,1,false); add_days = signed shift "
                "then roll with arguments passed through. Integer comparisons are normalised (a<=b == a<b+1), so equivalent spellings are accepted."
                " Also included: all of C04's rules and R05.6 (Python-facing calendar methods delegate unchanged). R05.4 classifies lag's paths by the sign region of `days` over the whole i8 range; counted loops and range folds share one `repeat` form.",
        "design_ref": "DESIGN.md §4 C05",
        "note": "Not decided: the count/inverse law evaluated on a concrete calendar (follows from the idiom + C04), termination, i8 extremes (C20).",
        "technique": "path flattening of symbolic summaries (loops as iterate forms) compared with expected path sets",
    },
    "C03": {
        "text": "Alignment discipline decided structurally: to_new_vars is evaluated for every relationship hint and must be relabelling only for "
                "Arc/ValueEquivalent and otherwise a gather-by-name with zero default (one shared index vector for both Hessian axes); to_union_vars "
                "is evaluated per relationship and must return both numbers on one shared list (union for Difference); vars_cmp's guards must imply "
                "each relationship (ordered equality, not set equality); in every match on a vars_cmp result only Arc/Value arms may mix two "
                "numbers' arrays directly; hints must be the vars_cmp result of the same operands; equality compares value then aligned arrays. "
                "If every mix is on operands aligned by name with zero default onto a list containing the union, results depend on names only."
                ' Also included: the Number container tables (R18.3), Sum (R19.4) and the Python-facing operators incl. __eq__ (R18.4), which must hand operands to the by-name core operators unchanged. R03.8: new_from/try_new_from are the plain constructor followed by to_new_vars(other.vars(), None), vars_from is try_new_from. Included: the dual-number cases of R20.6 (constructors and loaders establish matching shapes) and the storage rules S16.2/3/7 of the two number types.',
        "design_ref": "DESIGN.md §4 C03",
        "note": "Trusted: IndexSet/Arc semantics, lib/cel.py array-comprehension semantics. Nothing dynamic is claimed.",
        "technique": "symbolic evaluation of gather loops as array comprehensions; dataflow guard on match arms; quantifier-shape recognisers",
    },
    "C17": {
        "text": "gradient1/gradient2/gradient1_manifold are evaluated symbolically: stored arrays are returned unchanged only under Arc/ValueEquivalence "
                "with the requested list, otherwise entry i is the stored derivative at the position of requested[i] in the stored list (zero if absent) — "
                "order asked = order answered; factor 2 on both gradient2 paths and in manifold rows; manifold entries are (dual[idx_i], 2*dual2[idx_i,.], 0) "
                "on the requested list, zero number for absent names."
                " Also included: the AD operator rules and C03's alignment rules (the manifold product rule rests on Dual2 multiplication on numbers aligned by name).",
        "design_ref": "DESIGN.md §4 C17",
        "note": "Not decided: the product-rule identity on concrete numbers; requested lists with repeated names. Trusted: lib/cel.py array semantics.",
        "technique": "symbolic evaluation of guarded indexed writes in loops (array comprehension normal forms)",
    },
    "C11": {
        "text": "The three two-point formulas are evaluated symbolically (generic over the number type) and must equal their closed forms incl. the "
                "first-interval rule of the zero-rate formula; the flat rules are compared as canonical (condition, value) pairs; every interpolator "
                "must feed nodes index/index+1 of its own map (x0 from index 0) to its own formula in order, with index = node_index = "
                "index_left(keys, ts, None); CurveDF::try_new sorts on every path to construction and is the only constructor."
                ' Also: R11.5 (index_left as the bisection recurrence, judged per region of list lengths), R11.6 (node keys converted exactly as the query date), R11.4 widened to every CurveDF construction incl. the loader, R12.2 (sort before tagging) and R12.4 (the Python-facing Curve delegates unchanged). R11.7: first_key()/keys()/sort_keys() of the node map do the same for all three kinds. R11.8: CurveDF::node_index/interpolated_value are those of the interpolator, on the nodes of the curve itself.',
        "design_ref": "DESIGN.md §4 C11",
        "note": "Not decided: index_left (recursive bisection) — which interval a date falls in, clamping; 'between the nodes' is a numeric consequence. Trusted: lib/cel.py.",
        "technique": "symbolic normalisation of typed HIR vs closed forms; MIR must-pass-through (sort before construct); who-may-construct",
    },
    "C12": {
        "text": "CurveDF::set_ad_order is evaluated for all 9 (target, stored) cases with the node map as a symbolic iterator pipeline: keys unchanged, "
                "values through value-preserving conversions, float nodes raised with exactly tag vars[i] by enumerate index over the sorted map, "
                "vars = id+'0'.. ; nodes_into_order sorts before enumerating (MIR dominance) and tags the same way; index_value is base/curve value with "
                "exactly 0 strictly before the first node and Err without a base."
                ' Also included: R12.4 (Python-facing Curve: one delegation, no re-tagging detour) and the AD rules. R11.4 is included (the sort of the stored nodes is a must-pass-through on every construction path: \'i-th node in date order\'). R17.1/R17.2 (gradient read-back by name) are included.',
        "design_ref": "DESIGN.md §4 C12",
        "note": "Not decided: numeric gradients/Hessians of looked-up values (follow from C11's generic formulas + C01/C02). Trusted: lib/cel.py Seq model.",
        "technique": "exhaustive case evaluation of match tables with a symbolic iterator model; MIR dominance",
    },
    "C18": {
        "text": "Kind-case evaluation of every match table: set_order/set_order_clone (9 cases each, agreeing), every From impl among f64/Dual/Dual2/"
                "Number, new(f, vars), and every operator/comparison on the Number container for all 9 (or 3) kind cases are evaluated symbolically with "
                "the constructor of the operand known; the result must be the right variant wrapping exactly the contained types' rule (oracle form), "
                "values untouched, and exactly the (Dual,Dual2)/(Dual2,Dual) cases must diverge. Enumerates all cases of finite tables — complete for them."
                " Also: R18.4 — every Python-facing arithmetic/comparison operator of Dual/Dual2, for every kind of the other operand, is the core operator in the right operand order (or Err); `%` is compared with the contained type's own `%` (not with a hand-written formula). Any other two-operand method of the container (abs_sub) is held to the same table. Included: the container's Sum, identities and sign/zero tests (C19 R19.4-R19.6).",
        "design_ref": "DESIGN.md §4 C18",
        "note": "Trusted: lib/cel.py (structural match evaluation), lib/oracle.py. Refusal = panic! (divergence). Type-level refusal of Dual+Dual2 is a compile-fail witness (thorough tier, when built).",
        "technique": "exhaustive case evaluation of match tables over typed HIR (symbolic), compared with the calculus oracle",
    },
    "C19": {
        "text": "partial_cmp impls are f64::partial_cmp of the two values in operand order and no other PartialOrd method is overridden; abs is the "
                "piecewise flip of all fields; every % impl equals the oracle row a - trunc(a/b)*b in value and derivatives; Sum is fold(zero,+) from a "
                "variable-free zero; zero()/one() are variable-free constants, neutral by the oracle rows."
                ' Also: R19.1b (comparisons on the Number container), the quotient of `%` is trunc of one f64 division (R19.3 side condition), and the number-surface rules R18.3/R18.4. The alignment rules (C03 R03.3/R03.5: by-name gather of gradients and Hessians) are included. The container: Sum for Number is one fold from F64(0.0) with the container\'s own +, and Number::zero()/one() are the plain floats. R19.6: signum() is the variable-free constant signum(value), is_positive()/is_negative() are the sign bit of the value, is_zero() is `self == zero()`, and the container forwards each per kind.',
        "design_ref": "DESIGN.md §4 C19",
        "note": "Trusted: lib/cel.py, lib/oracle.py. Not decided: NaN ordering; abs exactly at zero.",
        "technique": "symbolic normalisation of typed HIR against a calculus oracle; idiom recognition (fold-from-zero)",
    },
    "C01": {
        "text": "Operator-rule conformance: every one of the generated impls of + - * / neg, pow(f64), exp, log, norm_cdf, inv_norm_cdf on Dual "
                "(all owned/borrowed/float operand mixes, both arms of the variable-alignment match) is rewritten to a canonical sum of monomials "
                "with exact rational coefficients and must equal the form generated from an independent 12-row derivative table; all 48 operand "
                "mixes must exist; operand-swapping macro only for + and *. This decides that each local rule is the calculus rule as an identity "
                "over the reals for every variant — a site-quantified argument the sampled tests cannot give. Composition is by induction (C03)."
                " Also included (necessary conditions at the surface a user touches): the Number container's operator tables (R18.3), Sum as a fold with + (R19.4), the Python-facing operators (R18.4), gradient read-back (R17.1) and C03's alignment rules. R19.2 (abs) is included, and R18.1/R18.2 (tagging a float at an order; kind conversions).",
        "design_ref": "DESIGN.md §4 C01, §2 oracle",
        "note": "Trusted: lib/cel.py normaliser, lib/oracle.py table. Not decided: IEEE rounding, library kernels (atoms), domain edges.",
        "technique": "symbolic normalisation of typed HIR (term rewriting) against a calculus oracle; impl-table completeness",
    },
    "C02": {
        "text": "As C01 for Dual2 including the half-Hessian (symmetrised cross term, 1/2 convention), plus sibling agreement of value/gradient with "
                "the first-order operator and field-flow identity of the Dual<->Dual2 conversions."
                " Also included: R18.3, R19.4, R18.4 (Number container, Sum, Python-facing operators), C17's read-back rules and C03's alignment rules. R19.2 (abs negates value, gradient and Hessian together) is included; so is the manifold rule R17.3 (the gradient as second-order numbers keeps the requested names in the requested order). R18.1/R18.2 (tagging a float at an order; kind conversions) are included.",
        "design_ref": "DESIGN.md §4 C02",
        "note": "Trusted: lib/cel.py, lib/oracle.py. Not decided: rounding, kernels, symmetry of user-supplied asymmetric Hessians; read-back factor 2 is in C17.",
        "technique": "symbolic normalisation of typed HIR against a calculus oracle; sibling cross-check",
    },
    "C07": {
        "text": "Decided outright on constant data: the name->table wiring is read from typed HIR, every HOLIDAYS/WEEKMASK literal from the const items, "
                "and the weekday set of each fully published calendar (tgt,nyc,fed,ldn,stk,osl,zur) must equal the set generated by interpreting the "
                "repository's own declarative Holiday(...) rule lists over 1970-2200 (the scripts are parsed with ast, never executed); partial "
                "calendars must contain every weekday occurrence of their interpretable rules; the nine fixing histories must equal the calendars' "
                "business days over their span. All ~29 000 literals and all 14 names are covered on every run."
                " Also included: Cal's leaf membership tests (R06.0, R06.2) and the range enumeration used by the back-test (R05.1, R05.5, R04.1, R04.5). The storage rules of the calendar types are included (C16 S16.2/S16.3/S16.7 for calendars::calendar::*: a restored calendar is the stored one). Name-to-table wiring and plumbing are obtained by evaluating the getters on each literal name. The exported get_named_calendar is get_calendar_by_name(name) with the name as given. R06.3 (a combined name is parsed piece by piece through get_calendar_by_name, every time) is included. The holidays getters handed to Python return every stored holiday (for a union: the sorted union over all members).",
        "design_ref": "DESIGN.md §4 C07",
        "note": "Trusted: lib/holidays.py (interpreter of the pandas Holiday subset; reproduces every fully interpretable table exactly), python ast/csv. "
                "Not decided: whether the scripts themselves match the central banks' publications; holidays produced by script-local observance "
                "functions in tyo/wlg.",
        "technique": "constant-table analysis over typed HIR + declarative-rule interpretation + set comparison",
    },
    "C16": {
        "text": "Serialisation configuration lint: the resolved serde_json feature set must give exact float text; every field of every serialisable "
                "type travels or is rebuilt by the named constructor inside a data-model conversion that passes stored state through unchanged; data "
                "models mirror the serialised fields; the tagged from_json entry point has a variant per writer and each writer wraps its own type; "
                "pickling pairs serialise/restore the whole object; no bincode-hostile serde attribute; equality covers the serialised fields. These "
                "are the structural necessary conditions of the round trip; equality of concrete objects is not evaluated."
                " Also: S16.9 (a validating loader's Ok path demands exactly the shape invariant, so every constructible object loads back) and R10.4 (after update() the stored quotes are the updated ones). S16.10: every constructor code a pickle carries (__getnewargs__ of the u8-coded enums) is accepted by #[new]; S16.7 also requires that a rebuilding conversion returns the constructor's result unchanged. R06.3 is included (a named calendar stores the name it was given and parsed from). S16.11: the loader of a type without a shape invariant (curves, plain/union calendars, quotes) has no refusing or aborting path.",
        "design_ref": "DESIGN.md §4 C16",
        "note": "Trusted: serde/serde_json/bincode/ndarray/indexmap serde implementations, cargo metadata. Not decided: numerical equality after a round "
                "trip of concrete objects.",
        "technique": "serde attribute / derive / impl-table lint + cargo feature resolution + HIR shape rules on conversions and pickling methods",
    },
    "C20": {
        "text": "Static panic-freedom argument over the resolved call graph: every panic edge (MIR assert, unwrap/expect/panic!/assert!, "
                "indexing and other aborting library calls) reachable from the statement's entry points is enumerated from MIR and must be in a "
                "reviewed table with the control depth it had when reviewed; types with a validating constructor must deserialise through a "
                "panic-free validating conversion; struct literals of shape-constrained types are confined to reviewed constructors. "
                "Quantifies over code sites, which is how 'for any input' is reached without running anything."
                ' R20.1 judges sites per root function (closures and extracted private helpers absorbed) as a multiset against the reviewed budget; every row whose reason rests on a guard cites the rule deciding that guard, and C20 includes those rules (R15.2, R08.2/3/5, R03.1/3/5, R09.1/2, R05.4/5, R06.3, R10.4/6, R11.4). R20.6: every Ok path of a validating constructor/loader carries the shape invariant. Site rows whose review relies on a loop (`inside for i in 0..n`) record a minimum loop depth: a site hoisted out of its loop is reported. The entry list includes the pyo3 wrappers of the same operations (what a Python caller reaches). R13.3 (the least-squares shapes) and the storage rules S16.2/3/7 of every type are included.',
        "design_ref": "DESIGN.md §4 C20",
        "note": "Trusted: rustc MIR, the reviewed reasons in rules/c20_sites.json (classes L/I/R/K/S are human-reviewed; machine-checked part is "
                "table membership + dominating-branch count), the denylist of aborting externals. Not decided: aborts inside dependencies outside "
                "the documented ranges, allocation failure, recursion depth.",
        "technique": "MIR call-graph panic-edge inventory + dominance (control-depth) check + serde-attribute lint + who-may-construct rule",
    },
}

_PENDING = "check not built yet in this session (build in progress; see DESIGN.md §4 for the planned static rules)"
NOT_APPLICABLE = [{"property_id": "C%02d" % i, "reason": _PENDING} for i in range(1, 21) if "C%02d" % i not in CLAIMS]
