//! Compile-fail witnesses with compiling twins (engine E8). Each `compile_fail,EXXXX` block must fail with exactly that error
//! code (nightly rustdoc checks the code); its twin differs only by the offending line and must compile, so a witness whose
//! path is merely wrong cannot pass.

/// C18 R18.4 — combining a first-order with a second-order number is refused by the type system.
pub mod c18 {
    /// ```compile_fail,E0277
    /// use rateslib::dual::{Dual, Dual2};
    /// let a = Dual::new(1.0, vec!["x".to_string()]);
    /// let b = Dual2::new(2.0, vec!["x".to_string()]);
    /// let _ = a + b;
    /// ```
    /// ```no_run
    /// use rateslib::dual::{Dual, Dual2};
    /// let a = Dual::new(1.0, vec!["x".to_string()]);
    /// let b = Dual::new(2.0, vec!["x".to_string()]);
    /// let _ = a + b;
    /// ```
    pub struct AddDualDual2;

    /// ```compile_fail,E0277
    /// use rateslib::dual::{Dual, Dual2};
    /// let a = Dual::new(1.0, vec!["x".to_string()]);
    /// let b = Dual2::new(2.0, vec!["x".to_string()]);
    /// let _ = &b - &a;
    /// ```
    /// ```no_run
    /// use rateslib::dual::{Dual, Dual2};
    /// let a = Dual2::new(1.0, vec!["x".to_string()]);
    /// let b = Dual2::new(2.0, vec!["x".to_string()]);
    /// let _ = &b - &a;
    /// ```
    pub struct SubDual2Dual;

    /// ```compile_fail,E0277
    /// use rateslib::dual::{Dual, Dual2};
    /// let a = Dual::new(1.0, vec!["x".to_string()]);
    /// let b = Dual2::new(2.0, vec!["x".to_string()]);
    /// let _ = &a * b;
    /// ```
    /// ```no_run
    /// use rateslib::dual::{Dual, Dual2};
    /// let a = Dual::new(1.0, vec!["x".to_string()]);
    /// let b = Dual::new(2.0, vec!["x".to_string()]);
    /// let _ = &a * b;
    /// ```
    pub struct MulDualDual2;

    /// ```compile_fail,E0277
    /// use rateslib::dual::{Dual, Dual2};
    /// let a = Dual::new(1.0, vec!["x".to_string()]);
    /// let b = Dual2::new(2.0, vec!["x".to_string()]);
    /// let _ = b / &a;
    /// ```
    /// ```no_run
    /// use rateslib::dual::{Dual, Dual2};
    /// let a = Dual2::new(1.0, vec!["x".to_string()]);
    /// let b = Dual2::new(2.0, vec!["x".to_string()]);
    /// let _ = b / &a;
    /// ```
    pub struct DivDual2Dual;

    /// ```compile_fail,E0277
    /// use rateslib::dual::{Dual, Dual2};
    /// let a = Dual::new(1.0, vec!["x".to_string()]);
    /// let b = Dual2::new(2.0, vec!["x".to_string()]);
    /// let _ = a == b;
    /// ```
    /// ```no_run
    /// use rateslib::dual::{Dual, Dual2};
    /// let a = Dual::new(1.0, vec!["x".to_string()]);
    /// let b = Dual::new(2.0, vec!["x".to_string()]);
    /// let _ = a == b;
    /// ```
    pub struct EqDualDual2;
}

/// C20 R20.3 — the shape-constrained types cannot be built or reshaped from outside the crate: fields are not public.
pub mod c20 {
    /// ```compile_fail,E0451
    /// use rateslib::dual::Dual;
    /// let z = Dual::new(1.0, vec![]);
    /// let _ = Dual { real: 1.0, ..z };
    /// ```
    /// ```no_run
    /// use rateslib::dual::Dual;
    /// let z = Dual::new(1.0, vec![]);
    /// let _ = z.clone();
    /// ```
    pub struct DualLiteral;

    /// ```compile_fail,E0616
    /// use rateslib::dual::Dual2;
    /// let mut z = Dual2::new(1.0, vec!["x".to_string()]);
    /// z.dual = ndarray::Array1::zeros(3);
    /// ```
    /// ```no_run
    /// use rateslib::dual::{Dual2, Gradient1};
    /// let z = Dual2::new(1.0, vec!["x".to_string()]);
    /// let _ = z.dual();
    /// ```
    pub struct Dual2FieldWrite;

    /// ```compile_fail,E0616
    /// use rateslib::fx::rates::Ccy;
    /// let c = Ccy::try_new("usd").unwrap();
    /// let _ = c.name;
    /// ```
    /// ```no_run
    /// use rateslib::fx::rates::Ccy;
    /// let c = Ccy::try_new("usd").unwrap();
    /// let _ = c;
    /// ```
    pub struct CcyField;

    /// ```compile_fail,E0616
    /// use rateslib::splines::PPSpline;
    /// let mut s = PPSpline::<f64>::new(3, vec![0., 0., 0., 1., 1., 1.], None);
    /// s.n = 99;
    /// ```
    /// ```no_run
    /// use rateslib::splines::PPSpline;
    /// let s = PPSpline::<f64>::new(3, vec![0., 0., 0., 1., 1., 1.], None);
    /// let _ = s.n();
    /// ```
    pub struct SplineField;
}
