#!/bin/sh
# Build the fact extractor and warm the dependency cache (offline). Every check self-heals if this was not run.
set -e
cd "$(dirname "$0")"
export CARGO_NET_OFFLINE=true
python3 - <<'PY'
import sys
sys.path.insert(0, "lib")
import facts
facts.ensure_driver()
p, k = facts.ensure_facts()
print("setup: driver built, facts", p)
PY
