"""Seeded variants for the both-ways self-test: each is a small edit that compiles, keeps the repo's tests green (by construction: the
suite does not exercise the touched site) and breaks one rule instance. (file, old, new) replacements; `expect` is a regex the reported key must match."""

VARIANTS = [
    # ---- C01 / C02 (E2 + oracle)
    dict(name="c02_f64_sub_dual2_hessian_not_negated", prop="C02", expect=r"R02\.1:.*Sub<&?Dual2> for &?f64>::sub:dual2",
         edits=[("rust/dual/dual_ops/sub.rs", "        dual2: -(b.dual2.clone()),", "        dual2: b.dual2.clone(),")]),
    dict(name="c01_mul_dual_swapped_factor", prop="C01", expect=r"R01\.1:.*Mul.*:dual",
         edits=[("rust/dual/dual_ops/mul.rs", "                dual: &x.dual * y.real + &y.dual * x.real,\n                vars: Arc::clone(&x.vars),\n            }\n        }\n    }\n});\n\n// impl Mul for Dual2",
                 "                dual: &x.dual * y.real + &y.dual * y.real,\n                vars: Arc::clone(&x.vars),\n            }\n        }\n    }\n});\n\n// impl Mul for Dual2")]),
    dict(name="c01_log_gradient_wrong_power", prop="C01", expect=r"R01\.1:.*MathFuncs.*log:dual",
         edits=[("rust/dual/dual_ops/math_funcs.rs", "            dual: (1.0 / self.real) * &self.dual,\n        }\n    }\n    fn norm_cdf(&self) -> Self {\n        let n = Normal::new(0.0, 1.0).unwrap();\n        let base = n.cdf(self.real);\n        let scalar = 1.0 / (2.0 * PI).sqrt() * (-0.5_f64 * self.real.pow(2.0_f64)).exp();\n        Dual {",
                 "            dual: (1.0 / (self.real * self.real)) * &self.dual,\n        }\n    }\n    fn norm_cdf(&self) -> Self {\n        let n = Normal::new(0.0, 1.0).unwrap();\n        let base = n.cdf(self.real);\n        let scalar = 1.0 / (2.0 * PI).sqrt() * (-0.5_f64 * self.real.pow(2.0_f64)).exp();\n        Dual {")]),
    dict(name="c02_pow_hessian_missing_half", prop="C02", expect=r"R02\.1:.*Pow<f64> for &Dual2>::pow:dual2",
         edits=[("rust/dual/dual_ops/pow.rs", "        let coeff2 = 0.5 * power * (power - 1.) * self.real.powf(power - 2.);\n        let beta_cross = fouter11_(&self.dual.view(), &self.dual.view());\n        Dual2 {\n            real: self.real.powf(power),\n            vars: Arc::clone(self.vars()),",
                 "        let coeff2 = power * (power - 1.) * self.real.powf(power - 2.);\n        let beta_cross = fouter11_(&self.dual.view(), &self.dual.view());\n        Dual2 {\n            real: self.real.powf(power),\n            vars: Arc::clone(self.vars()),")]),
    dict(name="c02_from_dual2_drops_gradient", prop="C02", expect=r"R02\.4:From<&Dual2> for Dual",
         edits=[("rust/dual/dual_ops/from.rs", "            dual: value.dual.clone(),\n        }\n    }\n}\n\nimpl From<f64> for Dual2", "            dual: value.dual.clone() * 1.0000001,\n        }\n    }\n}\n\nimpl From<f64> for Dual2")]),
    # ---- C18 / C19
    dict(name="c18_number_sub_operands_swapped", prop="C18", expect=r"R18\.3:.*Sub.*Number.*\[Dual,F64\]",
         edits=[("rust/dual/dual_ops/sub.rs", "(Number::Dual(d), Number::F64(f2)) => Number::Dual(d - f2),", "(Number::Dual(d), Number::F64(f2)) => Number::Dual(f2 - d),")]),
    dict(name="c18_set_order_clone_drops_vars", prop="C18", expect=r"R18\.1:set_order_clone\(F64->Two\)",
         edits=[("rust/dual/dual_ops/convert.rs", "(Number::F64(f), ADOrder::Two) => Number::Dual2(Dual2::new(*f, vars)),", "(Number::F64(f), ADOrder::Two) => Number::Dual2(Dual2::new(*f, vec![])),")]),
    dict(name="c18_mixed_kinds_computed", prop="C18", expect=r"R18\.3:.*Mul.*\[Dual,Dual2\]",
         edits=[("rust/dual/dual_ops/mul.rs", '(Number::Dual(_), Number::Dual2(_)) => {\n            panic!("Cannot mix dual types: Dual * Dual2")\n        }', "(Number::Dual(d), Number::Dual2(d2)) => Number::Dual2(Dual2::from(d) * d2),")]),
    dict(name="c19_abs_keeps_hessian_sign", prop="C19", expect=r"R19\.2:.*Dual2.*abs",
         edits=[("rust/dual/dual_ops/signed.rs", "                dual2: -1.0 * &self.dual2,", "                dual2: self.dual2.clone(),")]),
    dict(name="c19_rem_rounds_instead_of_truncating", prop="C19", expect=r"R19\.3:.*Rem<&Dual> for &Dual>::rem",
         edits=[("rust/dual/dual_ops/rem.rs", "impl_op_ex!(% |a: &Dual, b: &Dual| -> Dual {\n    let d = f64::trunc(a.real / b.real);", "impl_op_ex!(% |a: &Dual, b: &Dual| -> Dual {\n    let d = f64::round(a.real / b.real);")]),
    dict(name="c19_float_vs_dual_compare_swapped", prop="C19", expect=r"R19\.1:.*PartialOrd<Dual> for f64",
         edits=[("rust/dual/dual_ops/ord.rs", "impl PartialOrd<Dual> for f64 {\n    fn partial_cmp(&self, other: &Dual) -> Option<Ordering> {\n        self.partial_cmp(&other.real)", "impl PartialOrd<Dual> for f64 {\n    fn partial_cmp(&self, other: &Dual) -> Option<Ordering> {\n        other.real.partial_cmp(self)")]),
    # ---- C07
    dict(name="c07_drop_ldn_literal", prop="C07", expect=r"R07\.2:table=ldn:missing",
         edits=[("rust/calendars/named/ldn.rs", '    "2031-04-11 00:00:00",\n', "")]),
    dict(name="c07_zur_wired_to_osl", prop="C07", expect=r"R07\.2:table=zur",
         edits=[("rust/calendars/named/mod.rs", '("zur", zur::HOLIDAYS)', '("zur", osl::HOLIDAYS)')]),
    # ---- C16
    dict(name="c16_skip_dual2_hessian", prop="C16", expect=r"S16\.2:dual::dual::Dual2:dual2",
         edits=[("rust/dual/dual.rs", "    pub(crate) dual: Array1<f64>,\n    pub(crate) dual2: Array2<f64>,\n}\n\n#[derive(Deserialize)]",
                 "    pub(crate) dual: Array1<f64>,\n    #[serde(skip)]\n    pub(crate) dual2: Array2<f64>,\n}\n\n#[derive(Deserialize)]")]),
    dict(name="c16_fxrates_rebuilt_on_last_currency", prop="C16", expect=r"S16\.7:fx::rates::FXRates",
         edits=[("rust/fx/rates/mod.rs", "            .currencies\n            .first()", "            .currencies\n            .last()")]),
    # ---- C20
    dict(name="c20_try_new_guard_removed", prop="C20", expect=r"R20\.1:fx::rates::FXRates::try_new:ext:index#0:guard",
         edits=[("rust/fx/rates/mod.rs", "        if fx_rates.is_empty() {\n            return Err(PyValueError::new_err(\n                \"`fx_rates` must contain at least on fx rate.\",\n            ));\n        }\n", "")]),
    dict(name="c20_new_unwrap_in_ccy", prop="C20", expect=r"R20\.1:fx::rates::ccy::Ccy::try_new:",
         edits=[("rust/fx/rates/ccy.rs", "        let ccy: String = name.to_string().to_lowercase();", "        let ccy: String = name.to_string().to_lowercase();\n        let _first = ccy.chars().next().unwrap();")]),
]
