"""C20 — fallible entry points return errors, never abort; date arithmetic is total.

R20.0 entry points resolve.  R20.1 panic-edge inventory over the call graph vs the reviewed site table.
R20.4 `Number` is never a type argument of a generic helper (its refusing arms stay unreachable).
S20.2 types with a validating constructor deserialise through `serde(try_from)` into a panic-free conversion that validates.
R20.3 struct-literal sites of shape-constrained types are confined to the reviewed constructors."""
import json, os, re
import cfg as cfgmod
import hir
from rules import c20_common as cc

HERE = os.path.dirname(os.path.abspath(__file__))

# S20.2: type -> (what its constructor validates, accepted validating callee regex or None for inline guards)
SHAPED = {
    "dual::dual::Dual": ("|vars| = |dual|", None),
    "dual::dual::Dual2": ("|vars| = |dual|, dual2 is |vars| x |vars|", None),
    "calendars::calendar::NamedCal": ("name parses; union_cal rebuilt", r"NamedCal::try_new$"),
    "fx::rates::FXRates": ("quotes form a tree; fx_array rebuilt", r"FXRates::try_new$"),
    "fx::rates::ccy::Ccy": ("3-byte name", r"Ccy::try_new$"),
    "fx::rates::fxpair::FXPair": ("two distinct currencies", None),
    "splines::spline::PPSpline": ("n = |t| - k, |c| = n, t non-decreasing", None),
}

# R20.3: struct-literal sites allowed per type: function regex -> reason
LITERAL_OK = {
    "dual::dual::Dual": [
        (r"^dual::dual::Dual::try_new$", "behind the |vars| != |dual| guard"),
        (r"^dual::dual::Dual::new$", "dual = ones(|vars|)"),
        (r"^dual::dual::Dual::clone_from$", "behind assert_eq! on lengths; not on a Result path"),
        (r"^<dual::dual::Dual as std::convert::TryFrom<dual::dual::DualDataModel>>::try_from$", "behind the length guard"),
        (r"^<dual::dual::Dual as dual::dual::Vars>::to_new_vars$", "dual gathered to the length of the new vars"),
        (r"dual::dual_ops::", "operator results: arrays derived elementwise from aligned operands (C03 R03.1)"),
        (r"^<dual::dual::Dual as std::default::Default>::default$", "derived Default: empty vars, empty array"),
        (r"^<dual::dual::Dual as std::clone::Clone>::clone$", "field-wise clone"),
        (r"^splines::spline::bspl", "spline lifting through Dual::clone_from / operator results"),
        (r"^<dual::dual::Dual2? as dual::dual::Gradient[12]>::", "gradient read-back constructs on the requested vars with gathered arrays"),
    ],
    "dual::dual::Dual2": [
        (r"^dual::dual::Dual2::try_new$", "behind both length guards"),
        (r"^dual::dual::Dual2::new$", "ones(|vars|), zeros(|vars|,|vars|)"),
        (r"^dual::dual::Dual2::clone_from$", "behind assert_eq! on lengths; not on a Result path"),
        (r"^<dual::dual::Dual2 as std::convert::TryFrom<dual::dual::Dual2DataModel>>::try_from$", "behind both shape guards"),
        (r"^<dual::dual::Dual2 as dual::dual::Vars>::to_new_vars$", "arrays gathered to the length of the new vars"),
        (r"dual::dual_ops::", "operator results on aligned operands (C03 R03.1)"),
        (r"^dual::dual::Gradient2::gradient1_manifold$", "manifold entries built on the requested vars with a gathered row and a zero square (C17 R17.3)"),
        (r"^<dual::dual::Dual2 as std::default::Default>::default$", "derived Default"),
        (r"^<dual::dual::Dual2 as std::clone::Clone>::clone$", "field-wise clone"),
        (r"^<dual::dual::Dual2? as dual::dual::Gradient[12]>::", "gradient read-back"),
    ],
    "fx::rates::ccy::Ccy": [
        (r"^fx::rates::ccy::Ccy::try_new$", "behind the 3-byte guard"),
        (r"^<fx::rates::ccy::Ccy as std::clone::Clone>::clone$", "copy"),
    ],
    "fx::rates::fxpair::FXPair": [
        (r"^fx::rates::fxpair::FXPair::try_new$", "behind the distinct-currency guard"),
        (r"^<fx::rates::fxpair::FXPair as std::clone::Clone>::clone$", "copy"),
        (r"^<fx::rates::fxpair::FXPair as std::convert::TryFrom<fx::rates::fxpair::FXPairDataModel>>::try_from$", "behind the distinct-currency guard"),
    ],
}


def struct_literal_sites(facts, adt):
    """(fn name, line) for every struct/tuple-struct construction of `adt` in HIR."""
    out = []
    for name, recs in facts.fns.items():
        for r in recs:
            for e in hir.walk(r["body"]):
                k = e.get("k")
                if k == "struct" and e.get("ty") == adt:
                    out.append((name, e.get("ln")))
                elif k == "call" and e["f"].get("k") == "path" and e["f"].get("dk", "").startswith("Ctor") and e.get("ty") == adt:
                    out.append((name, e.get("ln")))
    return out


def run(ck, facts, tier):
    P, R, fams, missing = cc.inventory(facts)
    table = json.load(open(os.path.join(HERE, "c20_sites.json")))
    tab = {(e["fn"], e["kind"]): e for e in table}

    r0 = ck.rule("R20.0", "every entry point named by the statement resolves to a function body (fail closed)", floor=len(cc.ENTRIES))
    for e in cc.ENTRIES:
        ck.check(r0, e, e in P.cfgs, "entry point not found: " + e, sample="resolved, %d blocks" % (P.cfgs[e].n if e in P.cfgs else 0))
    des = cc.deserialize_entries(facts)
    ck.check(r0, "deserialize-impls", len(des) >= 60, "only %d Deserialize impls found" % len(des), sample="%d in-crate Deserialize::deserialize bodies are entries" % len(des))

    r4 = ck.rule("R20.4", "dual::enums::Number never instantiates a type parameter of a local generic function, "
                          "so the refusing (Dual,Dual2) arms of its operators are unreachable from the generic fill-in/solver", floor=1)
    ck.check(r4, "instantiations", not P.number_hits, "Number flows into a generic helper: %s" % (P.number_hits[:2],),
             sample="no call site of a local generic fn mentions dual::enums::Number among its type arguments")

    r1 = ck.rule("R20.1", "every panic edge (MIR Assert, unwrap/expect/panic!/assert!, indexing and other aborting externals) in a function "
                          "reachable from an entry point is in the reviewed table (rules/c20_sites.json) and is control dependent on at least "
                          "as many dominating branches as when reviewed", floor=150)
    nsites = 0
    for fam, members in sorted(fams.items()):
        for name, per in members:
            rec = facts.mir[name]
            for kind, sites in sorted(per.items()):
                ent = tab.get((fam, kind))
                for n, s in enumerate(sites):
                    nsites += 1
                    where = "%s:%d" % (rec["file"], s["ln"])
                    key = "%s:%s#%d" % (fam, kind, n)
                    if ent is None or n >= ent["count"]:
                        ck.fail(r1, key, "unreviewed panic edge `%s` reachable from a fallible/total entry point (in %s)" % (kind, name), where,
                                "path: " + " <- ".join(call_path(P, name)))
                    elif s["ctrl"] < ent["ctrl"][n]:
                        ck.fail(r1, key + ":guard", "panic edge `%s` lost a dominating guard (control depth %d, reviewed %d): %s"
                                % (kind, s["ctrl"], ent["ctrl"][n], ent["reason"]), where)
                    else:
                        ck.ok(r1, key, sample="class %s: %s (ctrl depth %d)" % (ent["class"], ent["reason"], s["ctrl"]))
    ck.extra["reachable_functions"] = len(R)
    ck.extra["panic_sites"] = nsites
    ck.extra["site_table_rows"] = len(table)

    # ---- S20.2
    r2 = ck.rule("S20.2", "a type whose constructor validates a shape invariant deserialises through serde(try_from = <data model>); "
                          "the TryFrom conversion has no panic edge and either calls the validating constructor or returns Err on a guard", floor=len(SHAPED))
    for adt, (inv, ctor) in SHAPED.items():
        a = facts.astadt.get(adt)
        if a is None:
            ck.fail(r2, adt, "type not found in the expanded AST")
            continue
        des_impl = [i for i in facts.impls if i.get("trait", "").endswith("Deserialize") and i["self_ty"].split("<")[0] == adt]
        if not des_impl:
            ck.ok(r2, adt, sample="not deserialisable")
            continue
        tf = [x for x in a["attrs"] if "serde" in x and "try_from" in x]
        where = "%s:%d" % (facts.adts[adt]["file"], facts.adts[adt]["line"]) if adt in facts.adts else None
        if not tf:
            ck.fail(r2, adt, "derives Deserialize without a validating conversion: loading from JSON can produce a value violating `%s`" % inv, where)
            continue
        m = re.search(r'try_from\s*=\s*"([^"]+)"', tf[0])
        model = m.group(1).split("<")[0]
        conv = [n for n in facts.mir if re.search(r"TryFrom<[\w:]*%s(<.*>)?>>::try_from$" % re.escape(model), n) and adt in n]
        if not conv:
            ck.fail(r2, adt, "serde(try_from=%s) but no TryFrom impl body found" % model, where)
            continue
        c = P.cfgs[conv[0]]
        sites = cfgmod.panic_sites(c, P.cfgs)
        callees = {c.callee_name(t) for _, t in c.calls()}
        has_err = any(s.get("adt", "").endswith("Result") and s.get("variant") == "Err" for b in c.blocks for s in b["stmts"])
        validates = (ctor and any(re.search(ctor, x or "") for x in callees)) or (ctor is None and has_err)
        if sites:
            ck.fail(r2, adt, "conversion %s contains a panic edge %s" % (conv[0], sites[0]["kind"]), "%s:%d" % (c.rec["file"], sites[0]["ln"]))
        elif not validates:
            ck.fail(r2, adt, "conversion %s neither calls the validating constructor nor returns Err on a guard" % conv[0], where)
        else:
            ck.ok(r2, adt, sample="serde(try_from=%s) -> %s: no panic edge, validates `%s`" % (model, conv[0], inv))

    # ---- R20.3
    r3 = ck.rule("R20.3", "struct-literal construction of a shape-constrained type occurs only in the reviewed constructor/operator functions", floor=20)
    for adt, allowed in LITERAL_OK.items():
        for fn, ln in struct_literal_sites(facts, adt):
            why = next((w for rx, w in allowed if re.search(rx, fn)), None)
            rec = facts.fn(fn)
            ck.check(r3, "%s@%s" % (adt.split("::")[-1], cc.family(fn)), why is not None,
                     "`%s { .. }` constructed outside the reviewed constructors (shape invariant not established here)" % adt,
                     "%s:%s" % (rec["file"] if rec else "?", ln), sample=why)

    ck.not_decided += [
        "aborts inside dependencies on inputs outside the documented ranges (dates beyond chrono's range, > 2^63 elements)",
        "allocation failure; stack depth of the recursive FX fill-in and the B-spline recursion",
        "the class-I/R/L reasons in rules/c20_sites.json are reviewed by reading the code; the machine check is table membership + control depth",
        "external callees are classified by a denylist of aborting std/ndarray/chrono/indexmap APIs (lib/cfg.py PANICKING_EXTERNAL); "
        "an aborting external outside that list would be missed",
    ]
    ck.trusted += ["rules/c20_sites.json (reviewed site table)", "lib/cfg.py PANICKING_EXTERNAL denylist"]


def call_path(P, target, limit=6):
    """A shortest caller chain from an entry point to `target` (for diagnosable reports)."""
    entries = set(cc.ENTRIES) | set(cc.deserialize_entries(P.facts))
    from collections import deque
    prev = {e: None for e in entries if e in P.cfgs}
    dq = deque(prev)
    while dq:
        f = dq.popleft()
        if f == target:
            break
        nxt = list(P.children.get(f, ())) + list(P.callees(f)[0])
        for g in nxt:
            if g not in prev and g in P.cfgs:
                prev[g] = f
                dq.append(g)
    path, f = [], target
    while f is not None and len(path) < limit:
        path.append(hir.short(f))
        f = prev.get(f)
    return path
