"""C20 — fallible entry points return errors, never abort; date arithmetic is total.

R20.0 entry points resolve.  R20.1 panic-edge inventory over the call graph vs the reviewed site table.
R20.4 `Number` is never a type argument of a generic helper (its refusing arms stay unreachable).
S20.2 types with a validating constructor deserialise through `serde(try_from)` into a panic-free conversion that validates.
R20.3 struct-literal sites of shape-constrained types are confined to the reviewed constructors."""
import json, os, re
import cfg as cfgmod
import hir
from rules import c20_common as cc

HERE = os.path.dirname(os.path.abspath(__file__))

# S20.2: type -> (what its constructor validates, accepted validating callee regex or None for inline guards)
SHAPED = {
    "dual::dual::Dual": ("|vars| = |dual|", None),
    "dual::dual::Dual2": ("|vars| = |dual|, dual2 is |vars| x |vars|", None),
    "calendars::calendar::NamedCal": ("name parses; union_cal rebuilt", r"NamedCal::try_new$"),
    "fx::rates::FXRates": ("quotes form a tree; fx_array rebuilt", r"FXRates::try_new$"),
    "fx::rates::ccy::Ccy": ("3-byte name", r"Ccy::try_new$"),
    "fx::rates::fxpair::FXPair": ("two distinct currencies", None),
    "splines::spline::PPSpline": ("n = |t| - k, |c| = n, t non-decreasing", None),
}

# R20.3: struct-literal sites allowed per type: function regex -> reason
LITERAL_OK = {
    "dual::dual::Dual": [
        (r"^dual::dual::Dual::try_new$", "behind the |vars| != |dual| guard"),
        (r"^dual::dual::Dual::new$", "dual = ones(|vars|)"),
        (r"^dual::dual::Dual::clone_from$", "behind assert_eq! on lengths; not on a Result path"),
        (r"^<dual::dual::Dual as std::convert::TryFrom<dual::dual::DualDataModel>>::try_from$", "behind the length guard"),
        (r"^<dual::dual::Dual as dual::dual::Vars>::to_new_vars$", "dual gathered to the length of the new vars"),
        (r"dual::dual_ops::", "operator results: arrays derived elementwise from aligned operands (C03 R03.1)"),
        (r"^<dual::dual::Dual as std::default::Default>::default$", "derived Default: empty vars, empty array"),
        (r"^<dual::dual::Dual as std::clone::Clone>::clone$", "field-wise clone"),
        (r"^splines::spline::bspl", "spline lifting through Dual::clone_from / operator results"),
        (r"^<dual::dual::Dual2? as dual::dual::Gradient[12]>::", "gradient read-back constructs on the requested vars with gathered arrays"),
    ],
    "dual::dual::Dual2": [
        (r"^dual::dual::Dual2::try_new$", "behind both length guards"),
        (r"^dual::dual::Dual2::new$", "ones(|vars|), zeros(|vars|,|vars|)"),
        (r"^dual::dual::Dual2::clone_from$", "behind assert_eq! on lengths; not on a Result path"),
        (r"^<dual::dual::Dual2 as std::convert::TryFrom<dual::dual::Dual2DataModel>>::try_from$", "behind both shape guards"),
        (r"^<dual::dual::Dual2 as dual::dual::Vars>::to_new_vars$", "arrays gathered to the length of the new vars"),
        (r"dual::dual_ops::", "operator results on aligned operands (C03 R03.1)"),
        (r"^dual::dual::Gradient2::gradient1_manifold$", "manifold entries built on the requested vars with a gathered row and a zero square (C17 R17.3)"),
        (r"^<dual::dual::Dual2 as std::default::Default>::default$", "derived Default"),
        (r"^<dual::dual::Dual2 as std::clone::Clone>::clone$", "field-wise clone"),
        (r"^<dual::dual::Dual2? as dual::dual::Gradient[12]>::", "gradient read-back"),
    ],
    "fx::rates::ccy::Ccy": [
        (r"^fx::rates::ccy::Ccy::try_new$", "behind the 3-byte guard"),
        (r"^<fx::rates::ccy::Ccy as std::clone::Clone>::clone$", "copy"),
    ],
    "fx::rates::FXRates": [
        (r"^fx::rates::FXRates::try_new$", "currency list, quotes and rate array are built together from the validated quotes (C09 R09.1)"),
        (r"^<fx::rates::FXRates as std::clone::Clone>::clone$", "field-wise clone"),
    ],
    "fx::rates::fxpair::FXPair": [
        (r"^fx::rates::fxpair::FXPair::try_new$", "behind the distinct-currency guard"),
        (r"^<fx::rates::fxpair::FXPair as std::clone::Clone>::clone$", "copy"),
        (r"^<fx::rates::fxpair::FXPair as std::convert::TryFrom<fx::rates::fxpair::FXPairDataModel>>::try_from$", "behind the distinct-currency guard"),
    ],
}


def struct_literal_sites(facts, adt):
    """(fn name, line) for every struct/tuple-struct construction of `adt` in HIR."""
    out = []
    for name, recs in facts.fns.items():
        for r in recs:
            for e in hir.walk(r["body"]):
                k = e.get("k")
                if k == "struct" and e.get("ty") == adt:
                    out.append((name, e.get("ln")))
                elif k == "call" and e["f"].get("k") == "path" and e["f"].get("dk", "").startswith("Ctor") and e.get("ty") == adt:
                    out.append((name, e.get("ln")))
    return out


def run(ck, facts, tier):
    P, R, fams, missing = cc.inventory(facts)
    table = json.load(open(os.path.join(HERE, "c20_sites.json")))
    tab = {(e["fn"], e["kind"]): e for e in table}

    r0 = ck.rule("R20.0", "every entry point named by the statement resolves to a function body (fail closed)", floor=len(cc.ENTRIES))
    for e in cc.ENTRIES:
        ck.check(r0, e, e in P.cfgs, "entry point not found: " + e, sample="resolved, %d blocks" % (P.cfgs[e].n if e in P.cfgs else 0))
    des = cc.deserialize_entries(facts)
    ck.check(r0, "deserialize-impls", len(des) >= 60, "only %d Deserialize impls found" % len(des), sample="%d in-crate Deserialize::deserialize bodies are entries" % len(des))

    r4 = ck.rule("R20.4", "in functions reachable from the entry points dual::enums::Number never instantiates a type parameter of a local generic function, "
                          "so the refusing (Dual,Dual2) arms of its operators are unreachable from the generic fill-in/solver", floor=1)
    hits = [h for h in P.number_hits if h[0] in R]
    ck.check(r4, "instantiations", not hits, "Number flows into a generic helper inside a function reachable from an entry point: %s" % (hits[:2],),
             sample="no call site of a local generic fn in the %d reachable functions mentions dual::enums::Number among its type arguments (%d elsewhere)" % (len(R), len(P.number_hits)))

    r1 = ck.rule("R20.1", "every panic edge (MIR Assert, unwrap/expect/panic!/assert!, indexing and other aborting externals) in a function "
                          "reachable from an entry point is covered by the reviewed table (rules/c20_sites.json): per function (with its closures and the private "
                          "helpers extracted from it) and kind, no more sites than reviewed, each control dependent on at least as many dominating branches", floor=150)
    from rules import bounds
    _safe = {}

    def safe_cache(fn_name):
        if fn_name not in _safe:
            rec_ = facts.fn(fn_name)
            _safe[fn_name] = bounds.safe_sites(rec_) if rec_ is not None else set()
        return _safe[fn_name]
    nsites = 0
    # Sites are judged per (root function, kind) as a multiset of control depths: the function's own sites, those of the closures nested in it (closure
    # numbering shifts under harmless edits) and those of private helpers extracted from it must fit the reviewed budget — no more sites than reviewed, and an
    # injective matching in which every site sits under at least as many dominating guards as its reviewed counterpart.
    # succession: reviewed functions that no longer exist (renamed, or merged into one) hand their reviewed budget to an unreviewed function of the same
    # module whose sites fit into it kind by kind — only rows that need no dominating guard take part
    existing = {cc.family(n_) for n_ in facts.mir}
    vanished = sorted({f_ for f_, _ in tab if f_ not in existing})
    module_of = lambda n_: re.sub(r"<[^<>]*>", "", n_).rsplit("::", 1)[0]
    succession = {}
    if vanished:
        pool = {}
        for (f_, k_), e_ in tab.items():
            if f_ in vanished and not any(e_["ctrl"]):
                pool.setdefault((module_of(f_), k_), []).append(f_)
        budget_left = {(module_of(f_), k_): sum(len(tab[(g_, k_)]["ctrl"]) for g_ in fs_) for (_, k_), fs_ in pool.items() for f_ in fs_[:1]}
        for fam_, members_ in sorted(fams.items()):
            if any((fam_, k_) in tab for _, per_ in members_ for k_ in per_):
                continue
            need = {}
            for _, per_ in members_:
                for k_, sites_ in per_.items():
                    need[k_] = need.get(k_, 0) + len(sites_)
            mod_ = module_of(fam_)
            if need and all(budget_left.get((mod_, k_), 0) >= c_ for k_, c_ in need.items()):
                for k_, c_ in need.items():
                    budget_left[(mod_, k_)] -= c_
                    src_ = pool[(mod_, k_)]
                    tab[(fam_, k_)] = {"fn": fam_, "kind": k_, "ctrl": [0] * c_, "class": tab[(src_[0], k_)].get("class", "G"), "reason": "succeeds the reviewed function(s) %s of the same module, which no longer exist: %s"
                                       % (", ".join(src_), tab[(src_[0], k_)]["reason"])}
                succession[fam_] = sorted({g_ for k_ in need for g_ in pool[(mod_, k_)]})
    ck.extra["succession"] = succession
    absorbed, absorbed_fns = absorb_helpers(P, R, fams, {f for f, _ in tab}, tab)
    ck.extra["absorbed_helpers"] = sorted(absorbed_fns)
    # sites hoisted from a reviewed function into its only caller (a precondition assert moved up one level): the caller may draw on the callee's unused
    # budget of the same kind, when that row needs no dominating guard
    used = {}
    for fam_, members_ in fams.items():
        for name_, per_ in members_:
            for kind_, sites_ in per_.items():
                used[(fam_, kind_)] = used.get((fam_, kind_), 0) + len(sites_)
    spare = {k_: len(e_["ctrl"]) - used.get(k_, 0) for k_, e_ in tab.items() if not any(e_["ctrl"])}
    callers_of = {}
    for f_ in R:
        for tgt in P.callees(f_)[0]:
            if cc.root_of(tgt) != cc.root_of(f_):
                callers_of.setdefault(cc.family(tgt), set()).add(cc.family(f_))

    def hoisted_from(fam_, kind_):
        for tgt in sorted({cc.family(t_) for f_ in R if cc.family(f_) == fam_ for t_ in P.callees(f_)[0]}):
            if tgt != fam_ and spare.get((tgt, kind_), 0) > 0 and callers_of.get(tgt) == {fam_}:
                spare[(tgt, kind_)] -= 1
                return tgt
        return None
    for fam, members in sorted(fams.items()):
        roots = {}
        for name, per in members:
            if name in absorbed_fns:
                continue                      # judged in the context of its reviewed callers
            rt = roots.setdefault(cc.root_of(name), {})
            for kind, sites in per.items():
                rt.setdefault(kind, []).extend((s["ctrl"], name, s["ln"], s.get("loop", 0)) for s in sites)
            for kind, ex in absorbed.get(name, {}).items():
                rt.setdefault(kind, []).extend(ex)
        for root, per in sorted(roots.items()):
            for kind, sites in sorted(per.items()):
                ent = tab.get((fam, kind))
                sites = sorted(sites, key=lambda t: (t[0], t[2]))
                budget = sorted(ent["ctrl"]) if ent else []
                nsites += len(sites)
                for n, site_ in enumerate(sites):
                    d, fn_, ln = site_[:3]
                    lp = site_[3] if len(site_) > 3 else None
                    where = "%s:%d" % (facts.mir[fn_]["file"], ln)
                    key = "%s:%s#%d" % (fam, kind, n)
                    via = "" if cc.root_of(fn_) == root else " (in helper %s)" % fn_
                    if n >= len(budget) and bounds.kind_class(kind) and ((ln, bounds.kind_class(kind)) in safe_cache(fn_) or
                                                                          (ln, bounds.kind_class(kind)) in safe_cache(cc.root_of(fn_))):
                        # no reviewed row, but safe by the shape of the counted loop it sits in (rules/bounds.py): `c[i + C]` inside `for i in A..c.len() + D`
                        ck.ok(r1, key, sample="discharged by the affine-index rule: index within the bounds of its counted loop")
                        continue
                    if n >= len(budget):
                        src_ = hoisted_from(fam, kind)
                        if src_ is not None:
                            ck.ok(r1, key, sample="covered by the unused reviewed budget of its callee %s (site hoisted into the only caller)" % src_)
                            continue
                    if n >= len(budget):
                        ck.fail(r1, key, "unreviewed panic edge `%s` reachable from a fallible/total entry point (in %s%s): %d site(s), %d reviewed"
                                % (kind, root, via, len(sites), len(budget)), where, "path: " + " <- ".join(call_path(P, root)))
                    elif d < budget[n]:
                        ck.fail(r1, key + ":guard", "panic edge `%s`%s lost a dominating guard (control depths now %s, reviewed %s): %s"
                                % (kind, via, [t[0] for t in sites], budget, ent["reason"]), where)
                    elif ent.get("loop") and lp is not None and lp < ent["loop"]:
                        # the review relies on the site running once per iteration of a loop (never, when the loop runs zero times): hoisted out of it, the edge is live
                        ck.fail(r1, key + ":loop", "panic edge `%s`%s is no longer inside the loop the review relies on (loop depth %d, reviewed %d): %s"
                                % (kind, via, lp, ent["loop"], ent["reason"]), where)
                    else:
                        ck.ok(r1, key, sample="class %s: %s (ctrl depth %d)" % (ent["class"], ent["reason"], d))
    ck.extra["reachable_functions"] = len(R)
    ck.extra["panic_sites"] = nsites
    ck.extra["site_table_rows"] = len(table)

    loader_rule(ck, facts, P)

    # ---- R20.3
    r3 = ck.rule("R20.3", "struct-literal construction of a shape-constrained type occurs only in the reviewed constructor/operator functions", floor=20)
    rev_callers = {}
    for f_ in P.cfgs:
        for tgt in P.callees(f_)[0]:
            rev_callers.setdefault(tgt, set()).add(f_)
        for ch in P.children.get(f_, ()):
            rev_callers.setdefault(ch, set()).add(f_)

    def only_from_reviewed(fn, allowed, depth=0, seen=frozenset()):
        """A private function all of whose callers are reviewed constructors of the type (or such helpers themselves): a helper extracted from them. Its
        construction site is then judged where the reviewed constructors are: R20.6 evaluates them through their helpers."""
        rec_ = facts.fn(cc.root_of(fn))
        if rec_ is None or depth > 3 or fn in seen or str(rec_.get("vis", "Public")).startswith("Public"):
            return False
        cs = rev_callers.get(fn, set()) | rev_callers.get(cc.root_of(fn), set())
        cs = {c_ for c_ in cs if cc.root_of(c_) != cc.root_of(fn)}
        return bool(cs) and all(any(re.search(rx, c_) for rx, _ in allowed) or only_from_reviewed(c_, allowed, depth + 1, seen | {fn}) for c_ in cs)
    for adt, allowed in LITERAL_OK.items():
        for fn, ln in struct_literal_sites(facts, adt):
            why = next((w for rx, w in allowed if re.search(rx, fn)), None)
            if why is None and only_from_reviewed(fn, allowed):
                why = "private helper called only from the reviewed constructors of this type (judged with them by R20.6)"
            rec = facts.fn(fn)
            ck.check(r3, "%s@%s" % (adt.split("::")[-1], cc.family(fn)), why is not None,
                     "`%s { .. }` constructed outside the reviewed constructors (shape invariant not established here)" % adt,
                     "%s:%s" % (rec["file"] if rec else "?", ln), sample=why)

    shape_rule(ck, facts)
    from rules import deps
    deps.include_panic_guards(ck, facts, tier)
    ck.not_decided += [
        "aborts inside dependencies on inputs outside the documented ranges (dates beyond chrono's range, > 2^63 elements)",
        "allocation failure; stack depth of the recursive FX fill-in and the B-spline recursion",
        "the class-I/R/L reasons in rules/c20_sites.json are reviewed by reading the code; the machine check is table membership + control depth",
        "external callees are classified by a denylist of aborting std/ndarray/chrono/indexmap APIs (lib/cfg.py PANICKING_EXTERNAL); "
        "an aborting external outside that list would be missed",
    ]
    ck.trusted += ["rules/c20_sites.json (reviewed site table)", "lib/cfg.py PANICKING_EXTERNAL denylist"]


def loader_rule(ck, facts, P=None, only=None):
    """S20.2; `only` restricts to some types (used by C09 for FXRates: quote sets that try_new refuses must not come in through the loader)."""
    if P is None:
        P = cc.Prog(facts)
    r2 = ck.rule("S20.2", "a type whose constructor validates a shape invariant deserialises through serde(try_from = <data model>); "
                          "the TryFrom conversion has no panic edge and either calls the validating constructor or returns Err on a guard", floor=len(SHAPED) if only is None else len(only))
    for adt, (inv, ctor) in SHAPED.items():
        if only is not None and adt not in only:
            continue
        a = facts.astadt.get(adt)
        if a is None:
            ck.fail(r2, adt, "type not found in the expanded AST")
            continue
        des_impl = [i for i in facts.impls if i.get("trait", "").endswith("Deserialize") and i["self_ty"].split("<")[0] == adt]
        if not des_impl:
            ck.ok(r2, adt, sample="not deserialisable")
            continue
        tf = [x for x in a["attrs"] if "serde" in x and "try_from" in x]
        where = "%s:%d" % (facts.adts[adt]["file"], facts.adts[adt]["line"]) if adt in facts.adts else None
        if not tf:
            ck.fail(r2, adt, "derives Deserialize without a validating conversion: loading from JSON can produce a value violating `%s`" % inv, where)
            continue
        m = re.search(r'try_from\s*=\s*"([^"]+)"', tf[0])
        model = m.group(1).split("<")[0]
        conv = [n for n in facts.mir if re.search(r"TryFrom<[\w:]*%s(<.*>)?>>::try_from$" % re.escape(model), n) and adt in n]
        if not conv:
            ck.fail(r2, adt, "serde(try_from=%s) but no TryFrom impl body found" % model, where)
            continue
        c = P.cfgs[conv[0]]
        sites = cfgmod.panic_sites(c, P.cfgs)
        from rules import bounds as _bounds
        rec_c = facts.fn(conv[0])
        safe_c = _bounds.safe_sites(rec_c) if rec_c is not None else set()
        sites = [s_ for s_ in sites if not (_bounds.kind_class(s_["kind"]) and (s_["ln"], _bounds.kind_class(s_["kind"])) in safe_c)]      # safe by shape (rules/bounds.py)
        callees = {c.callee_name(t) for _, t in c.calls()}
        def errs_in(cfg_):
            return any(s.get("adt", "").endswith("Result") and s.get("variant") == "Err" for b in cfg_.blocks for s in b["stmts"])
        has_err = errs_in(c)
        if not has_err:
            # the guard may sit in a private helper the conversion calls directly (a shared validation routine)
            for tgt in sorted(P.callees(conv[0])[0]):
                rec_t = facts.fn(tgt)
                if rec_t is not None and not str(rec_t.get("vis", "Public")).startswith("Public") and tgt in P.cfgs and errs_in(P.cfgs[tgt]):
                    has_err = True
        validates = (ctor and any(re.search(ctor, x or "") for x in callees)) or (ctor is None and has_err)
        if sites:
            ck.fail(r2, adt, "conversion %s contains a panic edge %s" % (conv[0], sites[0]["kind"]), "%s:%d" % (c.rec["file"], sites[0]["ln"]))
        elif not validates:
            ck.fail(r2, adt, "conversion %s neither calls the validating constructor nor returns Err on a guard" % conv[0], where)
        else:
            ck.ok(r2, adt, sample="serde(try_from=%s) -> %s: no panic edge, validates `%s`" % (model, conv[0], inv))



def absorb_helpers(P, R, fams, tabfams, tab=None):
    """Private helpers extracted from reviewed functions: a reachable function with panic sites whose family is not in the reviewed table, all of whose
    callers (transitively, through other such helpers, at most 3 levels) are members of reviewed families, is judged in its callers' context.
    Returns ({reviewed caller fn: {kind: [(control depth incl. the call site's, helper fn, line)]}}, {absorbed helper fns})."""
    fam_of = {name: fam for fam, members in fams.items() for name, _ in members}
    sites_of = {name: per for fam, members in fams.items() for name, per in members}
    callers = {}
    for f in R:
        c = P.cfgs[f]
        for i, t in c.calls():
            tgt = t.get("resolved") or t.get("callee")
            if tgt in P.cfgs and tgt != f:
                callers.setdefault(tgt, []).append((f, i))
        for ch in P.children.get(f, ()):
            callers.setdefault(ch, []).append((f, None))

    def contexts(u, depth, seen):
        """[(reviewed fn, added control depth)] or None if some caller chain does not end in a reviewed family"""
        if depth > 3 or u in seen or u in cc.ENTRIES:
            return None
        out = []
        for f, blk in callers.get(u, []):
            if f == u or f.startswith(u + "::{closure"):
                continue          # a helper calling itself (directly or from one of its closures) adds no new calling context
            d = cfgmod.ctrl_depth(P.cfgs[f], blk) if blk is not None else 0
            if fam_of.get(f) in tabfams:
                out.append((f, d))
            else:
                up = contexts(f, depth + 1, seen | {u})
                if up is None:
                    return None
                out += [(g, d + d2) for g, d2 in up]
        return out or None

    absorbed, fns = {}, set()
    # a helper shared by several reviewed functions (one search routine parametrised by a direction, say) carries the sites of all of them: each of its sites
    # is one program location and is judged once, in the calling context whose reviewed row of that kind still has room
    spare = {}
    if tab is not None:
        own = {}
        for fam_, members_ in fams.items():
            for _, per_ in members_:
                for k_, ss_ in per_.items():
                    own[(fam_, k_)] = own.get((fam_, k_), 0) + len(ss_)
        spare = {k_: len(e_["ctrl"]) - own.get(k_, 0) for k_, e_ in tab.items()}
    for u in sorted(R):
        if fam_of.get(u) in tabfams or not sites_of.get(u):
            continue
        ctx = contexts(u, 0, frozenset())
        if ctx is None:
            continue
        fns.add(u)
        roots_ = sorted({cc.root_of(g) for g, _ in ctx})
        if len(roots_) <= 1 or tab is None:
            for g, d in ctx:
                for kind, sites in sites_of[u].items():
                    for s_ in sites:
                        absorbed.setdefault(g, {}).setdefault(kind, []).append((d + s_["ctrl"], u, s_["ln"]))
            continue
        for kind, sites in sites_of[u].items():
            for s_ in sites:
                pick = next(((g, d) for g, d in ctx if spare.get((fam_of.get(g) or cc.family(g), kind), 0) > 0), ctx[0])
                fk = (fam_of.get(pick[0]) or cc.family(pick[0]), kind)
                spare[fk] = spare.get(fk, 0) - 1
                absorbed.setdefault(pick[0], {}).setdefault(kind, []).append((pick[1] + s_["ctrl"], u, s_["ln"]))
    return absorbed, fns


def call_path(P, target, limit=6):
    """A shortest caller chain from an entry point to `target` (for diagnosable reports)."""
    entries = set(cc.ENTRIES) | set(cc.deserialize_entries(P.facts))
    from collections import deque
    prev = {e: None for e in entries if e in P.cfgs}
    dq = deque(prev)
    while dq:
        f = dq.popleft()
        if f == target:
            break
        nxt = list(P.children.get(f, ())) + list(P.callees(f)[0])
        for g in nxt:
            if g not in prev and g in P.cfgs:
                prev[g] = f
                dq.append(g)
    path, f = [], target
    while f is not None and len(path) < limit:
        path.append(hir.short(f))
        f = prev.get(f)
    return path


# ---------------------------------------------------------------- R20.6
def shape_rule(ck, facts, accept=None, only_keys=None):
    """Every Ok path of a validating constructor / loader returns a value whose shape invariant is true by construction or by a condition of that path.
    With `accept` (a rule id, used by C16): additionally, a loader's Ok path demands nothing but the invariant — it accepts every well-shaped object."""
    import cel, paths
    from cel import Poly, Rec, Sym, Tup, Coll, Seq, Unsupported, vkey, length_of
    if accept:
        ra = ck.rule(accept, "a validating loader refuses only shape violations: the conditions on its Ok path are exactly the type's shape invariants (nothing else is "
                             "demanded), so every object the constructors and mutators can produce loads back; in particular an unsolved spline (c = None) is accepted "
                             "under the same conditions as a solved one minus |c| = n", floor=5)
    r6 = ck.rule("R20.6", "every Ok path of a validating constructor or loader returns a value whose shape invariant holds by construction or is a condition of that path "
                          "(|vars| = |dual|; dual2 is |vars| x |vars|; currency name 3 bytes; pair currencies distinct; n = |t| - k, |c| = n, t non-decreasing) — and at "
                          "least one Err path exists for each such condition", floor=10 if only_keys is None else 4)
    D1, D2 = "dual::dual::Dual", "dual::dual::Dual2"

    def inv_dual(x, num):
        """[(condition value)] that must hold: each is a cel value for an equality"""
        n = length_of(x.fields["vars"])
        out = [cel.cmp_sym("Eq", n, length_of(cel.num(x.fields["dual"])))]
        if num == D2:
            d2 = x.fields["dual2"]
            d2n = cel.num(d2)
            if isinstance(d2, cel.Arr) and not d2.writes:
                out += [cel.cmp_sym("Eq", d2.dims[0], n), cel.cmp_sym("Eq", d2.dims[1], n)] if all(isinstance(d, Poly) for d in d2.dims) else [Sym("unknown-dims")]
            elif isinstance(d2n, Poly) and d2n.order == 2 and d2n.is_zero():
                out += []          # zero tensor from zeros(shape): shape recorded separately below
            elif isinstance(d2, Sym) and d2.tag[0] == "m" and d2.tag[1] in ("unwrap", "expect") and isinstance(d2.tag[2], tuple) and d2.tag[2][:3] == ("sym", "m", "into_shape_with_order"):
                shape = d2.tag[2][4][0]
                out += [Sym("shape-is", shape == ("tup", (n.key(), n.key())))]
            else:
                out += [cel.eq_sym(Sym("m", "dim", vkey(d2), ()), Tup([n, n]))]
        return out

    def run_case(key, fn, args, leaf_invariants, where_fn=None):
        if only_keys is not None and not re.search(only_keys, key):
            return
        r = facts.fn(fn)
        where = "%s:%d" % (r["file"], r["line"]) if r else None
        if r is None:
            ck.fail(r6, key, "function not found: " + fn)
            return
        try:
            ev = cel.Ev(facts)
            got = ev.apply_fn(fn, args, 0)
            ps = paths.flatten(got)
            oks = [(c, v) for c, v in ps if isinstance(v, Sym) and v.tag[:2] == ("ctor", "Ok")]
            errs = [(c, v) for c, v in ps if isinstance(v, Sym) and v.tag[:2] == ("ctor", "Err")]
            ok = bool(oks)
            why = "no Ok path"
            needed = set()
            oks = [(paths.atoms(c), v) for c, v in oks]          # conjunctions/disjunctions split into literals (with unit propagation)
            errs = [(paths.atoms(c), v) for c, v in errs]
            for c, v in oks:
                x = v.tag[2]
                for cond in leaf_invariants(x):
                    if isinstance(cond, Sym) and cond.tag == ("bool", "true"):
                        continue
                    if isinstance(cond, Sym) and cond.tag[0] == "shape-is":
                        if cond.tag[1] is True:
                            continue
                        ok, why = False, "reshape target is not (|vars|, |vars|)"
                        continue
                    atom = paths.norm_cond(("if", vkey(cond)))
                    needed.add(atom)
                    if atom not in c:
                        ok, why = False, "an Ok path returns a value whose invariant `%s` is neither true by construction nor a condition of the path" % repr(vkey(cond))[:260]
            for a, pol in needed:
                if not any((a, not pol) in c for c, _ in errs):
                    ok, why = False, "no Err path rejects the violation of `%s`" % repr(a)[:200]
            ck.check(r6, key, ok, why, where, sample="%d Ok path(s), %d Err path(s); invariants on every Ok path" % (len(oks), len(errs)))
            if accept and key.endswith("(model)"):
                extra = sorted({repr(a)[:160] for c, v in oks for a, p in c if (a, p) not in needed})
                ck.check(ra, key, bool(oks) and not extra, "the loader's Ok path demands more than the shape invariant (a well-shaped object can be refused)" if oks else "no Ok path",
                         where, detail="; ".join(extra)[:600], sample="Ok-path conditions = invariants")
        except Unsupported as e:
            ck.fail(r6, key, "rule could not be established (%s)" % e, where)

    VARS, DUAL, DUAL2 = Sym("param", "vars"), Sym("param", "dual"), Sym("param", "dual2")
    run_case("Dual::try_new", "dual::dual::Dual::try_new", [Poly.atom("real"), VARS, DUAL], lambda x: inv_dual(x, D1))
    run_case("Dual2::try_new", "dual::dual::Dual2::try_new", [Poly.atom("real"), VARS, DUAL, DUAL2], lambda x: inv_dual(x, D2))
    m1 = Rec("dual::dual::DualDataModel", {"real": Poly.atom("r"), "vars": Sym("field", "vars"), "dual": Sym("field", "dual")})
    run_case("Dual::try_from(model)", "<dual::dual::Dual as std::convert::TryFrom<dual::dual::DualDataModel>>::try_from", [m1], lambda x: inv_dual(x, D1))
    m2 = Rec("dual::dual::Dual2DataModel", {"real": Poly.atom("r"), "vars": Sym("field", "vars"), "dual": Sym("field", "dual"), "dual2": Sym("field", "dual2")})
    run_case("Dual2::try_from(model)", "<dual::dual::Dual2 as std::convert::TryFrom<dual::dual::Dual2DataModel>>::try_from", [m2], lambda x: inv_dual(x, D2))

    def inv_ccy(x):
        nm = x.fields.get("name")
        if isinstance(nm, Sym) and nm.tag[:2] == ("call", "internment::Intern::<T>::new"):
            inner = nm.tag[2][0]
            return [cel.cmp_sym("Eq", Poly.atom(("len", inner, None)), Poly.const(3))]
        return [Sym("name-not-interned")]
    run_case("Ccy::try_new", "fx::rates::ccy::Ccy::try_new", [Sym("param", "name")], inv_ccy)

    def inv_pair(x):
        # FXPair(a, b): a != b must be a path condition
        if isinstance(x, Sym) and x.tag[:2] == ("ctor", "FXPair") and len(x.tag) == 4:
            a, b = x.tag[2], x.tag[3]
            return [Sym("not", vkey(eq_value(a, b)))]
        return [Sym("not-a-pair")]

    def eq_value(a, b):
        # derived PartialEq of Ccy compares the interned names
        na = a.fields["name"] if isinstance(a, Rec) else Sym("field", vkey(a), "name")
        nb = b.fields["name"] if isinstance(b, Rec) else Sym("field", vkey(b), "name")
        return cel.eq_sym(na, nb)
    run_case("FXPair::try_new", "fx::rates::fxpair::FXPair::try_new", [Sym("param", "lhs"), Sym("param", "rhs")], inv_pair)
    pm = Sym("ctor", "FXPairDataModel", Sym("m0"), Sym("m1"))
    run_case("FXPair::try_from(model)", "<fx::rates::fxpair::FXPair as std::convert::TryFrom<fx::rates::fxpair::FXPairDataModel>>::try_from", [pm],
             lambda x: [Sym("not", vkey(cel.eq_sym(x.tag[2], x.tag[3])))] if isinstance(x, Sym) and x.tag[:2] == ("ctor", "FXPair") and len(x.tag) == 4 else [Sym("not-a-pair")])

    # ---- PPSpline loader: n = |t| - k with k >= 1, t non-decreasing with >= 2 knots, and |c| = n when coefficients are present
    fn = "<splines::spline::PPSpline<T> as std::convert::TryFrom<splines::spline::PPSplineDataModel<T>>>::try_from"
    r = facts.fn(fn)
    where = "%s:%d" % (r["file"], r["line"]) if r else None
    T_ = Sym("field", "t")
    tel = lambda idx: Poly.atom(("call", "index", (vkey(T_), idx.key())))
    TS = Coll(Seq(T_, tel))
    K, N, CV = Poly.atom("k"), Poly.atom("n"), Sym("field", "cvec")
    LT, q0 = Poly.atom(("len", vkey(T_), None)), Poly.atom("q0")
    lit = lambda v, pol: next(iter(paths.atoms({(vkey(v), pol)})))
    inv = {lit(cel.cmp_sym("Lt", LT, Poly.const(2), True), False),
           (("sym", "forall", vkey(Sym("range", Poly.const(0).key(), (LT - Poly.const(1)).key())), vkey(cel.cmp_sym("Le", tel(q0), tel(q0 + Poly.const(1))))), True),   # consecutive knots (canon_seq form)
           lit(cel.cmp_sym("Lt", K, Poly.const(1), True), False),
           lit(cel.eq_sym(Sym("checked", "sub", LT.key(), K.key()), Sym("ctor", "Some", N)), True)}
    inv_c = lit(cel.cmp_sym("Eq", Poly.atom(("len", vkey(CV), None)), N), True)
    n_ok_paths = []
    for cname, cval, want in (("c=None", Sym("ctor", "None"), inv), ("c=Some", Sym("ctor", "Some", CV), inv | {inv_c})):
        key = "PPSpline::try_from(model)[%s]" % cname
        if r is None:
            ck.fail(r6, key, "function not found: " + fn)
            continue
        try:
            m = Rec("splines::spline::PPSplineDataModel", {"k": K, "t": TS, "c": cval, "n": N})
            ps = paths.flatten(cel.Ev(facts).apply_fn(fn, [m], 0))
            oks = [paths.atoms(c) for c, v in ps if isinstance(v, Sym) and v.tag[:2] == ("ctor", "Ok")]
            errs = [c for c, v in ps if isinstance(v, Sym) and v.tag[:2] == ("ctor", "Err")]
            missing = sorted({repr(a)[:160] for c in oks for a in want if a not in c})
            unrej = sorted({repr(a)[:160] for a, pol in want if not any(paths.may_establish(c, (a, not pol)) for c in errs)})
            n_ok_paths.append(len(oks))
            ck.check(r6, key, not missing and (not unrej or not oks),
                     ("an Ok path lacks the invariant(s) " + "; ".join(missing) if missing else "no Err path rejects the violation of " + "; ".join(unrej)),
                     where, sample="%d Ok / %d Err paths; n = |t| - k, k >= 1, t sorted, |t| >= 2%s" % (len(oks), len(errs), ", |c| = n" if cname == "c=Some" else ""))
            if accept:
                extra = sorted({repr(a)[:160] for c in oks for a in c if a not in want})
                ck.check(ra, key, bool(oks) and not extra, "the loader's Ok path demands more than the shape invariant (a well-shaped spline can be refused)" if oks else
                         "no Ok path: a spline in this state can never be loaded", where, detail="; ".join(extra)[:600], sample="Ok-path conditions = invariants")
        except Unsupported as e:
            ck.fail(r6, key, "rule could not be established (%s)" % e, where)
            if accept:
                ck.fail(ra, key, "rule could not be established (%s)" % e, where)
    ck.check(r6, "PPSpline::try_from(model):reached", any(n_ok_paths), "no Ok path of the spline loader was analysed (rule would hold vacuously)", where, sample="Ok paths per case: %s" % n_ok_paths)
