"""Shared by rules/c20.py and tools/c20_gen.py: entry list, reachability, site inventory."""
import re
import cfg as cfgmod

ENTRIES = [
    # number constructors
    "dual::dual::Dual::try_new", "dual::dual::Dual2::try_new", "dual::dual::Dual::try_new_from", "dual::dual::Dual2::try_new_from",
    # currency / pair / quote / market
    "fx::rates::ccy::Ccy::try_new", "fx::rates::fxpair::FXPair::try_new", "fx::rates::fxrate::FXRate::try_new",
    "fx::rates::FXRates::try_new", "fx::rates::FXRates::update", "fx::rates::FXRates::set_ad_order",
    # named calendars
    "calendars::calendar::NamedCal::try_new", "calendars::named::get_calendar_by_name",
    # business-day addition, spline solving
    "calendars::dateroll::DateRoll::add_bus_days", "calendars::dateroll::DateRoll::bus_date_range",
    "splines::spline::PPSpline::<T>::csolve",
    # loading from JSON text
    "json::JSON::from_json", "json::json_py::from_json_py",
    # the same, as a Python caller reaches them (the pyo3 wrappers return PyResult: an abort inside one is a crash of the interpreter, not an exception)
    "dual::dual_py::<impl dual::dual::Dual>::new_py", "dual::dual_py::<impl dual::dual::Dual2>::new_py",
    "dual::dual_py::<impl dual::dual::Dual>::vars_from", "dual::dual_py::<impl dual::dual::Dual2>::vars_from",
    "fx::rates_py::<impl fx::rates::ccy::Ccy>::new_py", "fx::rates_py::<impl fx::rates::fxrate::FXRate>::new_py", "fx::rates_py::<impl fx::rates::FXRates>::new_py",
    "fx::rates_py::<impl fx::rates::FXRates>::update_py", "fx::rates_py::<impl fx::rates::FXRates>::set_ad_order_py",
    "calendars::calendar_py::<impl calendars::calendar::NamedCal>::new_py", "calendars::calendar_py::get_calendar_by_name_py",
    "splines::spline_py::<impl splines::spline::PPSplineF64>::csolve", "splines::spline_py::<impl splines::spline::PPSplineDual>::csolve", "splines::spline_py::<impl splines::spline::PPSplineDual2>::csolve",
] + ["calendars::calendar_py::<impl calendars::calendar::%s>::%s_py" % (t_, m_) for t_ in ("Cal", "UnionCal", "NamedCal")
     for m_ in ("add_days", "add_bus_days", "add_months", "roll", "lag", "bus_date_range")] + [
    # total date arithmetic
    "calendars::dateroll::DateRoll::add_days", "calendars::dateroll::DateRoll::lag",
    "calendars::dateroll::DateRoll::add_months", "calendars::dateroll::DateRoll::roll",
]


def deserialize_entries(facts):
    """Every in-crate Deserialize::deserialize impl (reached by serde_json::from_str, an external generic)."""
    return sorted({r["fn"] for v in facts.fns.values() for r in v
                   if (r.get("trait_item") or "").endswith("Deserialize::deserialize")})


def root_of(name):
    """The function a closure is nested in (closure numbering is not stable under harmless edits)."""
    return re.sub(r"(::\{closure#\d+\})+$", "", name)


def family(name):
    """Macro-generated operator variants (owned/borrowed operands) share one family key; closures belong to the function they are nested in."""
    n = root_of(name).replace("&'a ", "").replace("&", "")
    n = re.sub(r"impl (std::ops::\w+) for ([\w:]+)>", r"impl \1<\2> for \2>", n)
    return n


def number_instantiated(facts):
    """Does `dual::enums::Number` ever flow into a type parameter of a local generic fn? (R20.4)"""
    hits = []
    for n, rec in facts.mir.items():
        for b in rec["blocks"]:
            t = b["term"]
            if t["k"] == "call" and t.get("local"):
                full = t.get("callee_full", "")
                for m in re.finditer(r"::<([^()]*?)>(::|$)", full):
                    if "dual::enums::Number" in m.group(1):
                        hits.append((n, full))
    return hits


class Prog(cfgmod.Program):
    """Call graph whose unresolved-trait-method fallback excludes `Number` impls when Number is never a type argument."""

    def __init__(self, facts):
        super().__init__(facts)
        self.number_hits = number_instantiated(facts)
        # pruned under the assumption that no function reachable from the entries instantiates a generic with Number; R20.4 then checks exactly that on the
        # pruned reach set (if a reachable function did, the assumption — and the pruning — would be reported as violated)
        for k in list(self.impls_of):
            self.impls_of[k] = [i for i in self.impls_of[k] if "dual::enums::Number" not in i]


def inventory(facts):
    P = Prog(facts)
    entries = list(ENTRIES) + deserialize_entries(facts)
    missing = [e for e in ENTRIES if e not in P.cfgs]
    R = P.reach(entries)
    fams = {}
    for r in sorted(R):
        c = P.cfgs[r]
        sites = cfgmod.panic_sites(c, P.cfgs)
        per = {}
        base = cfgmod.closure_creation_depth(P, r) if root_of(r) != r else 0
        for s in sites:
            s["ctrl"] = base + cfgmod.ctrl_depth(c, s["block"])
            # iteration context: loop headers around the site, and one for every closure level (a body handed to an iterator adaptor runs once per element too)
            s["loop"] = cfgmod.loop_depth(c, s["block"]) + (r.count("::{closure") if root_of(r) != r else 0)
            per.setdefault(s["kind"], []).append(s)
        fams.setdefault(family(r), []).append((r, per))
    return P, R, fams, missing
