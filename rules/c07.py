"""C07 — built-in holiday calendars agree with their published rules (constant-table analysis, engine E6)."""
import ast, csv, glob, os, re
from datetime import datetime, date, timedelta
import hir, holidays

FULL = ["tgt", "nyc", "fed", "ldn", "stk", "osl", "zur"]
PARTIAL = ["tro", "tyo", "syd", "wlg", "mum"]
FMT = "%Y-%m-%d %H:%M:%S"


def const_lits(facts, path, depth=0):
    """Literal elements of a `&[..]` const item, read from typed HIR."""
    r = facts.fn(path)
    if r is None:
        return None
    e = r["body"]
    while e.get("k") in ("ref", "block") and ("e" in e):
        e = e["e"]
    if e.get("k") == "path" and e.get("dk", "").startswith("Const") and depth < 4:
        return const_lits(facts, e["def"], depth + 1)          # `const X: &[..] = other::X;` is the other table
    if e.get("k") != "array":
        return None
    out = []
    for x in e["es"]:
        if x.get("k") != "lit":
            return None
        out.append(x["v"])
    return out


def lookup_table(facts, fn):
    """name -> const def-path from the array-of-tuples (or match) idiom inside `fn`."""
    r = facts.fn(fn)
    if r is None:
        return None
    tab = {}
    dup = []
    for e in hir.walk(r["body"]):
        if e.get("k") == "tup" and len(e["es"]) == 2 and e["es"][0].get("k") == "lit" and e["es"][0].get("lk") == "str":
            v = e["es"][1]
            while v.get("k") in ("ref", "un"):
                v = v["e"]
            if v.get("k") == "path" and v.get("dk", "").startswith("Const"):
                if e["es"][0]["v"] in tab:
                    dup.append(e["es"][0]["v"])
                tab[e["es"][0]["v"]] = v["def"]
        if e.get("k") == "match":
            for a in e["arms"]:
                p = a["pat"]
                if p.get("k") == "lit" and p.get("lk") == "str":
                    for x in hir.walk(a["body"]):
                        if x.get("k") == "path" and x.get("dk", "").startswith("Const"):
                            tab[p["v"]] = x["def"]
    return tab, dup


def candidate_keys(facts):
    """Short lower-case string literals of the code in calendars::named (functions and constants of the module itself): what a calendar key could be."""
    out = set()
    for r in facts.all_fns():
        if re.match(r"^calendars::named::[A-Za-z_]\w*$", r["fn"]):
            for e in hir.walk(r["body"]):
                if e.get("k") == "lit" and e.get("lk") == "str" and re.fullmatch(r"[a-z]{2,5}", str(e.get("v", ""))):
                    out.add(e["v"])
                for a in (e.get("arms") or []) if e.get("k") == "match" else []:
                    if a["pat"].get("k") == "lit" and a["pat"].get("lk") == "str":
                        out.add(a["pat"]["v"])
    return out


def resolve_by_evaluation(facts, names):
    """For each name, evaluate the two getters on that literal name (data constants kept symbolic): name -> constant path for holidays and week mask, plus
    the per-name plumbing verdicts. The look-up may be a HashMap written out as pairs, a `match` on the name, an array/const table searched with find, ..."""
    import cel
    from cel import Sym, Poly, Coll, Unsupported, vkey
    from rules import gather
    datac = lambda d: Sym("table", d) if re.match(r"^calendars::named::\w+::(HOLIDAYS|WEEKMASK)$", d) else None
    hk = {"@elem": gather.container_elem, "@const": datac}
    hol, wkm, verdicts = {}, {}, {}
    for n in sorted(names) + ["\0unknown"]:
        for kind, fn in (("holidays", "calendars::named::get_holidays_by_name"), ("mask", "calendars::named::get_weekmask_by_name")):
            key = (n, kind)
            try:
                got = cel.strip_early(cel.Ev(facts, hooks=hk).apply_fn(fn, [Sym("lit", n)], 0))
            except Unsupported as e:
                verdicts[key] = ("unsupported", str(e))
                continue
            if isinstance(got, cel.Alt):
                verdicts[key] = ("undecided", cel.vfmt(got)[:300])
                continue
            if isinstance(got, Sym) and got.tag[:2] == ("ctor", "Err"):
                verdicts[key] = ("err", None)
                continue
            ok, tabk = False, None
            if isinstance(got, Sym) and got.tag[:2] == ("ctor", "Ok") and len(got.tag) == 3:
                x = got.tag[2]
                if kind == "mask" and isinstance(x, Sym) and x.tag[:1] == ("table",):
                    ok, tabk = True, x.tag[1]
                if kind == "holidays" and isinstance(x, Coll) and isinstance(vkey(x.seq.src), tuple) and vkey(x.seq.src)[:2] == ("sym", "table"):
                    tabk = vkey(x.seq.src)[2]
                    el = x.seq.fn(Poly.atom("i0"))
                    lit = Sym("at", vkey(x.seq.src), Poly.atom("i0").key())
                    ok = vkey(el) == vkey(Sym("m", "unwrap", vkey(Sym("call", "chrono::NaiveDateTime::parse_from_str", (vkey(lit), vkey(Sym("lit", FMT))))), ()))
            verdicts[key] = ("ok", tabk) if ok else ("bad", cel.vfmt(got)[:300])
            if ok:
                (hol if kind == "holidays" else wkm)[n] = tabk
    return hol, wkm, verdicts


def documented_names(repo):
    src = open(os.path.join(repo, "python/rateslib/calendars/rs.py")).read()
    for n in ast.parse(src).body:
        if isinstance(n, ast.FunctionDef) and n.name == "get_calendar":
            doc = ast.get_docstring(n) or ""
            return re.findall(r'^\s*-\s+\*"(\w+)"\*:', doc, re.M)
    return []


def fixing_pairs(repo):
    """(datafile, calendar) pairs of test_calendar_against_historical_fixings, read with ast."""
    src = open(os.path.join(repo, "python/tests/test_calendarsrs.py")).read()
    tree = ast.parse(src)
    for n in ast.walk(tree):
        if isinstance(n, ast.FunctionDef) and n.name == "test_calendar_against_historical_fixings":
            for d in n.decorator_list:
                if isinstance(d, ast.Call) and len(d.args) >= 2 and isinstance(d.args[1], ast.List):
                    out = []
                    for t in d.args[1].elts:
                        if isinstance(t, ast.Tuple) and len(t.elts) >= 2:
                            out.append((t.elts[0].value, t.elts[1].value))
                    return out
    return []


def run(ck, facts, tier):
    repo = facts.repo
    named_dir = os.path.join(repo, "rust/calendars/named")
    # which constants a name resolves to is found by evaluating the getters on each candidate name (documented names and every short literal of the module),
    # so the table may be a HashMap written out as pairs, a `match`, a const array of structs searched with find, a shared helper, ...
    _, hdup = lookup_table(facts, "calendars::named::get_holidays_by_name") or ({}, [])
    _, wdup = lookup_table(facts, "calendars::named::get_weekmask_by_name") or ({}, [])
    docs0 = documented_names(repo)
    hol, wkm, verdicts = resolve_by_evaluation(facts, set(docs0) | candidate_keys(facts))

    # ---------------- R07.1 wiring
    r1 = ck.rule("R07.1", "name -> table wiring: documented names = keys of both lookup tables (which constants a name resolves to is "
                          "judged by content in R07.2, not by module name); every named/<x>.rs data file is in the module tree and referenced; get_calendar_by_name "
                          "passes its name to both lookups and builds Cal::new(holidays, weekmask)", floor=30)
    docs = documented_names(repo)
    ck.check(r1, "documented-names", len(docs) >= 14, "could not read the documented calendar names from python/rateslib/calendars/rs.py", sample=docs)
    for n in sorted(set(docs) | set(hol) | set(wkm)):
        ck.check(r1, "name=%s:documented" % n, n in docs, "calendar key `%s` is wired but not documented" % n, sample="documented")
        ck.check(r1, "name=%s:holidays-key" % n, n in hol, "documented calendar `%s` has no entry in get_holidays_by_name" % n, "rust/calendars/named/mod.rs",
                 sample=hol.get(n))
        ck.check(r1, "name=%s:weekmask-key" % n, n in wkm, "documented calendar `%s` has no entry in get_weekmask_by_name" % n, "rust/calendars/named/mod.rs",
                 sample=wkm.get(n))
    for d in hdup + wdup:
        ck.fail(r1, "name=%s:duplicate" % d, "key `%s` appears twice in a lookup table (the later entry wins silently)" % d)
    for p in sorted(glob.glob(os.path.join(named_dir, "*.rs"))):
        m = os.path.basename(p)[:-3]
        if m == "mod":
            continue
        rel = "rust/calendars/named/%s.rs" % m
        in_tree = rel in facts.files
        ck.check(r1, "file=%s:in-module-tree" % m, in_tree, "data file %s is not part of the module tree (orphan)" % rel, rel, sample="compiled")
        if in_tree and facts.fn("calendars::named::%s::HOLIDAYS" % m):
            ck.check(r1, "file=%s:referenced" % m, ("calendars::named::%s::HOLIDAYS" % m) in hol.values(),
                     "HOLIDAYS of %s is not referenced by any calendar name" % rel, rel, sample="referenced")
    g = facts.fn("calendars::named::get_calendar_by_name")
    ok, det = False, None
    if g:
        # evaluated symbolically, so `Cal::new(h(name)?, w(name)?)` and the same with the two look-ups hoisted into lets are one form
        import cel, paths
        from cel import Sym, vkey
        hk = {"calendars::named::get_holidays_by_name": lambda ev, vals, e: Sym("H", vkey(vals[0])), "calendars::named::get_weekmask_by_name": lambda ev, vals, e: Sym("W", vkey(vals[0])),
              "Cal::new": lambda ev, vals, e: Sym("cal_new", *[vkey(v) for v in vals])}
        try:
            nm = Sym("param", "name")
            got = cel.Ev(facts, hooks=hk).apply_fn(g["fn"], [nm], 0)
            ps = paths.flatten(cel.strip_early(got)) if hasattr(cel, "strip_early") else paths.flatten(got)
            det = paths.fmt_paths(got)[:500]
            oks = [v for c, v in ps if isinstance(v, Sym) and v.tag[:2] == ("ctor", "Ok")]
            want = Sym("ctor", "Ok", Sym("cal_new", vkey(Sym("H", vkey(nm))), vkey(Sym("W", vkey(nm)))))      # `?` on an opaque result stays the value
            others_err = all((isinstance(v, Sym) and v.tag[:2] == ("ctor", "Err")) or (isinstance(v, cel.EarlyRet)) or vkey(v) == vkey(want) for c, v in ps)
            ok = len(oks) == 1 and vkey(oks[0]) == vkey(want) and others_err
        except cel.Unsupported as e_:
            det = "rule could not be established (%s)" % e_
    ck.check(r1, "get_calendar_by_name", ok, "get_calendar_by_name is not Cal::new(get_holidays_by_name(name)?, get_weekmask_by_name(name)?)",
             "rust/calendars/named/mod.rs", detail=det, sample="Cal::new(holidays(name)?, weekmask(name)?)")

    # the name a Python user resolves goes through the exported wrapper: it hands the name on as given (no second list of names, no rewriting)
    gp = facts.fn("calendars::calendar_py::get_calendar_by_name_py")
    okp, detp = False, "wrapper not found"
    if gp:
        import cel
        from cel import Sym, vkey
        try:
            nm = Sym("param", "name")
            gotp = cel.strip_early(cel.Ev(facts, hooks={"calendars::named::get_calendar_by_name": lambda ev, vals, e: Sym("lookup", vkey(vals[0]))}).apply_fn(gp["fn"], [nm], 0))
            okp = vkey(gotp) == vkey(Sym("lookup", vkey(nm)))
            detp = cel.vfmt(gotp)[:300]
        except cel.Unsupported as e_:
            detp = "rule could not be established (%s)" % e_
    ck.check(r1, "get_calendar_by_name_py", okp, "the exported get_named_calendar is not get_calendar_by_name(name) with the name as given", "rust/calendars/calendar_py.rs",
             detail=detp, sample="get_calendar_by_name(name)")

    # what Python reads back as a calendar's holidays is every holiday of every member, sorted: none dropped (the last one included)
    import cel as cel_
    from cel import Sym as Sym_, Rec as Rec_, vkey as vkey_
    CALS_ = Sym_("field", "calendars")
    hfn = "calendars::calendar_py::<impl calendars::calendar::UnionCal>::holidays"
    rh = facts.fn(hfn)
    if rh is None:
        ck.fail(r1, "UnionCal::holidays(py)", "getter not found")
    else:
        try:
            elem_ = lambda cont: (lambda idx: Rec_("calendars::calendar::Cal", {"holidays": Sym_("hol", idx.key()), "week_mask": Sym_("mask", idx.key())})) if vkey_(cont) == vkey_(CALS_) else None
            me_ = Rec_("calendars::calendar::UnionCal", {"calendars": CALS_, "settlement_calendars": Sym_("field", "settlement_calendars")})
            goth = cel_.strip_early(cel_.Ev(facts, hooks={"@elem": elem_}).apply_fn(hfn, [me_], 0))
            step = Sym_("collect", vkey_(Sym_("m", "union", vkey_(Sym_("acc")), (vkey_(Sym_("hol", cel_.Poly.atom("q0").key())),))))
            fold_ = Sym_("fold", vkey_(CALS_), vkey_(Sym_("call", "indexmap::IndexSet::<T>::new", ())), vkey_(step))
            wanth = Sym_("ctor", "Ok", Sym_("collect", vkey_(Sym_("mut", "sort", vkey_(fold_), ()))))
            ck.check(r1, "UnionCal::holidays(py)", vkey_(goth) == vkey_(wanth), "the holidays a union hands to Python are not the sorted union of every member's holidays: %s" % cel_.vfmt(goth)[:300],
                     "%s:%d" % (rh["file"], rh["line"]), sample="sorted(union of member holidays)")
        except cel_.Unsupported as e_:
            ck.fail(r1, "UnionCal::holidays(py)", "rule could not be established (%s)" % e_, "%s:%d" % (rh["file"], rh["line"]))
    for ty_, want_ in (("Cal", None), ("NamedCal", "union")):
        gfn = "calendars::calendar_py::<impl calendars::calendar::%s>::holidays" % ty_
        rg = facts.fn(gfn)
        if rg is None:
            ck.fail(r1, "%s::holidays(py)" % ty_, "getter not found")
            continue
        try:
            if ty_ == "Cal":
                gotg = cel_.strip_early(cel_.Ev(facts).apply_fn(gfn, [Rec_("calendars::calendar::Cal", {"holidays": Sym_("field", "holidays"), "week_mask": Sym_("field", "week_mask")})], 0))
                def walk_(k):
                    # walking a stored collection element by element and collecting it again is the collection
                    if isinstance(k, tuple):
                        if len(k) == 5 and k[:2] == ("sym", "m") and not k[4]:
                            if k[2] == "collect":
                                return ("sym", "collect", walk_(k[3]))
                            if k[2] in ("into_iter", "iter", "cloned", "copied", "clone"):
                                return walk_(k[3])
                        return tuple(walk_(x_) for x_ in k)
                    return k
                okg = walk_(vkey_(gotg)) == vkey_(Sym_("ctor", "Ok", Sym_("collect", vkey_(Sym_("field", "holidays")))))
            else:
                gotg = cel_.strip_early(cel_.Ev(facts, hooks={"<impl calendars::calendar::UnionCal>::holidays": lambda ev_, vals, e: Sym_("union_holidays", *[vkey_(v) for v in vals])}).apply_fn(
                    gfn, [Rec_("calendars::calendar::NamedCal", {"name": Sym_("field", "name"), "union_cal": Sym_("field", "union_cal")})], 0))
                okg = vkey_(gotg) == vkey_(Sym_("union_holidays", vkey_(Sym_("field", "union_cal"))))
            ck.check(r1, "%s::holidays(py)" % ty_, okg, "the holidays handed to Python are not the stored ones: %s" % cel_.vfmt(gotg)[:200], "%s:%d" % (rg["file"], rg["line"]),
                     sample="all stored holidays" if ty_ == "Cal" else "union_cal.holidays()")
        except cel_.Unsupported as e_:
            ck.fail(r1, "%s::holidays(py)" % ty_, "rule could not be established (%s)" % e_, "%s:%d" % (rg["file"], rg["line"]))

    # ---------------- tables
    tables, masks = {}, {}
    r2 = ck.rule("R07.2", "for tgt,nyc,fed,ldn,stk,osl,zur: the set of weekday dates in the HOLIDAYS literals the name resolves to equals the set generated "
                          "by interpreting the declarative Holiday(...) RULES of <name>_script.py over 1970-01-01..2200-12-31; every literal parses under "
                          "the format string; week mask is [5,6]; all/bus have no holidays; fed = nyc minus Good Friday", floor=30)
    # the format literal may sit in get_holidays_by_name or in a helper it calls (R07.5 decides that it is the one handed to parse_from_str for every literal)
    fmts = {e["v"] for fn_ in facts.all_fns() if fn_["fn"].startswith("calendars::named::") and fn_["fn"].count("::") == 2 for e in hir.walk(fn_["body"])
            if e.get("k") == "lit" and e.get("lk") == "str" and "%Y" in e["v"]}
    fmt_ok = next(iter(fmts)) if len(fmts) == 1 else (sorted(fmts) or None)
    ck.check(r2, "format-string", fmt_ok == FMT, "parse format is %r, expected %r" % (fmt_ok, FMT), sample=fmt_ok)
    for n in sorted(hol):
        lits = const_lits(facts, hol[n])
        if lits is None:
            ck.fail(r2, "table=%s:literals" % n, "HOLIDAYS table %s is not a literal array" % hol[n])
            continue
        ds, bad = set(), []
        for s in lits:
            try:
                ds.add(datetime.strptime(s, FMT).date())
            except ValueError:
                bad.append(s)
        ck.check(r2, "table=%s:literals-parse" % n, not bad, "literal(s) %s do not parse under %s (get_holidays_by_name would abort)" % (bad[:3], FMT),
                 sample="%d literals parse" % len(lits))
        tables[n] = ds
        m = const_lits(facts, wkm[n]) if n in wkm else None
        masks[n] = [int(x) for x in m] if m is not None else None
    for n in FULL + PARTIAL + ["bus"]:
        if n in masks:
            ck.check(r2, "mask=%s" % n, masks[n] is not None and sorted(masks[n]) == [5, 6], "week mask of `%s` is %s, expected [5, 6]" % (n, masks[n]), sample=masks[n])
    if "all" in masks:
        ck.check(r2, "mask=all", masks["all"] == [], "week mask of `all` is %s, expected []" % masks["all"], sample=[])
    for n in ("all", "bus"):
        if n in tables:
            ck.check(r2, "table=%s:empty" % n, not tables[n], "`%s` must have no holidays, has %d" % (n, len(tables[n])), sample="0 holidays")
    interp = {}
    for n in FULL + PARTIAL:
        sp = os.path.join(named_dir, "%s_script.py" % n)
        try:
            interp[n] = holidays.parse_script(sp)
        except (OSError, SyntaxError, holidays.Unsupported) as e:
            ck.fail(r2 if n in FULL else "R07.2", "script=%s" % n, "cannot interpret %s: %s" % (sp, e))
    for n in FULL:
        if n not in interp or n not in tables:
            if n not in tables:
                ck.fail(r2, "table=%s" % n, "no table resolves for `%s`" % n)
            continue
        rules, bad = interp[n]
        if bad:
            ck.fail(r2, "script=%s:unsupported" % n, "rule(s) outside the interpreted subset: %s" % bad[:2])
            continue
        exp = holidays.weekday_holidays(rules)
        got = {d for d in tables[n] if d.weekday() < 5}
        missing, extra = sorted(exp - got), sorted(got - exp)
        ck.check(r2, "table=%s:missing" % n, not missing,
                 "%d weekday holiday(s) required by the rules are absent from the table `%s` resolves to, first %s" % (len(missing), n, missing[:3]),
                 "rust/calendars/named/%s.rs" % hol[n].split("::")[-2], sample="%d rule dates all present" % len(exp))
        ck.check(r2, "table=%s:extra" % n, not extra,
                 "%d weekday(s) are holidays in the table `%s` resolves to but not by the rules, first %s" % (len(extra), n, extra[:3]),
                 "rust/calendars/named/%s.rs" % hol[n].split("::")[-2], sample="no weekday outside the rules among %d" % len(got))
    if "fed" in tables and "nyc" in tables:
        gf = {holidays.easter(y) - timedelta(2) for y in range(1970, 2201)}
        a = {d for d in tables["fed"] if d.weekday() < 5}
        b = {d for d in tables["nyc"] if d.weekday() < 5} - gf
        ck.check(r2, "fed=nyc-minus-good-friday", a == b, "`fed` differs from `nyc` without Good Friday on %d weekdays, first %s"
                 % (len(a ^ b), sorted(a ^ b)[:3]), sample="equal on %d weekdays; %d Good Fridays removed" % (len(a), len(gf)))

    # ---------------- R07.3 partial calendars
    r3 = ck.rule("R07.3", "for tro,tyo,syd,wlg,mum: every weekday instance of each interpretable rule of <name>_script.py (fixed-date, Easter-linked, "
                          "n-th weekday, standard observances) is in the table; rules using script-local observance functions are listed, not checked", floor=5)
    skipped = {}
    for n in PARTIAL:
        if n not in interp or n not in tables:
            ck.fail(r3, "table=%s" % n, "no table or script for `%s`" % n)
            continue
        rules, bad = interp[n]
        skipped[n] = [b[0] for b in bad]
        got = tables[n]
        miss = []
        for r in rules:
            for d in r.dates():
                if d.weekday() < 5 and d not in got:
                    miss.append((r.name, d))
        ck.check(r3, "table=%s:missing" % n, not miss, "%d weekday occurrence(s) of documented holidays absent from `%s`, first %s" % (len(miss), n, miss[:2]),
                 "rust/calendars/named/%s.rs" % n, sample="%d rules, all weekday occurrences present; not interpreted: %s" % (len(rules), skipped[n]))
    ck.extra["rules_not_interpreted"] = skipped

    # ---------------- R07.4 fixing histories
    r4 = ck.rule("R07.4", "for each (fixing csv, calendar) pair of the repository's back-test: first and last publication dates are business days and the "
                          "business days of the calendar between them (weekdays outside the mask and the table) are exactly the CSV's dates", floor=9)
    pairs = fixing_pairs(repo)
    ck.check(r4, "pairs", len(pairs) >= 9, "could not read the (datafile, calendar) pairs from python/tests/test_calendarsrs.py", sample=pairs)
    for datafile, cal in pairs:
        p = os.path.join(repo, "python/rateslib/data/%s.csv" % datafile)
        try:
            with open(p, encoding="utf-8-sig") as fh:
                rows = list(csv.reader(fh))
            dates = {datetime.strptime(r[0], "%d-%m-%Y").date() for r in rows[1:] if r}
        except (OSError, ValueError) as e:
            ck.fail(r4, "csv=%s" % datafile, "cannot read %s: %s" % (p, e))
            continue
        if cal not in tables or masks.get(cal) is None:
            ck.fail(r4, "csv=%s" % datafile, "calendar `%s` has no resolved table" % cal)
            continue
        lo, hi = min(dates), max(dates)
        mask = set(masks[cal])
        bus, d = set(), lo
        while d <= hi:
            if d.weekday() not in mask and d not in tables[cal]:
                bus.add(d)
            d += timedelta(1)
        a, b = sorted(dates - bus), sorted(bus - dates)
        ck.check(r4, "csv=%s/%s:published-but-holiday" % (datafile, cal), not a,
                 "%d publication date(s) are non-business days of `%s`, first %s" % (len(a), cal, a[:3]), "python/rateslib/data/%s.csv" % datafile,
                 sample="%d publication dates all business days" % len(dates))
        ck.check(r4, "csv=%s/%s:business-but-unpublished" % (datafile, cal), not b,
                 "%d business day(s) of `%s` have no publication, first %s" % (len(b), cal, b[:3]), "python/rateslib/data/%s.csv" % datafile,
                 sample="%s..%s: %d business days = publication dates" % (lo, hi, len(bus)))

    # ---------------- R07.5 nothing between the literals and the calendar object alters them
    import cel
    from cel import Sym, Poly, Coll, Tup, Rec, Unsupported, vkey
    from rules import gather
    r5 = ck.rule("R07.5", "plumbing: get_holidays_by_name returns exactly one parsed date per literal of the table it looked up (no filtering, deduplication or "
                          "truncation); get_weekmask_by_name returns the mask unchanged; Cal::new stores the set of all given holidays and the set of all given mask days", floor=3)
    hk = {"@elem": gather.container_elem, "HashMap<K, V> as std::convert::From<[(K, V); N]>>::from": lambda ev, vals, e: Sym("hmap"),
          "std::collections::HashMap::<K, V, S, A>::get": lambda ev, vals, e: Sym("lookup", vkey(vals[1]))}
    NAME = Sym("param", "name")
    for fn, kind in (("calendars::named::get_holidays_by_name", "holidays"), ("calendars::named::get_weekmask_by_name", "mask")):
        r = facts.fn(fn)
        where = "%s:%d" % (r["file"], r["line"]) if r else None
        short = fn.rsplit("::", 1)[-1]
        known = sorted(n for (n, k_), v in verdicts.items() if k_ == kind and v[0] != "err")
        bad = [(n, verdicts[(n, kind)]) for n in known if verdicts[(n, kind)][0] != "ok"]
        unk = verdicts.get(("\0unknown", kind))
        okm = unk is not None and unk[0] == "err"
        what = "unknown name -> Err; otherwise collect(parse(literal) for every literal of the table)" if kind == "holidays" else "unknown name -> Err; otherwise the table's mask unchanged"
        ck.check(r5, short, okm and not bad and len(known) >= 14, "%s is not: %s" % (short, what), where,
                 detail=("name %r: %s" % (bad[0][0], bad[0][1][1]) if bad else ("unknown name gives %s" % (unk,))), sample="%d names evaluated: Ok(table data unchanged); unknown name: Err" % len(known))
    r = facts.fn("calendars::calendar::Cal::new")
    try:
        H, W = Sym("param", "holidays"), Sym("param", "week_mask")
        got = cel.Ev(facts, hooks={"@elem": gather.container_elem}).apply_fn("calendars::calendar::Cal::new", [H, W], 0)
        ok = isinstance(got, Rec) and vkey(got.fields.get("holidays")) == vkey(Sym("collect", vkey(H))) and isinstance(got.fields.get("week_mask"), Coll) and \
            vkey(got.fields["week_mask"].seq.src) == vkey(W)
        if ok:
            el = got.fields["week_mask"].seq.fn(Poly.atom("i0"))
            ok = vkey(el) == vkey(Sym("m", "unwrap", vkey(Sym("call", "<chrono::Weekday as std::convert::TryFrom<u8>>::try_from", (vkey(Sym("at", vkey(W), Poly.atom("i0").key())),))), ()))
        ck.check(r5, "Cal::new", ok, "Cal::new does not store exactly the given holidays and the weekdays of the given mask", "%s:%d" % (r["file"], r["line"]) if r else None,
                 detail=cel.vfmt(got)[:400], sample="holidays: from_iter(holidays), week_mask: from_iter(mask.map(Weekday::try_from))")
    except Unsupported as e:
        ck.fail(r5, "Cal::new", "rule could not be established (%s)" % e)
    # a date is "reported as a holiday" through Cal's membership tests (C06 R06.2), and the back-test's "business days between first and last publication"
    # are enumerated by bus_date_range stepping with add_bus_days / the roll search (C05 R05.1, R05.5; C04 R04.1): necessary conditions of the statement
    from rules import c06, c05, c04, c16
    nd_, tb_ = list(ck.not_decided), list(ck.trusted)
    # a built-in calendar that went through to_json/from_json or a pickle must still be that calendar: every stored field of the calendar types travels
    # unchanged (C16 S16.2/S16.3/S16.7 for the calendar types only)
    c16.run(ck, facts, tier, only_types=r"^calendars::calendar::")
    if not getattr(ck, "_c06_c07_nested", False):          # (C06 includes R07.1/R07.2 of this module in turn)
        ck._c06_c07_nested = True
        try:
            with ck.restrict({"R06.0", "R06.2", "R06.3"}):          # R06.3: a name is parsed piece by piece through get_calendar_by_name, every time
                c06.run(ck, facts, tier)
        finally:
            ck._c06_c07_nested = False
    with ck.restrict({"R05.1", "R05.5", "R04.1", "R04.5"}):
        c05.run(ck, facts, tier)
    ck.not_decided[:], ck.trusted[:] = nd_, tb_
    ck.not_decided += ["whether the repository's <name>_script.py rule lists match the central banks' publications (they are the repo's statement of the rules)",
                       "holidays of tro/tyo/syd/wlg/mum produced by script-local observance functions (listed under rules_not_interpreted)"]
    ck.trusted += ["lib/holidays.py interpreter of the pandas Holiday subset (validated by reproducing every fully interpretable table exactly)", "python ast/csv"]
