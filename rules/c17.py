"""C17 — gradients are read back by name, in the order asked for."""
import cel, hir
from cel import Poly, Rec, Alt, Sym, Tup, Seq, Coll, Arr, Unsupported
from rules import gather

D1, D2 = "dual::dual::Dual", "dual::dual::Dual2"
FAST = {"ArcEquivalent", "ValueEquivalent"}


def arms_of(v):
    """[(set of state names or '_', value)] for a result branching on a vars_cmp state."""
    out = []
    if isinstance(v, Alt):
        for g, x in v.alts:
            if g[0] == "arm":
                pk = g[1]
                names = set(pk) if isinstance(pk, tuple) else {pk}
                out.append((names, g[2], x))
            elif g[0] == "not" and isinstance(g[1], tuple) and g[1][:1] == ("arm",):
                out.append(({"_"}, g[1][2], x))          # catch-all arm of a two-way branch (`_ =>`, `else`, `!matches!`)
            else:
                return None
        return out
    return None


def run(ck, facts, tier, only=None):
    """only: None (all) | set of {'gradient1[Dual]', 'gradient1[Dual2]', 'gradient2[Dual2]', 'manifold'} when included by another property"""
    hooks = {"@elem": gather.container_elem}
    vars_req = Sym("param", "vars")
    T = Sym("collect", cel.vkey(vars_req))
    # ---------------- R17.1 gradient1 / gradient2
    r1 = ck.rule("R17.1", "gradient1 / gradient2: the stored array is returned as is only when the requested list is Arc- or Value-equivalent to the stored list "
                          "(vars_cmp against the requested list); otherwise the answer is gathered by name: entry i is the stored derivative at "
                          "get_index_of(stored vars, requested[i]) and zero when absent — so the order of the answer is the order asked", floor=3 if only is None else len([x for x in only if x.startswith("gradient")]))
    r2 = ck.rule("R17.2", "the stored half-Hessian is multiplied by exactly 2 on both paths of gradient2 (and in the manifold rows)", floor=3 if only is None else (2 if "gradient2[Dual2]" in only else 0))
    for fn, num, fld, ndim in (("dual::dual::Gradient1::gradient1", D1, "dual", 1), ("dual::dual::Gradient1::gradient1", D2, "dual", 1),
                               ("dual::dual::Gradient2::gradient2", D2, "dual2", 2)):
        r = facts.fn(fn)
        key = "%s[%s]" % (fn.rsplit("::", 1)[-1], num.rsplit("::", 1)[-1])
        if only is not None and key not in only:
            continue
        if r is None:
            ck.fail(r1, key, "function not found")
            continue
        where = "%s:%d" % (r["file"], r["line"])
        a = cel.operand("a", num)
        ev = cel.Ev(facts, hooks=hooks)
        try:
            res = ev.apply_fn(fn, [a, vars_req], 0)
        except Unsupported as e:
            ck.fail(r1, key, "rule could not be established (%s)" % e, where)
            continue
        arms = arms_of(res)
        S, A = a.fields["vars"], a.fields[fld]
        want_state = cel.vkey(Sym("vars_cmp", cel.vkey(S), cel.vkey(T)))
        scale = 2 if ndim == 2 else 1
        ok = arms is not None and len(arms) == 2 and all(st == want_state for _, st, _ in arms)
        why = "result does not branch on vars_cmp(stored vars, requested list): %s" % cel.vfmt(res)[:300]
        if ok:
            fast = [(n, x) for n, _, x in arms if n <= FAST]
            slow = [(n, x) for n, _, x in arms if not (n <= FAST)]
            ok = len(fast) == 1 and len(slow) == 1
            why = "fast path is taken for relationships other than Arc/ValueEquivalent: %s" % [sorted(n) for n, _, _ in arms]
            if ok:
                okf = isinstance(cel.num(fast[0][1]), Poly) and cel.num(fast[0][1]) == A.scale(scale)
                oks = gather.is_gather1(slow[0][1], S, T, A) if ndim == 1 else gather.is_gather2(slow[0][1], S, T, A, 2)
                if ndim == 2:
                    ck.check(r2, key + ":fast", okf, "fast path of gradient2 is not 2 x stored array: %s" % cel.vfmt(fast[0][1])[:200], where, sample="2*a.dual2")
                    n2 = gather.nf(slow[0][1], 2)
                    unscaled = n2 is not None and (n2 == gather.expected_gather2(S, T, A, 1) or n2 == gather.expected_gather2(S, T, A, 1, True))
                    ck.check(r2, key + ":gather", oks or not unscaled, "gather path of gradient2 forgets the factor 2", where, sample="2*a.dual2[idx_i, idx_j]")
                ok = okf and oks
                why = "fast path is not the stored array, or the other path is not a gather by name with zero default: fast=%s ; gather=%s" % (
                    cel.vfmt(fast[0][1])[:200], cel.vfmt(slow[0][1])[:500])
        ck.check(r1, key, ok, why, where, sample="[Arc|Value] stored array ; [_] out[i] = stored[get_index_of(stored vars, requested[i])] else 0")

    # ---------------- R17.3 manifold
    r3 = ck.rule("R17.3", "gradient1_manifold: entry i has value = stored dual[idx_i], gradient[j] = 2*stored dual2[idx_i, idx_j], zero Hessian, on the requested "
                          "variable list; a requested name the number does not depend on gives the zero number on that list", floor=1 if only is None or "manifold" in only else 0)
    fn = "dual::dual::Gradient2::gradient1_manifold"
    r = facts.fn(fn)
    if only is not None and "manifold" not in only:
        pass
    elif r is None:
        ck.fail(r3, "gradient1_manifold", "function not found")
    else:
        where = "%s:%d" % (r["file"], r["line"])
        a = cel.operand("a", D2)
        ev = cel.Ev(facts, hooks=hooks)
        try:
            res = ev.apply_fn(fn, [a, vars_req], 0)
            S = a.fields["vars"]
            Tm = vars_req                      # the manifold iterates the requested Vec itself
            if isinstance(res, cel.Coll) and cel.vkey(res.seq.src) == cel.vkey(Tm):
                # one entry pushed per requested name (`grad.push(match idx { Some(..) => .., None => zero })`, then from_vec): the same array as the
                # pre-sized one written at the enumerate index
                el_ = res.seq.fn(Poly.atom("i0"))
                if isinstance(el_, cel.Alt):
                    arr_ = Arr([Poly.atom(("len", cel.vkey(Tm), None))], Poly.const(0))
                    for gs_, x_ in cel.flat_alts(el_):
                        pos_ = tuple(g_ for g_ in gs_ if not (isinstance(g_, tuple) and g_[0] == "not"))
                        if isinstance(x_, Rec):
                            for fv_ in x_.fields.values():
                                if isinstance(fv_, Arr):          # an array built inside this alternative is built under the alternative's condition
                                    for w_ in fv_.writes:
                                        w_["guards"] = pos_ + tuple(g_ for g_ in w_["guards"] if g_ not in pos_)
                        arr_.writes.append({"idx": [Poly.atom("i0")], "guards": tuple(g_ for g_ in gs_ if not (isinstance(g_, tuple) and g_[0] == "not")),
                                            "loops": (("i0", cel.vkey(Tm)),), "val": x_, "seq": len(arr_.writes) + 1})
                    res = arr_
            ok = isinstance(res, Arr) and len(res.writes) == 2
            why = "result is not an array with one entry per requested name (present / absent cases): %s" % cel.vfmt(res)[:400]
            if ok:
                g0, g1 = gather.G(S, Tm, "i0"), gather.G(S, Tm, "i1")
                some0 = ("arm", gather.SOME, cel.vkey(g0))
                pres = [w for w in res.writes if some0 in w["guards"]]
                absn = [w for w in res.writes if some0 not in w["guards"]]
                ok = len(pres) == 1 and len(absn) == 1 and all([cel.vkey(i) for i in w["idx"]] == [Poly.atom("i0").key()] for w in res.writes)
                why = "entries are not written at the enumerate index under present/absent guards"
                if ok:
                    e = pres[0]["val"]
                    newvars = Sym("collect", cel.vkey(vars_req))
                    ok = isinstance(e, Rec) and e.adt == D2 and e.fields["real"] == gather.read(a.fields["dual"], gather.payload(g0)) and \
                        cel.num(e.fields["dual2"]) == Poly({}, 2) and cel.vkey(e.fields["vars"]) == cel.vkey(newvars)
                    why = "present entry: value is not dual[idx_i], Hessian not zero, or variables not the requested list: %s" % cel.vfmt(e)[:400]
                    if ok:
                        d = e.fields["dual"]
                        want = ((cel.vkey(Tm), cel.vkey(Tm)), Poly.const(0).key(),
                                {frozenset([some0, ("arm", gather.SOME, cel.vkey(g1))]): gather.read(a.fields["dual2"], gather.payload(g0), gather.payload(g1)).scale(2).key()})
                        wantT = (want[0], want[1], {k: gather.read(a.fields["dual2"], gather.payload(g1), gather.payload(g0)).scale(2).key() for k in want[2]})
                        got = None
                        if isinstance(d, Arr):
                            cases = {}
                            for w in d.writes:
                                if [cel.vkey(i) for i in w["idx"]] == [Poly.atom("i1").key()]:
                                    cases[frozenset(w["guards"])] = cel.vkey(w["val"])
                            got = (tuple(l[1] for l in d.writes[0]["loops"]) if d.writes else None, cel.vkey(d.base), cases)
                        ok = got in (want, wantT)
                        ck.check(r2, "gradient1_manifold:row", ok, "manifold gradient row is not 2*dual2[idx_i, idx_j]: %s" % cel.vfmt(d)[:400], where, sample="dual[j] = 2*a.dual2[idx_i, idx_j]")
                        why = "manifold gradient row wrong (see R17.2)"
                    if ok:
                        z = absn[0]["val"]
                        okz = isinstance(z, Rec) and z.fields["real"].is_zero() and cel.vkey(z.fields["vars"]) == cel.vkey(newvars) and cel.num(z.fields["dual2"]) == Poly({}, 2)
                        zd = cel.num(z.fields["dual"]) if isinstance(z, Rec) else None
                        ck.check(r3, "gradient1_manifold:absent-name", okz and isinstance(zd, Poly) and zd.is_zero(),
                                 "the entry for a requested name the number does not depend on is not the zero number: its own gradient is %s (the matching Hessian row is zero)"
                                 % (cel.vfmt(zd)[:120] if zd is not None else None), where, sample="absent name -> (0, zeros, zeros) on the requested list")
                        ok = okz
                        why = "absent name does not give a zero-valued number on the requested list: %s" % cel.vfmt(z)[:300]
            ck.check(r3, "gradient1_manifold", ok, why, where, sample="grad[i] = Dual2{real: dual[idx_i], dual[j]: 2*dual2[idx_i,idx_j], dual2: 0, vars: requested}")
        except Unsupported as e:
            ck.fail(r3, "gradient1_manifold", "rule could not be established (%s)" % e, where)
    if only is not None:
        return
    if only is None:
        from rules import pywrap
        pywrap.run_gradient_wrappers(ck, facts)
        # "the product rule applied to manifolds reproduces second derivatives of a product": the product is Dual2 * Dual2 on numbers aligned by name — the
        # operator rules (C02 R02.1) and the alignment rules (C03) are necessary conditions of the statement
        from rules import deps
        deps.include_ad(ck, facts, tier)
    ck.not_decided += ["the product-rule identity on concrete numbers (a consequence of R17.3 + C02)", "requested lists with repeated names (the IndexSet drops duplicates; the manifold then sizes its arrays by the raw list)"]
    ck.trusted += ["lib/cel.py array-comprehension semantics (guarded indexed writes in loops)", "indexmap get_index_of = position by name"]
