"""C08 — month arithmetic and roll-day rules: the table clauses (IMM table, roll dispatch, day capping, end of month, leap year)."""
import cel, paths, hir
from cel import Poly, Sym, Rec, Tup, Alt, Unsupported, vkey
from rules.dates_common import R, P, S, D, hooks as date_hooks, LV, ITER

MOD = "calendars::dateroll::"
WEEKDAYS = ["Mon", "Tue", "Wed", "Thu", "Fri", "Sat", "Sun"]
Y, M = Poly.atom("year"), Poly.atom("month")


def ndt(*a):
    return Sym("ndt", *[vkey(x) for x in a])


def run(ck, facts, tier):
    base = {"calendars::calendar::ndt": lambda ev, vals, e: ndt(*vals)}
    # ---------------- R08.1 IMM table
    r1 = ck.rule("R08.1", "get_imm: the weekday of the 1st of the same (year, month) selects day 15 + ((2 - weekday) mod 7) (Mon = 0): the third Wednesday, for all 7 weekdays", floor=8)
    fn = MOD + "get_imm"
    r = facts.fn(fn)
    where = "%s:%d" % (r["file"], r["line"]) if r else None
    seen_recv = []
    for i, wd in enumerate(WEEKDAYS):
        def wk(ev, vals, e, wd=wd):
            seen_recv.append(vals[0])
            return Sym("ctor", wd)
        try:
            got = cel.Ev(facts, hooks=dict(base, **{"Datelike>::weekday": wk, "Datelike::weekday": wk})).apply_fn(fn, [Y, M], 0)
            day = 15 + ((2 - i) % 7)
            ck.check(r1, "first-is-" + wd, vkey(got) == vkey(ndt(Y, M, Poly.const(day))), "month starting on %s: IMM day is not %d" % (wd, day), where, detail=cel.vfmt(got)[:200],
                     sample="ndt(year, month, %d)" % day)
        except Unsupported as e:
            ck.fail(r1, "first-is-" + wd, "rule could not be established (%s)" % e, where)
    ck.check(r1, "scrutinee", bool(seen_recv) and all(vkey(x) == vkey(ndt(Y, M, Poly.const(1))) for x in seen_recv), "the table is not keyed on the weekday of the 1st of the same month", where,
             sample="ndt(year, month, 1).weekday()")
    # ---------------- R08.2 roll dispatch
    r2 = ck.rule("R08.2", "get_roll: Int{day} -> day capped in that month, EoM -> 31 capped, SoM -> 1, IMM -> get_imm, Unspecified -> Err; add_months rewrites Unspecified to "
                          "the start date's own day, passes other rolls through, asks get_roll for (year + carry, new month, roll) and adjusts with its own modifier/settlement", floor=7)
    hk = dict(base, **date_hooks())
    fn = MOD + "get_roll"
    r = facts.fn(fn)
    where = "%s:%d" % (r["file"], r["line"]) if r else None
    dayv = Poly.atom("d")
    cases = [("Int", Sym("ctor", "Int", Rec("calendars::dateroll::RollDay", {"day": dayv})), Sym("ctor", "Ok", R("get_roll_by_day", Y, M, dayv))),
             ("EoM", Sym("ctor", "EoM", Rec("calendars::dateroll::RollDay", {})), Sym("ctor", "Ok", R("get_roll_by_day", Y, M, Poly.const(31)))),
             ("SoM", Sym("ctor", "SoM", Rec("calendars::dateroll::RollDay", {})), Sym("ctor", "Ok", R("get_roll_by_day", Y, M, Poly.const(1)))),
             ("IMM", Sym("ctor", "IMM", Rec("calendars::dateroll::RollDay", {})), Sym("ctor", "Ok", R("get_imm", Y, M))),
             ("Unspecified", Sym("ctor", "Unspecified", Rec("calendars::dateroll::RollDay", {})), None)]
    for name, val, want in cases:
        try:
            got = cel.Ev(facts, hooks=hk).apply_fn(fn, [Y, M, val], 0)
            ok = vkey(got) == vkey(want) if want is not None else (isinstance(got, Sym) and got.tag[:2] == ("ctor", "Err"))
            ck.check(r2, "get_roll[%s]" % name, ok, "get_roll for %s gives %s" % (name, cel.vfmt(got)[:200]), where, sample=cel.vfmt(want)[:120] if want is not None else "Err")
        except Unsupported as e:
            ck.fail(r2, "get_roll[%s]" % name, "rule could not be established (%s)" % e, where)
    fn = MOD + "DateRoll::add_months"
    r = facts.fn(fn)
    where = "%s:%d" % (r["file"], r["line"]) if r else None
    for name, val in (("Unspecified", Sym("ctor", "Unspecified", Rec("calendars::dateroll::RollDay", {}))), ("IMM", Sym("ctor", "IMM", Rec("calendars::dateroll::RollDay", {})))):
        try:
            h2 = {k: v for k, v in hk.items() if not k.endswith("::add_months")}
            mods, MODI, ST = Poly.atom("months"), Sym("param", "modifier"), Sym("param", "settlement")
            got = cel.Ev(facts, hooks=h2).apply_fn(fn, [S, D, mods, MODI, val, ST], 0)
            leaves = [v for _, v in paths.flatten(got)]
            ok = bool(leaves)
            for v in leaves:
                # roll(self, get_roll(year(date)+carry, month', roll_).unwrap(), modifier, settlement)
                ok = ok and isinstance(v, Sym) and v.tag[:2] == ("roll", "roll") and v.tag[2] == vkey(S) and v.tag[4:] == (vkey(MODI), vkey(ST))
                inner = v.tag[3] if ok else None
                ok = ok and isinstance(inner, tuple) and inner[:3] == ("sym", "m", "unwrap") and inner[3][:3] == ("sym", "roll", "get_roll")
                if ok:
                    rollarg = inner[3][5]
                    if name == "Unspecified":
                        want_roll = vkey(Sym("ctor", "Int", Rec("calendars::dateroll::RollDay", {"day": Sym("m", "day", vkey(D), ())})))
                    else:
                        want_roll = vkey(val)
                    ok = rollarg == want_roll
            ck.check(r2, "add_months[%s]" % name, ok, "add_months with roll %s does not pass %s to get_roll and adjust the result with its own modifier/settlement"
                     % (name, "Int{day: date.day()}" if name == "Unspecified" else "the roll unchanged"), where, detail=paths.fmt_paths(got)[:600],
                     sample="roll(get_roll(y', m', %s).unwrap(), modifier, settlement)" % ("Int{date.day()}" if name == "Unspecified" else name))
        except Unsupported as e:
            ck.fail(r2, "add_months[%s]" % name, "rule could not be established (%s)" % e, where)
    # ---------------- R08.3 day capping
    r3 = ck.rule("R08.3", "get_roll_by_day: a valid (year, month, day) is returned at midnight; an invalid one retries with day - 1 only while day > 28, else aborts", floor=3)
    fn = MOD + "get_roll_by_day"
    r = facts.fn(fn)
    where = "%s:%d" % (r["file"], r["line"]) if r else None
    try:
        dv = Poly.atom("day")
        hk3 = dict(hk)
        got = cel.Ev(facts, hooks=hk3).apply_fn(fn, [Y, M, dv], 0)
        opt = Sym("call", "chrono::NaiveDate::from_ymd_opt", (Y.key(), M.key(), dv.key()))
        some, none = ("arm", ("Some", "_"), vkey(opt)), ("arm", "None", vkey(opt))
        by = {}
        for c, v in paths.flatten(got):
            dc = dict(c)
            if dc.get(some):
                by["valid"] = v
            elif dc.get(vkey(cel.cmp_sym("Gt", dv, Poly.const(28), True))) is True:
                by["retry"] = v
            else:
                by["abort"] = v
        midnight = Sym("m", "unwrap", vkey(Sym("call", "chrono::NaiveTime::from_hms_opt", (Poly.const(0).key(),) * 3)), ())
        ck.check(r3, "valid", by.get("valid") is not None and vkey(by["valid"]) == vkey(Sym("call", "chrono::NaiveDateTime::new", (vkey(Sym("payload", vkey(opt), 0)), vkey(midnight)))),
                 "a valid date is not returned as that date at 00:00:00", where, detail=cel.vfmt(by.get("valid"))[:300] if "valid" in by else paths.fmt_paths(got)[:400], sample="NaiveDateTime::new(date, 00:00:00)")
        ck.check(r3, "retry", by.get("retry") is not None and vkey(by["retry"]) == vkey(R("get_roll_by_day", Y, M, dv - Poly.const(1))),
                 "an invalid day above 28 does not retry with day - 1 in the same month", where, detail=cel.vfmt(by.get("retry"))[:300] if "retry" in by else None, sample="day > 28 -> get_roll_by_day(y, m, day-1)")
        ck.check(r3, "abort", isinstance(by.get("abort"), Sym) and by["abort"].tag[0] == "diverges", "an invalid day <= 28 does not abort (it cannot be a month-length problem)", where, sample="panic!")
    except Unsupported as e:
        ck.fail(r3, "get_roll_by_day", "rule could not be established (%s)" % e, where)
    # ---------------- R08.4 eom / leap / is_*
    r4 = ck.rule("R08.4", "get_eom = last valid day searching down from 31 in the same month (chrono decides validity); is_leap_year = Feb 29 exists (Gregorian rule is "
                          "chrono's); is_imm / is_eom compare the date with get_imm / get_eom of its own year and month", floor=4)
    try:
        fn = MOD + "get_eom"
        r = facts.fn(fn)
        got = cel.Ev(facts, hooks=base).apply_fn(fn, [Y, M], 0)
        call = lambda d: Sym("call", "chrono::NaiveDate::from_ymd_opt", (Y.key(), M.key(), d.key()))
        dayv, datev = LV(0, True), LV(1)
        it = ITER(1, [Poly.const(31), call(Poly.const(31))], Sym("cmp", "Eq", vkey(datev), vkey(Sym("ctor", "None"))), [dayv - Poly.const(1), call(dayv - Poly.const(1))])
        want = Sym("m", "unwrap", vkey(Sym("m", "and_hms_opt", vkey(Sym("m", "unwrap", vkey(it), ())), (Poly.const(0).key(),) * 3)), ())
        ck.check(r4, "get_eom", vkey(got) == vkey(want), "get_eom is not: day := 31; while (year, month, day) is invalid { day := day - 1 }", "%s:%d" % (r["file"], r["line"]),
                 detail=cel.vfmt(got)[:500], sample="largest valid day <= 31 of the month, at midnight")
    except Unsupported as e:
        ck.fail(r4, "get_eom", "rule could not be established (%s)" % e)
    try:
        fn = MOD + "is_leap_year"
        r = facts.fn(fn)
        got = cel.Ev(facts, hooks=base).apply_fn(fn, [Y], 0)
        want = Sym("m", "is_some", vkey(Sym("call", "chrono::NaiveDate::from_ymd_opt", (Y.key(), Poly.const(2).key(), Poly.const(29).key()))), ())
        ck.check(r4, "is_leap_year", vkey(got) == vkey(want), "is_leap_year is not 'February 29 of that year exists'", "%s:%d" % (r["file"], r["line"]), detail=cel.vfmt(got)[:200], sample="from_ymd_opt(year, 2, 29).is_some()")
    except Unsupported as e:
        ck.fail(r4, "is_leap_year", "rule could not be established (%s)" % e)
    for nm, getter in (("is_imm", "get_imm"), ("is_eom", "get_eom")):
        try:
            fn = MOD + nm
            r = facts.fn(fn)
            hk4 = dict(base, **{MOD + getter: lambda ev, vals, e, g=getter: R(g, *vals)})
            got = cel.Ev(facts, hooks=hk4).apply_fn(fn, [D], 0)
            tgt = R(getter, Sym("m", "year", vkey(D), ()), Sym("m", "month", vkey(D), ()))
            ok = vkey(got) in (vkey(Sym("cmp", "Eq", vkey(D), vkey(tgt))), vkey(Sym("cmp", "Eq", vkey(tgt), vkey(D))))
            ck.check(r4, nm, ok, "%s does not compare the date with %s(date.year(), date.month())" % (nm, getter), "%s:%d" % (r["file"], r["line"]), detail=cel.vfmt(got)[:200], sample="date == %s(y, m)" % getter)
        except Unsupported as e:
            ck.fail(r4, nm, "rule could not be established (%s)" % e)
    ck.not_decided += ["the year/month carry arithmetic of add_months (yr_roll, rem_euclid, the <=0 / >=13 branches): an arithmetic identity over all (month, offset) pairs — "
                       "no structural argument bounds it and evaluating it over the pairs would be executing it; declared not decided",
                       "Gregorian validity itself (delegated to chrono::NaiveDate::from_ymd_opt)"]
    ck.trusted += ["chrono::NaiveDate::from_ymd_opt validity", "lib/cel.py"]
