"""C08 — month arithmetic and roll-day rules: the table clauses (IMM table, roll dispatch, day capping, end of month, leap year)."""
import re
import cel, paths, hir
from cel import Poly, Sym, Rec, Tup, Alt, Unsupported, vkey
from rules.dates_common import R, P, S, D, hooks as date_hooks, LV, ITER

MOD = "calendars::dateroll::"
WEEKDAYS = ["Mon", "Tue", "Wed", "Thu", "Fri", "Sat", "Sun"]
Y, M = Poly.atom("year"), Poly.atom("month")


def ndt(*a):
    return Sym("ndt", *[vkey(x) for x in a])


def run(ck, facts, tier):
    base = {"calendars::calendar::ndt": lambda ev, vals, e: ndt(*vals)}
    # ---------------- R08.1 IMM table
    r1 = ck.rule("R08.1", "get_imm: the weekday of the 1st of the same (year, month) selects day 15 + ((2 - weekday) mod 7) (Mon = 0): the third Wednesday, for all 7 weekdays", floor=8)
    fn = MOD + "get_imm"
    r = facts.fn(fn)
    where = "%s:%d" % (r["file"], r["line"]) if r else None
    seen_recv = []
    for i, wd in enumerate(WEEKDAYS):
        def wk(ev, vals, e, wd=wd):
            seen_recv.append(vals[0])
            return Sym("ctor", wd)
        try:
            got = cel.Ev(facts, hooks=dict(base, **{"Datelike>::weekday": wk, "Datelike::weekday": wk})).apply_fn(fn, [Y, M], 0)
            day = 15 + ((2 - i) % 7)
            ck.check(r1, "first-is-" + wd, vkey(got) == vkey(ndt(Y, M, Poly.const(day))), "month starting on %s: IMM day is not %d" % (wd, day), where, detail=cel.vfmt(got)[:200],
                     sample="ndt(year, month, %d)" % day)
        except Unsupported as e:
            ck.fail(r1, "first-is-" + wd, "rule could not be established (%s)" % e, where)
    ck.check(r1, "scrutinee", bool(seen_recv) and all(vkey(x) == vkey(ndt(Y, M, Poly.const(1))) for x in seen_recv), "the table is not keyed on the weekday of the 1st of the same month", where,
             sample="ndt(year, month, 1).weekday()")
    # ---------------- R08.2 roll dispatch
    r2 = ck.rule("R08.2", "get_roll: Int{day} -> day capped in that month, EoM -> 31 capped, SoM -> 1, IMM -> get_imm, Unspecified -> Err; add_months rewrites Unspecified to "
                          "the start date's own day, passes other rolls through, asks get_roll for (year + carry, new month, roll) and adjusts with its own modifier/settlement", floor=7)
    hk = dict(base, **date_hooks())
    fn = MOD + "get_roll"
    r = facts.fn(fn)
    where = "%s:%d" % (r["file"], r["line"]) if r else None
    dayv = Poly.atom("d")
    cases = [("Int", Sym("ctor", "Int", Rec("calendars::dateroll::RollDay", {"day": dayv})), Sym("ctor", "Ok", R("get_roll_by_day", Y, M, dayv))),
             ("EoM", Sym("ctor", "EoM", Rec("calendars::dateroll::RollDay", {})), Sym("ctor", "Ok", R("get_roll_by_day", Y, M, Poly.const(31)))),
             ("SoM", Sym("ctor", "SoM", Rec("calendars::dateroll::RollDay", {})), Sym("ctor", "Ok", R("get_roll_by_day", Y, M, Poly.const(1)))),
             ("IMM", Sym("ctor", "IMM", Rec("calendars::dateroll::RollDay", {})), Sym("ctor", "Ok", R("get_imm", Y, M))),
             ("Unspecified", Sym("ctor", "Unspecified", Rec("calendars::dateroll::RollDay", {})), None)]
    for name, val, want in cases:
        try:
            got = cel.Ev(facts, hooks=hk).apply_fn(fn, [Y, M, val], 0)
            ok = vkey(got) == vkey(want) if want is not None else (isinstance(got, Sym) and got.tag[:2] == ("ctor", "Err"))
            ck.check(r2, "get_roll[%s]" % name, ok, "get_roll for %s gives %s" % (name, cel.vfmt(got)[:200]), where, sample=cel.vfmt(want)[:120] if want is not None else "Err")
        except Unsupported as e:
            ck.fail(r2, "get_roll[%s]" % name, "rule could not be established (%s)" % e, where)
    fn = MOD + "DateRoll::add_months"
    r = facts.fn(fn)
    where = "%s:%d" % (r["file"], r["line"]) if r else None
    for name, val in (("Unspecified", Sym("ctor", "Unspecified", Rec("calendars::dateroll::RollDay", {}))), ("IMM", Sym("ctor", "IMM", Rec("calendars::dateroll::RollDay", {})))):
        try:
            h2 = {k: v for k, v in hk.items() if not k.endswith("::add_months")}
            mods, MODI, ST = Poly.atom("months"), Sym("param", "modifier"), Sym("param", "settlement")
            got = cel.Ev(facts, hooks=h2).apply_fn(fn, [S, D, mods, MODI, val, ST], 0)
            leaves = [v for _, v in paths.flatten(got)]
            ok = bool(leaves)
            for v in leaves:
                # roll(self, get_roll(year(date)+carry, month', roll_).unwrap(), modifier, settlement)
                ok = ok and isinstance(v, Sym) and v.tag[:2] == ("roll", "roll") and v.tag[2] == vkey(S) and v.tag[4:] == (vkey(MODI), vkey(ST))
                inner = v.tag[3] if ok else None
                ok = ok and isinstance(inner, tuple) and inner[:3] == ("sym", "m", "unwrap") and inner[3][:3] == ("sym", "roll", "get_roll")
                if ok:
                    rollarg = inner[3][5]
                    if name == "Unspecified":
                        want_roll = vkey(Sym("ctor", "Int", Rec("calendars::dateroll::RollDay", {"day": Sym("m", "day", vkey(D), ())})))
                    else:
                        want_roll = vkey(val)
                    ok = rollarg == want_roll
            ck.check(r2, "add_months[%s]" % name, ok, "add_months with roll %s does not pass %s to get_roll and adjust the result with its own modifier/settlement"
                     % (name, "Int{day: date.day()}" if name == "Unspecified" else "the roll unchanged"), where, detail=paths.fmt_paths(got)[:600],
                     sample="roll(get_roll(y', m', %s).unwrap(), modifier, settlement)" % ("Int{date.day()}" if name == "Unspecified" else name))
        except Unsupported as e:
            ck.fail(r2, "add_months[%s]" % name, "rule could not be established (%s)" % e, where)
    # ---------------- R08.3 day capping
    r3 = ck.rule("R08.3", "get_roll_by_day: a valid (year, month, day) is returned at midnight; an invalid one retries with day - 1 only while day > 28, else aborts", floor=3)
    fn = MOD + "get_roll_by_day"
    r = facts.fn(fn)
    where = "%s:%d" % (r["file"], r["line"]) if r else None
    try:
        dv = Poly.atom("day")
        hk3 = dict(hk)
        got = cel.Ev(facts, hooks=hk3).apply_fn(fn, [Y, M, dv], 0)
        opt = Sym("call", "chrono::NaiveDate::from_ymd_opt", (Y.key(), M.key(), dv.key()))
        some, none = ("arm", ("Some", "_"), vkey(opt)), ("arm", "None", vkey(opt))
        by = {}
        GT28 = paths.lit(cel.cmp_sym("Gt", dv, Poly.const(28), True))
        for c, v in paths.flatten(got):
            dc = dict(c)
            if dc.get(some):
                by["valid"] = v
            elif dc.get(GT28[0]) is GT28[1]:
                by["retry"] = v
            else:
                by["abort"] = v
        midnight = Sym("m", "unwrap", vkey(Sym("call", "chrono::NaiveTime::from_hms_opt", (Poly.const(0).key(),) * 3)), ())
        ck.check(r3, "valid", by.get("valid") is not None and vkey(by["valid"]) == vkey(Sym("call", "chrono::NaiveDateTime::new", (vkey(Sym("payload", vkey(opt), 0)), vkey(midnight)))),
                 "a valid date is not returned as that date at 00:00:00", where, detail=cel.vfmt(by.get("valid"))[:300] if "valid" in by else paths.fmt_paths(got)[:400], sample="NaiveDateTime::new(date, 00:00:00)")
        ck.check(r3, "retry", by.get("retry") is not None and vkey(by["retry"]) == vkey(R("get_roll_by_day", Y, M, dv - Poly.const(1))),
                 "an invalid day above 28 does not retry with day - 1 in the same month", where, detail=cel.vfmt(by.get("retry"))[:300] if "retry" in by else None, sample="day > 28 -> get_roll_by_day(y, m, day-1)")
        ck.check(r3, "abort", isinstance(by.get("abort"), Sym) and by["abort"].tag[0] == "diverges", "an invalid day <= 28 does not abort (it cannot be a month-length problem)", where, sample="panic!")
    except Unsupported as e:
        ck.fail(r3, "get_roll_by_day", "rule could not be established (%s)" % e, where)
    # ---------------- R08.4 eom / leap / is_*
    r4 = ck.rule("R08.4", "get_eom = last valid day searching down from 31 in the same month (chrono decides validity); is_leap_year = Feb 29 exists (Gregorian rule is "
                          "chrono's); is_imm / is_eom compare the date with get_imm / get_eom of its own year and month", floor=4)
    try:
        fn = MOD + "get_eom"
        r = facts.fn(fn)
        got = cel.Ev(facts, hooks=base).apply_fn(fn, [Y, M], 0)
        call = lambda d: Sym("call", "chrono::NaiveDate::from_ymd_opt", (Y.key(), M.key(), d.key()))
        dayv, datev = LV(0, True), LV(1)
        it = ITER(1, [Poly.const(31), call(Poly.const(31))], Sym("m", "is_none", vkey(datev), ()), [dayv - Poly.const(1), call(dayv - Poly.const(1))])
        want = Sym("m", "unwrap", vkey(Sym("m", "and_hms_opt", vkey(Sym("m", "unwrap", vkey(it), ())), (Poly.const(0).key(),) * 3)), ())
        # the same search written with the probe inside the loop test (`loop { if let Some(d) = probe(day) { return .. } day -= 1 }`): only `day` is loop state
        dvar = LV(0, True)
        dayB = ITER(0, [Poly.const(31)], Sym("m", "is_none", vkey(call(dvar)), ()), [dvar - Poly.const(1)], True)
        wantB = Sym("m", "unwrap", vkey(Sym("m", "and_hms_opt", vkey(Sym("payload", vkey(call(dayB)), 0)), (Poly.const(0).key(),) * 3)), ())
        live = [v for _, v in paths.flatten(cel.strip_early(got)) if not (isinstance(v, Sym) and v.tag[:1] == ("diverges",))]
        okB = len(live) == 1 and vkey(live[0]) == vkey(wantB)
        ck.check(r4, "get_eom", vkey(got) == vkey(want) or okB, "get_eom is not: day := 31; while (year, month, day) is invalid { day := day - 1 }", "%s:%d" % (r["file"], r["line"]),
                 detail=cel.vfmt(got)[:500], sample="largest valid day <= 31 of the month, at midnight")
    except Unsupported as e:
        ck.fail(r4, "get_eom", "rule could not be established (%s)" % e)
    try:
        fn = MOD + "is_leap_year"
        r = facts.fn(fn)
        got = cel.Ev(facts, hooks=base).apply_fn(fn, [Y], 0)
        want = Sym("not", vkey(Sym("m", "is_none", vkey(Sym("call", "chrono::NaiveDate::from_ymd_opt", (Y.key(), Poly.const(2).key(), Poly.const(29).key()))), ())))
        ck.check(r4, "is_leap_year", vkey(got) == vkey(want), "is_leap_year is not 'February 29 of that year exists'", "%s:%d" % (r["file"], r["line"]), detail=cel.vfmt(got)[:200], sample="from_ymd_opt(year, 2, 29).is_some()")
    except Unsupported as e:
        ck.fail(r4, "is_leap_year", "rule could not be established (%s)" % e)
    for nm, getter in (("is_imm", "get_imm"), ("is_eom", "get_eom")):
        try:
            fn = MOD + nm
            r = facts.fn(fn)
            hk4 = dict(base, **{MOD + getter: lambda ev, vals, e, g=getter: R(g, *vals)})
            got = cel.Ev(facts, hooks=hk4).apply_fn(fn, [D], 0)
            tgt = R(getter, Sym("m", "year", vkey(D), ()), Sym("m", "month", vkey(D), ()))
            ok = vkey(got) == vkey(cel.eq_sym(D, tgt))
            ck.check(r4, nm, ok, "%s does not compare the date with %s(date.year(), date.month())" % (nm, getter), "%s:%d" % (r["file"], r["line"]), detail=cel.vfmt(got)[:200], sample="date == %s(y, m)" % getter)
        except Unsupported as e:
            ck.fail(r4, nm, "rule could not be established (%s)" % e)
    carry_rule(ck, facts, hk)
    from rules import pywrap
    pywrap.run_calendar_wrappers(ck, facts)          # what a Python user calls is the wrapper: it must hand its arguments to the core method unchanged
    ck.not_decided += ["that chrono's month() lies in 1..=12 and that |months| stays below i32::MAX (abs() of i32::MIN) — contracts of the inputs, assumed by R08.5",
                       "Gregorian validity itself (delegated to chrono::NaiveDate::from_ymd_opt)"]
    ck.trusted += ["chrono::NaiveDate::from_ymd_opt validity", "lib/cel.py"]


# ---------------------------------------------------------------- R08.5 the year/month carry of add_months, by value-set analysis of the path formulas
class NotRecognised(Exception):
    pass


F = cel.F


def _strip(k):
    """peel conversions that cannot change an in-range month/year number: unwrap/expect, try_into/try_from/into/from, casts are already erased"""
    while isinstance(k, tuple) and k[:2] == ("sym", "m") and k[2] in ("unwrap", "expect", "try_into", "into") and len(k) == 5 and k[4] == ():
        k = k[3]
    if isinstance(k, tuple) and k[:2] == ("sym", "call") and re.search(r"(TryFrom|From)<\w+> for \w+>::(try_)?from$", k[2]) and len(k[3]) == 1:
        return _strip(k[3][0])
    if isinstance(k, tuple) and k[:2] == ("sym", "ctor") and k[2] == "Ok" and len(k) == 4:
        return _strip(k[3])
    return k


class Lin:
    """cQ*Q + cY*Y + a*t + c, or rem_euclid(inner, 12) with inner a Lin free of Q and Y."""
    def __init__(self, cQ=0, cY=0, a=0, c=0, rem=None):
        self.cQ, self.cY, self.a, self.c, self.rem = F(cQ), F(cY), F(a), F(c), rem

    def at(self, t):
        if self.rem is not None:
            v = self.rem.at(t)
            if v.denominator != 1:
                raise NotRecognised("rem_euclid of a non-integer")
            return F(int(v) % 12)
        return self.a * t + self.c

    def plus(self, o, sign=1):
        if self.rem is not None or o.rem is not None:
            raise NotRecognised("arithmetic on a rem_euclid result")
        return Lin(self.cQ + sign * o.cQ, self.cY + sign * o.cY, self.a + sign * o.a, self.c + sign * o.c)


DATE = vkey(D)
MONTHS = Poly.atom("months")
Q_FORMS = None


def q_forms():
    """accepted spellings of the whole-years quotient, with the range of the remainder R = months - 12 Q each implies:
    trunc(months / 12) (Rust's integer `/` truncates toward zero) -> |R| <= 11; months.div_euclid(12) (floor) -> 0 <= R <= 11"""
    a = Poly.atom(("idiv", cel.func_atom("abs", MONTHS).key(), Poly.const(12).key())) * cel.func_atom("signum", MONTHS)
    b = Poly.atom(("idiv", MONTHS.key(), Poly.const(12).key()))
    c = cel.func_atom("trunc", MONTHS * Poly.const(12).inv())
    c2 = cel.func_atom("truncq", MONTHS * Poly.const(12).inv())          # the quotient implied by the built-in `months % 12`
    d = Poly.atom(("ediv", MONTHS.key(), Poly.const(12).key()))
    return {next(iter(x.t))[0]: rng for x, rng in ((a, (-11, 11)), (b, (-11, 11)), (c, (-11, 11)), (c2, (-11, 11)), (d, (0, 11)))}


R_RANGE = []


def lin_of(k):
    k = _strip(k)
    if isinstance(k, tuple) and k[:2] == ("sym", "m") and k[2] in ("month", "month0", "year") and k[3] == DATE and k[4] == ():
        if k[2] == "month":
            return ("MON", Lin())
        if k[2] == "year":
            return Lin(cY=1)
        raise NotRecognised("month0")
    if isinstance(k, tuple) and k[:3] == ("sym", "op", "Add") or isinstance(k, tuple) and k[:3] == ("sym", "op", "Sub"):
        l, r = lin2(k[3]), lin2(k[4])
        return combine(l, r, 1 if k[2] == "Add" else -1)
    if isinstance(k, tuple) and k[:3] == ("sym", "m", "rem_euclid") and len(k) == 5 and len(k[4]) == 1 and k[4][0] == Poly.const(12).key():
        inner = close(lin2(k[3]))
        if inner.cQ or inner.cY:
            raise NotRecognised("rem_euclid of a year-dependent quantity")
        return Lin(rem=inner)
    if isinstance(k, tuple) and len(k) == 2 and isinstance(k[0], int):       # polynomial key
        p = cel.poly_from_key(k)
        out = {"lin": Lin(), "mon": F(0), "r": F(0)}
        qf = q_forms()
        for (mono, tens), coef in p.t.items():
            if tens is not None:
                raise NotRecognised("tensor")
            if mono == ():
                out["lin"].c += coef
            elif mono == (("months", 1),):
                out["lin"].cQ += 12 * coef       # months = 12 Q + R
                out["r"] += coef
            elif mono in qf:
                out["lin"].cQ += coef
                if qf[mono] not in R_RANGE:
                    R_RANGE.append(qf[mono])
            elif len(mono) == 1 and mono[0][1] == 1 and isinstance(mono[0][0], tuple):
                sub = lin2(mono[0][0])
                out = _acc(out, sub, coef)
            else:
                raise NotRecognised("term %s" % cel.Poly({(mono, None): coef}).fmt()[:80])
        return out
    raise NotRecognised(repr(k)[:100])


def _acc(out, sub, coef):
    sub = norm(sub)
    if sub["lin"].rem is not None:
        raise NotRecognised("scaled rem_euclid")
    out["lin"] = out["lin"].plus(Lin(sub["lin"].cQ * coef, sub["lin"].cY * coef, 0, sub["lin"].c * coef))
    out["mon"] += coef * sub["mon"]
    out["r"] += coef * sub["r"]
    return out


def norm(x):
    if isinstance(x, tuple) and x[0] == "MON":
        return {"lin": Lin(), "mon": F(1), "r": F(0)}
    if isinstance(x, Lin):
        return {"lin": x, "mon": F(0), "r": F(0)}
    return x


def lin2(k):
    return norm(lin_of(k))


def combine(l, r, sign):
    if l["lin"].rem is not None or r["lin"].rem is not None:
        raise NotRecognised("arithmetic on a rem_euclid result")
    return {"lin": l["lin"].plus(r["lin"], sign), "mon": l["mon"] + sign * r["mon"], "r": l["r"] + sign * r["r"]}


def close(x):
    """month and remainder may only occur through their sum t"""
    x = norm(x)
    if x["lin"].rem is not None:
        if x["mon"] or x["r"]:
            raise NotRecognised("mixed rem")
        return x["lin"]
    if x["mon"] != x["r"]:
        raise NotRecognised("the start month and the remainder months do not enter through their sum (coefficients %s, %s)" % (x["mon"], x["r"]))
    l = x["lin"]
    return Lin(l.cQ, l.cY, x["mon"], l.c)


def cond_at(atom, pol, t):
    """truth of one path literal at t (None if it does not concern the carry)"""
    if isinstance(atom, tuple) and atom[:2] in (("sym", "and"), ("sym", "or")):
        # a compound test (`1 <= m && m <= 12`, a range pattern): decided from its parts at this t
        parts = [cond_at(a_, p_, t) for a_, p_ in (paths.norm_cond(("if", d_)) for d_ in atom[2:])]
        val = all(parts) if atom[1] == "and" else any(parts)
        return val if pol else not val
    if not (isinstance(atom, tuple) and atom[:2] == ("sym", "cmp")):
        raise NotRecognised("condition " + repr(atom)[:100])
    rel = atom[2]
    if len(atom) == 4:
        v = close(lin2(atom[3]))
        if v.cQ or v.cY:
            raise NotRecognised("a branch condition depends on the year part")
        x = v.at(t)
        val = {"Lt": x < 0, "Le": x <= 0, "Eq": x == 0, "Ne": x != 0, "Gt": x > 0, "Ge": x >= 0}[rel]
    else:
        a, b = close(lin2(atom[3])), close(lin2(atom[4]))
        if a.cQ or a.cY or b.cQ or b.cY:
            raise NotRecognised("a branch condition depends on the year part")
        x, y = a.at(t), b.at(t)
        val = {"Lt": x < y, "Le": x <= y, "Eq": x == y, "Ne": x != y, "Gt": x > y, "Ge": x >= y}[rel]
    return val if pol else not val


def carry_rule(ck, facts, hk):
    r5 = ck.rule("R08.5", "add_months carry, by value-set analysis of the path formulas: with Q = trunc(months/12) (so months = 12Q + R, |R| <= 11) and t = month + R in "
                          "-10..23, every path's feasible t-set is computed from its branch conditions; on each, get_roll receives year = date.year() + Q + c and a month "
                          "m(t) with 12c + m(t) = t and 1 <= m(t) <= 12 — i.e. 12*year' + month' = 12*year + month + months; the paths' t-sets partition -10..23", floor=5)
    fn = MOD + "DateRoll::add_months"
    r = facts.fn(fn)
    where = "%s:%d" % (r["file"], r["line"]) if r else None
    try:
        h2 = {k: v for k, v in hk.items() if not k.endswith("::add_months")}
        mods, MODI, ST = MONTHS, Sym("param", "modifier"), Sym("param", "settlement")
        val = Sym("ctor", "IMM", Rec("calendars::dateroll::RollDay", {}))
        got = cel.Ev(facts, hooks=h2).apply_fn(fn, [S, D, mods, MODI, val, ST], 0)
        cover = {}
        npaths = 0
        del R_RANGE[:]
        T_LO, T_HI = 1 - 11, 12 + 11
        for c, v in paths.flatten(got):
            gr = None
            for k in walk_keys(vkey(v)):
                if isinstance(k, tuple) and k[:3] == ("sym", "roll", "get_roll"):
                    gr = k
            if gr is None:
                ck.fail(r5, "path#%d" % npaths, "a path of add_months does not end in get_roll(year, month, roll)", where, detail=cel.vfmt(v)[:300])
                npaths += 1
                continue
            lits = paths.atoms(c)
            yv = close(lin2(gr[3]))            # first: the year expression names the quotient form in use, which fixes the remainder's range
            if len(R_RANGE) != 1:
                raise NotRecognised("the whole-years quotient is not one of trunc(months/12) / months.div_euclid(12) (forms seen: %d)" % len(R_RANGE))
            T_LO, T_HI = 1 + R_RANGE[0][0], 12 + R_RANGE[0][1]
            feas = [t for t in range(T_LO, T_HI + 1) if all(cond_at(a, p, t) for a, p in lits)]
            if not feas:
                continue                      # infeasible combination of tests (e.g. 1 <= t <= 12 and t == 0)
            npaths += 1
            mv = close(lin2(gr[4]))
            key = "t in %s..%s" % (feas[0], feas[-1]) if feas == list(range(feas[0], feas[-1] + 1)) else "t in %s" % feas
            ok_y = yv.rem is None and yv.cY == 1 and yv.cQ == 1 and yv.a == 0 and yv.c.denominator == 1
            ck.check(r5, key + ":year", ok_y, "the year handed to get_roll is not date.year() + trunc(months/12) + constant carry", where, sample="year + Q + (%s)" % yv.c)
            bad = []
            if ok_y and not (mv.cQ or mv.cY):
                for t in feas:
                    m = mv.at(t)
                    if 12 * yv.c + m != t or not (1 <= m <= 12):
                        bad.append((t, str(m)))
            else:
                bad = [("month depends on the year part", "")]
            ck.check(r5, key + ":month", not bad, "month + remainder = t with carry %s gives month' = m(t) where 12*carry + m(t) != t or m(t) outside 1..12, at (t, m): %s "
                     "(e.g. t = 0 is January minus one month, t = 13 is December plus one)" % (yv.c, bad[:4]), where, sample="12*(%s) + m(t) = t, 1 <= m <= 12 on %s" % (yv.c, key))
            for t in feas:
                cover[t] = cover.get(t, 0) + 1
        full = all(cover.get(t, 0) == 1 for t in range(T_LO, T_HI + 1))
        ck.check(r5, "partition", full and npaths >= 1, "the feasible t-sets of the paths do not partition the range of t (uncovered or doubly covered: %s)"
                 % [t for t in range(T_LO, T_HI + 1) if cover.get(t, 0) != 1][:6], where, sample="%d feasible paths cover t = %d..%d exactly once" % (npaths, T_LO, T_HI))
    except NotRecognised as e:
        ck.fail(r5, "add_months:carry", "carry arithmetic not in the analysed form (%s)" % e, where)
    except Unsupported as e:
        ck.fail(r5, "add_months:carry", "rule could not be established (%s)" % e, where)


def walk_keys(k):
    yield k
    if isinstance(k, tuple):
        for x in k:
            yield from walk_keys(x)
