"""C13 — the linear solver: pivot pairing, sibling agreement of the generic and float-matrix implementations, normal equations.
(That elimination returns the true solution for all well-conditioned systems is NOT decided.)"""
import cel, hir, paths
from cel import Poly, Sym, Rec, Tup, Alt, Arr, Unsupported, vkey

LD, LF = "dual::linalg::linalg_dual::", "dual::linalg::linalg_f64::"


def mk():
    n = Poly.atom("n")
    return Arr([n, n], Sym("A"), "A"), Arr([n], Sym("B"), "B")


def swap(kind):
    def h(ev, vals, e):
        arr = vals[0]
        if not isinstance(arr, Arr):
            raise Unsupported("swap on a value that is not a tracked array")
        ev.seq_no = getattr(ev, "seq_no", 0) + 1
        arr.writes.append({"idx": [Sym(kind, vkey(vals[1]), vkey(vals[2]))], "guards": tuple(ev.guards), "loops": tuple(ev.loops), "val": Sym("swap"), "seq": ev.seq_no})
        return Sym("unit")
    return h


CAPT = {}


def swap_helpers(facts):
    """Functions of the solver modules that exchange rows / elements with mem::swap (today `row_swap` for the matrix and `el_swap` for the right-hand side;
    one merged helper or renamed ones are the same to the rules): [(name, roles per parameter)] with role in {"mat", "vec", "idx", None}."""
    out = []
    for r in facts.all_fns():
        if not (r["fn"].startswith(LD) or r["fn"].startswith(LF)) or "sig" not in r:
            continue
        if not any(e.get("k") == "path" and (e.get("def") or "").endswith("mem::swap") for e in hir.walk(r["body"])):
            continue
        roles = []
        for t in r["sig"]:
            t_ = t.replace("&", "").replace("mut ", "").strip()
            roles.append("mat" if "Dim<[usize; 2]>" in t_ else "vec" if "Dim<[usize; 1]>" in t_ else "idx" if t_ == "usize" else None)
        if roles.count("idx") == 2 and ("mat" in roles or "vec" in roles):
            out.append((r["fn"], roles))
    return out


def swap_hook(roles):
    def h(ev, vals, e):
        jk = [v for v, role in zip(vals, roles) if role == "idx"]
        for v, role in zip(vals, roles):
            if role in ("mat", "vec"):
                swap("rowswap" if role == "mat" else "elswap")(ev, [v] + jk, e)
        return Sym("unit")
    return h


def hooks(upper=True, facts=None):
    def cap_upper(ev, vals, e):
        CAPT["upper_args"] = vals
        return Sym("upper", *[v.key() if isinstance(v, Arr) else vkey(v) for v in vals])
    h = {"linalg_dual::row_swap": swap("rowswap"), "linalg_dual::el_swap": swap("elswap")}
    if facts is not None:
        h = {name: swap_hook(roles) for name, roles in swap_helpers(facts)}
    h.update({"linalg_dual::argabsmax": lambda ev, vals, e: Poly.atom(("argabsmax", vkey(vals[0]))),
         "dmul11_": lambda ev, vals, e: Poly.atom(("inner", tuple(vkey(v) for v in vals))),
         "Zero::zero": lambda ev, vals, e: Poly.const(0)})
    if upper:
        h["solve_upper21_"] = cap_upper
    return h


def wl(arr):
    """Ordered, canonical write list of an array."""
    return [(tuple(vkey(i) for i in w["idx"]), tuple(w["guards"]), tuple(w["loops"]), vkey(w["val"])) for w in sorted(arr.writes, key=lambda w: w.get("seq", 0))]


def run(ck, facts, tier):
    res = {}
    r2 = ck.rule("R13.2", "siblings agree: the generic (dsolve21_, dsolve_upper21_) and float-matrix (fdsolve21_, fdsolve_upper21_) implementations have the same loop nest "
                          "and, after normalisation (compound assignment, T::zero() = 0, (1/u)*v = v/u), the same ordered update statements on A, b and x", floor=3)
    r1 = ck.rule("R13.1", "swap pairing: in both eliminations row_swap(A, j, k) is immediately followed by el_swap(b, j, k) with the same (j, k), both under j != k, with "
                          "k = argabsmax(A[j.., j]) + j (partial pivoting on the column below the diagonal); argabsmax compares absolute values; row_swap / el_swap exchange whole rows / elements", floor=6)   # 7 today; 6 when one helper swaps both the row and the element
    for fn in (LD + "dsolve21_", LF + "fdsolve21_"):
        r = facts.fn(fn)
        A, B = mk()
        try:
            ev = cel.Ev(facts, hooks=hooks(facts=facts))
            CAPT.clear()
            out = ev.apply_fn(fn, [A, B], 0)
            # the arrays the elimination worked on are those handed to the back substitution
            A, B = CAPT["upper_args"][0], CAPT["upper_args"][1]
            if not (isinstance(A, Arr) and isinstance(B, Arr)):
                raise Unsupported("back substitution is not called on the reduced arrays")
            leaves = [v for _, v in paths.flatten(out) if not (isinstance(v, Sym) and v.tag[0] == "diverges")]
            res[fn] = (wl(A), wl(B), vkey(leaves[0]) if len(leaves) == 1 else None, A, B)
        except (Unsupported, KeyError) as e:
            ck.fail(r2, fn.rsplit("::", 1)[-1], "rule could not be established (%s)" % e, "%s:%d" % (r["file"], r["line"]) if r else None)
    if len(res) == 2:
        a, b = res[LD + "dsolve21_"], res[LF + "fdsolve21_"]
        ck.check(r2, "elimination:A-updates", a[0] == b[0] and len(a[0]) >= 3, "the ordered updates of the matrix differ between dsolve21_ and fdsolve21_ (a change to one was not mirrored)",
                 "rust/dual/linalg/", detail="generic %d statements, float %d; first difference: %s" % (len(a[0]), len(b[0]), first_diff(a[0], b[0])), sample="%d matrix statements agree" % len(a[0]))
        ck.check(r2, "elimination:b-updates", a[1] == b[1] and len(a[1]) >= 2, "the ordered updates of the right-hand side differ between dsolve21_ and fdsolve21_", "rust/dual/linalg/",
                 detail=first_diff(a[1], b[1]), sample="%d rhs statements agree" % len(a[1]))
        ck.check(r2, "elimination:hand-over", a[2] == b[2], "the back-substitution is not called on the same (reduced matrix, reduced rhs) in both", sample="upper(A', b')")
    for fn, (aw, bw, _, A, B) in res.items():
        name = fn.rsplit("::", 1)[-1]
        r = facts.fn(fn)
        where = "%s:%d" % (r["file"], r["line"])
        rs = [w for w in A.writes if isinstance(w["idx"][0], Sym) and w["idx"][0].tag[0] == "rowswap"]
        es = [w for w in B.writes if isinstance(w["idx"][0], Sym) and w["idx"][0].tag[0] == "elswap"]
        ok = len(rs) == 1 and len(es) == 1
        why = "expected exactly one row_swap on the matrix and one el_swap on the right-hand side inside the pivot loop (found %d, %d)" % (len(rs), len(es))
        if ok:
            j = Poly.atom("i0")
            jk = rs[0]["idx"][0].tag[1:]
            ok = jk == es[0]["idx"][0].tag[1:]
            why = "row_swap and el_swap use different indices: %s vs %s" % (repr(jk)[:200], repr(es[0]["idx"][0].tag[1:])[:200])
            if ok:
                ok = es[0]["seq"] == rs[0]["seq"] + 1 and rs[0]["guards"] == es[0]["guards"] and rs[0]["loops"] == es[0]["loops"]
                why = "el_swap does not immediately follow row_swap under the same condition"
            if ok:
                kk = cel.poly_from_key(jk[1]) if isinstance(jk[1], tuple) and isinstance(jk[1][0], int) else None
                ne = ("if", vkey(cel.cmp_sym("Ne", j, kk))) if kk is not None else None
                ok = jk[0] == j.key() and kk is not None and rs[0]["guards"] == (ne,)
                why = "swaps are not guarded by exactly `j != k` with j the pivot-loop index"
                if ok:
                    # k = argabsmax(slice) + j, the slice being of the matrix and mentioning j
                    rest = kk - j
                    atoms = [a for (m, t), c in rest.t.items() for a, e_ in m]
                    ok = len(rest.t) == 1 and len(atoms) == 1 and atoms[0][0] == "argabsmax" and "'slice'" in repr(atoms[0][1]) and repr(A.ident()) in repr(atoms[0][1]) and "'i0'" in repr(atoms[0][1])
                    why = "pivot row is not argabsmax(A.slice(j.., j)) + j"
        ck.check(r1, name, ok, why, where, sample="if j != k { row_swap(A, j, k); el_swap(b, j, k) } with k = argabsmax(A[j.., j]) + j")
        # swaps precede every elimination update of the same pivot step
        if rs and es:
            later = [w for w in A.writes + B.writes if w.get("seq", 0) < rs[0]["seq"]]
            ck.check(r1, name + ":swap-first", not later, "an update of the system precedes the pivot swap within a pivot step", where, sample="swap is the first statement of a pivot step")
    # the swap helpers exchange whole rows / single elements: the slice they split is the full array (every dimension `..`), split along axis 0 at the lower index
    found_helpers = swap_helpers(facts)
    if not found_helpers:
        ck.fail(r1, "row_swap:whole", "no swap helper found in the solver modules")
    for hname, roles in found_helpers:
        nm = hname.rsplit("::", 1)[-1]
        arrays = [r_ for r_ in roles if r_ in ("mat", "vec")]
        ndim = sum(2 if r_ == "mat" else 1 for r_ in arrays)
        rr = facts.fn(hname)
        okh, whyh = False, "helper not found"
        if rr:
            es_ = list(hir.walk(rr["body"]))
            fulls = [e for e in es_ if e.get("k") == "struct" and (e.get("ty") or e.get("adt") or "").endswith("ops::RangeFull")]
            other = [e for e in es_ if e.get("k") in ("struct", "call", "mcall", "range") and any(t in ((e.get("ty") or "") + (e.get("adt") or "") + ((e.get("f") or {}).get("def") or ""))
                                                                                                 for t in ("ops::Range<", "ops::RangeFrom", "ops::RangeTo", "ops::RangeInclusive", "Range::<"))]
            convs = [e for e in es_ if e.get("k") == "call" and (e["f"].get("def") or "").endswith("convert::From::from")]
            splits = [e for e in es_ if e.get("k") == "mcall" and e["m"] == "split_at"]
            swaps = [e for e in es_ if e.get("k") == "path" and (e.get("def") or "").endswith("mem::swap")]
            okh = len(fulls) == ndim and len(convs) == ndim and not other and len(splits) == len(arrays) and len(swaps) == len(arrays)
            whyh = "%s does not split the FULL array (%d `..` dimensions of %d; other ranges: %d) at axis 0 and swap with mem::swap" % (nm, len(fulls), ndim, len(other))
        ck.check(r1, nm + ":whole", okh, whyh, "%s:%d" % (rr["file"], rr["line"]) if rr else None, sample="slice_mut(s![%s]).split_at(Axis(0), k); swap" % ", ".join([".."] * ndim))
    am = facts.fn(LD + "argabsmax")
    okm = False
    if am:
        pcs = [e for e in hir.walk(am["body"]) if e.get("k") == "mcall" and e["m"] == "partial_cmp"]
        if len(pcs) == 1:
            def is_abs0(x):
                while x.get("k") == "ref":
                    x = x["e"]
                return x.get("k") == "mcall" and x["m"] == "abs" and x["recv"].get("k") == "field" and x["recv"]["name"] == "0"
            okm = is_abs0(pcs[0]["recv"]) and is_abs0(pcs[0]["args"][0]) and any(e.get("k") == "field" and e["name"] == "1" for e in hir.walk(am["body"])) and \
                (any(e.get("k") == "mcall" and e["m"] == "max_by" for e in hir.walk(am["body"])) or _running_max_scan(am["body"], pcs[0]))
    ck.check(r1, "argabsmax", okm, "argabsmax is not: index (.1) of max_by(|x, y| x.0.abs().partial_cmp(&y.0.abs()))", "rust/dual/linalg/linalg_dual.rs", sample="max_by on |.| returning the zipped index")

    # back substitution siblings
    ures = {}
    for fn in (LD + "dsolve_upper21_", LF + "fdsolve_upper21_"):
        U, B = mk()
        r = facts.fn(fn)
        try:
            ev = cel.Ev(facts, hooks=hooks(upper=False, facts=facts))
            out = ev.apply_fn(fn, [U, B], 0)
            ures[fn] = wl(out) if isinstance(out, Arr) else None
        except Unsupported as e:
            ck.fail(r2, fn.rsplit("::", 1)[-1], "rule could not be established (%s)" % e, "%s:%d" % (r["file"], r["line"]) if r else None)
    if len(ures) == 2:
        a, b = ures[LD + "dsolve_upper21_"], ures[LF + "fdsolve_upper21_"]
        ok = a is not None and a == b and len(a) == 1
        if ok:
            idx, guards, loops, val = a[0]
            ok = idx == (Poly.atom("i0").key(),) and "revrange" in repr(loops)
            # x[i] = (b[i] - inner(u[i, i+1..], x[i+1..])) / u[i,i]
            v = cel.poly_from_key(val)
            want_d = Poly.atom(("elem", ("arrid", "A"), (Poly.atom("i0").key(), Poly.atom("i0").key())))
            num_ = v * want_d
            ok = ok and any(isinstance(a_, tuple) and a_[0] == "inner" for (m, t), c in num_.t.items() for a_, e_ in m) and \
                any(isinstance(a_, tuple) and a_[0] == "elem" and a_[1] == ("arrid", "B") for (m, t), c in num_.t.items() for a_, e_ in m) and \
                not any(isinstance(a_, tuple) and a_[0] == "elem" and a_[1] == ("arrid", "A") for (m, t), c in num_.t.items() for a_, e_ in m)
        ck.check(r2, "back-substitution", ok, "back substitution is not x[i] = (b[i] - u[i, i+1..] . x[i+1..]) / u[i, i] for i descending, identically in both implementations",
                 "rust/dual/linalg/", detail=repr(a)[:500] if a != b else None, sample="for i in (0..n).rev(): x[i] = (b[i] - inner(u[i,i+1..], x[i+1..])) / u[i,i]")

    # ---------------- R13.3 least squares
    r3 = ck.rule("R13.3", "least squares: with allow_lsq the system solved is (A^T A, A^T b) built from the same transposed operand in both products; otherwise (A, b) unchanged", floor=4)
    for fn, mm, mv, inner in ((LD + "dsolve", "dmul22_", "dmul21_", "dsolve21_"), (LF + "fdsolve", "dmul22_", "fdmul21_", "fdsolve21_")):
        r = facts.fn(fn)
        where = "%s:%d" % (r["file"], r["line"]) if r else None
        a_, b_ = Sym("param", "a"), Sym("param", "b")
        hk = {mm: lambda ev, vals, e: Sym("matmul", *[vkey(v) for v in vals]), mv: lambda ev, vals, e: Sym("matvec", *[vkey(v) for v in vals]),
              inner: lambda ev, vals, e: Sym("solve", *[vkey(v) for v in vals])}
        for flag in ("true", "false"):
            key = "%s[allow_lsq=%s]" % (fn.rsplit("::", 1)[-1], flag)
            try:
                ev = cel.Ev(facts, hooks=hk)
                ev.path = []
                got = ev.apply_fn(fn, [a_, b_, Sym("bool", flag)], 0)
                ps = paths.flatten(got)
                at_ = Sym("m", "t", vkey(a_), ())
                want_lsq = Sym("solve", vkey(Sym("matmul", vkey(at_), vkey(a_))), vkey(Sym("matvec", vkey(at_), vkey(b_))))
                want_plain = Sym("solve", vkey(a_), vkey(b_))
                sel = [v for c, v in ps if dict(c).get(vkey(Sym("bool", flag))) in (True, None) and (dict(c).get(vkey(Sym("bool", flag))) is not False)]
                # the flag is a known constant: the evaluator takes the branch, leaving a single leaf
                pick = [v for c, v in ps if not (isinstance(v, Sym) and v.tag[:1] == ("diverges",))]        # precondition asserts may abort: the returning path is judged
                ok = len(pick) == 1 and vkey(pick[0]) == vkey(want_lsq if flag == "true" else want_plain)
                ck.check(r3, key, ok, "with allow_lsq=%s the system solved is not %s" % (flag, "(A^T A, A^T b)" if flag == "true" else "(A, b)"), where,
                         detail=paths.fmt_paths(got)[:500], sample="solve(A^T A, A^T b)" if flag == "true" else "solve(A, b)")
            except Unsupported as e:
                ck.fail(r3, key, "rule could not be established (%s)" % e, where)
    # ---------------- R13.7 the product helpers the solver is built from
    r7 = ck.rule("R13.7", "the vector / matrix products: inner(a, b) = sum over the zipped pair of a_i * b_i (every element, in order); matrix x vector = [inner(row_i, b) for "
                          "every row]; matrix x matrix = [inner(row_i, col_j)] over rows(a) x cols(b), row-major, in shape (rows(a), cols(b)); outer(a, b) = [a_i * b_j] in shape "
                          "(|a|, |b|); the float/number crossovers are the same with the float operand first in each inner product", floor=10)
    A_, B_ = Sym("param", "a"), Sym("param", "b")

    def seq_of(p_):
        return cel.Seq(p_, lambda idx, p_=p_: Sym("at", vkey(p_), idx.key()))
    at_ = lambda p_, ix: Sym("at", vkey(p_), Poly.atom(ix).key())
    lane = lambda p_, ax, ix: Sym("lane", vkey(p_), ax, Poly.atom(ix).key())
    axis = lambda p_, ax: Sym("axis", vkey(p_), ax)
    len_of = lambda p_, ax: Sym("m", "len_of", vkey(p_), (vkey(Sym("ctor", "Axis", Poly.const(ax))),))
    hk7 = {LD + "dmul11_": lambda ev, vals, e: Sym("inner", *[vkey(v) for v in vals]), LF + "fdmul11_": lambda ev, vals, e: Sym("inner", *[vkey(v) for v in vals])}

    def returning(v):
        vs = [x for c, x in paths.flatten(v) if not (isinstance(x, Sym) and x.tag[:1] == ("diverges",))]          # the dimension asserts may abort: the returning path is judged
        return vs[0] if len(vs) == 1 else None
    cases = []
    for fn in (LD + "dmul11_", LF + "fdmul11_"):
        want = Sym("m", "sum", vkey(Sym("zip", vkey(A_), vkey(B_))), vkey(Sym("op", "Mul", vkey(at_(A_, "i")), vkey(at_(B_, "i")))), ())
        cases.append((fn, [seq_of(A_), seq_of(B_)], {}, want, "sum(a_i * b_i over zip(a, b))"))
    for fn, first_row in ((LD + "dmul21_", True), (LF + "fdmul21_", True), (LF + "dfmul21_", False)):
        inner = Sym("inner", vkey(lane(A_, 0, "i")), vkey(B_)) if first_row else Sym("inner", vkey(B_), vkey(lane(A_, 0, "i")))
        cases.append((fn, [A_, B_], hk7, cel.Coll(cel.Seq(axis(A_, 0), lambda idx, inner=inner: inner)), "[inner(row_i, b) for every row of a]"))
    for fn, first_row in ((LD + "dmul22_", True), (LF + "fdmul22_", True), (LF + "dfmul22_", False)):
        inner = Sym("inner", vkey(lane(A_, 0, "i")), vkey(lane(B_, 1, "j"))) if first_row else Sym("inner", vkey(lane(B_, 1, "j")), vkey(lane(A_, 0, "i")))
        coll = cel.Coll(cel.Seq(Sym("product", vkey(axis(A_, 0)), vkey(axis(B_, 1))), lambda idx, inner=inner: inner))
        cases.append((fn, [A_, B_], hk7, Sym("reshaped", vkey(coll), vkey(Tup([len_of(A_, 0), len_of(B_, 1)]))), "[inner(row_i, col_j)] row-major in shape (rows(a), cols(b))"))
    elem_hook = {"@elem": lambda cont: (lambda idx, cont=cont: Sym("at", vkey(cont), idx.key())) if vkey(cont) in (vkey(A_), vkey(B_)) else None}
    for fn in (LD + "douter11_", LF + "fouter11_"):
        coll = cel.Coll(cel.Seq(Sym("product", vkey(A_), vkey(B_)), lambda idx: Sym("op", "Mul", vkey(at_(A_, "i")), vkey(at_(B_, "j")))))
        la, lb = Poly.atom(("len", vkey(A_), None)), Poly.atom(("len", vkey(B_), None))
        cases.append((fn, [A_, B_], elem_hook, Sym("reshaped", vkey(coll), vkey(Tup([la, lb]))), "[a_i * b_j] row-major in shape (|a|, |b|)"))
    for fn, args, hooks_, want, what in cases:
        r = facts.fn(fn)
        nm = fn.rsplit("::", 1)[-1]
        if r is None:
            ck.fail(r7, nm, "helper not found")
            continue
        where = "%s:%d" % (r["file"], r["line"])
        try:
            got = returning(cel.Ev(facts, hooks=hooks_).apply_fn(fn, args, 0))
            ck.check(r7, nm, got is not None and vkey(got) == vkey(want), "%s is not %s: %s" % (nm, what, cel.vfmt(got)[:300] if got is not None else "no single returning path"), where, sample=what)
        except Unsupported as e:
            ck.fail(r7, nm, "rule could not be established (%s)" % e, where)
    # ---------------- R13.6 Python-facing wrappers
    r6 = ck.rule("R13.6", "the Python-facing solver entry points hand their data to the core solver unchanged: a (the flat row-major list reshaped to "
                          "(len(a)/len(b), len(b)), or the float matrix as given), b and allow_lsq go to dsolve/fdsolve as they came and the solver's result is returned as it is", floor=4)
    PY = "dual::linalg_py::"
    for fn, core in (("dsolve1_py", "dsolve"), ("dsolve2_py", "dsolve"), ("fdsolve1_py", "fdsolve"), ("fdsolve2_py", "fdsolve")):
        r = facts.fn(PY + fn)
        if r is None:
            ck.fail(r6, fn, "wrapper not found")
            continue
        where = "%s:%d" % (r["file"], r["line"])
        cap = []

        def grab(ev, vals, e, cap=cap):
            cap.append([vkey(v) for v in vals])
            return Sym("solved")
        try:
            ev = cel.Ev(facts, hooks={LD + "dsolve": grab, LF + "fdsolve": grab, "dual::linalg::dsolve": grab, "dual::linalg::fdsolve": grab})
            names = [p_.get("name") for p_ in r["params"]]
            got = cel.strip_early(ev.apply_fn(r["fn"], [Sym("param", n_) for n_ in names], 0))
        except Unsupported as e:
            ck.fail(r6, fn, "rule could not be established (%s)" % e, where)
            continue
        pa, pb, pl = (vkey(Sym("param", n_)) for n_ in ("a", "b", "allow_lsq"))
        la, lb = Poly.atom(("len", pa, None)), Poly.atom(("len", pb, None))
        shape = vkey(cel.Tup([Poly.atom(("idiv", la.key(), lb.key())), lb]))
        ok = len(cap) == 1 and len(cap[0]) == 3
        why = "the core solver is not called exactly once with (a, b, allow_lsq)"
        if ok:
            a_, b_, l_ = (_carrier(k_) for k_ in cap[0])
            want_a = ("sym", "m", "into_shape_with_order", pa, (shape,)) if core == "dsolve" else pa
            ok, why = a_ == want_a, "the matrix handed to %s is not `a` %s: %s" % (core, "reshaped row-major to (len(a)/len(b), len(b))" if core == "dsolve" else "as given", repr(a_)[:200])
            if ok:
                ok, why = b_ == pb, "the right-hand side handed to %s is not `b` as given: %s" % (core, repr(b_)[:200])
            if ok:
                ok, why = l_ == pl, "allow_lsq is not handed on as given: %s" % repr(l_)[:120]
            if ok:
                ok, why = _carrier(vkey(got)) == ("sym", "ctor", "Ok", vkey(Sym("solved"))), "the wrapper does not return the solver's result as it is: %s" % cel.vfmt(got)[:200]
        ck.check(r6, fn, ok, why, where, sample="Ok(%s(a, b, allow_lsq))" % core)
    # "in every first and second derivative carried by A and b": the solver is generic over the number type, so the AD operator rules are necessary conditions
    from rules import deps
    deps.include_ad(ck, facts, tier)
    ck.not_decided += ["that Gaussian elimination with partial pivoting returns the true solution and its derivatives for all well-conditioned systems (numerical correctness)",
                       "row-order independence as executed", "each loop body is evaluated once symbolically; the update statements, not their iteration-by-iteration effect, are compared"]
    ck.trusted += ["lib/cel.py array model (read-through, ordered write lists)"]


def _running_max_scan(body, pc):
    """The hand-written form of `max_by(|x, y| |x.0| cmp |y.0|)` (which keeps the LAST of several maxima): the running element starts as the first pull of the
    iterator; `for y in rest { if !(|run.0| > |y.0|) { run = y } }` — the replacement test is `cmp != Greater` with an incomparable pair counted as not greater."""
    def strip(x):
        while isinstance(x, dict) and (x.get("k") in ("ref", "paren") or (x.get("k") == "block" and not x.get("stmts") and "e" in x)):
            x = x["e"]
        return x
    loops = [e for e in hir.walk(body) if e.get("k") == "for"]
    if len(loops) != 1 or strip(loops[0]["pat"]).get("k") != "bind":
        return False
    lp = loops[0]
    elem = strip(lp["pat"])["id"]
    lets = {}
    for blk in [body] + [e for e in hir.walk(body) if e.get("k") == "block"]:
        for e in blk.get("stmts", []) if blk.get("k") == "block" else []:
            if e.get("k") == "let" and strip(e["pat"]).get("k") == "bind" and "init" in e:
                lets[strip(e["pat"])["id"]] = e["init"]
    assigns = [e for e in hir.walk(lp["body"]) if e.get("k") == "assign"]
    if len(assigns) != 1:
        return False
    l_, r_ = strip(assigns[0]["l"]), strip(assigns[0]["r"])
    if not (l_.get("k") == "path" and l_.get("res") == "local" and r_.get("k") == "path" and r_.get("res") == "local" and r_["id"] == elem):
        return False
    run = l_["id"]
    init = strip(lets.get(run, {}))
    if not (init.get("k") == "mcall" and init["m"] in ("unwrap", "expect") and strip(init["recv"]).get("k") == "mcall" and strip(init["recv"])["m"] == "next"):
        return False
    it_ = strip(strip(init["recv"])["recv"])
    if not (it_.get("k") == "path" and strip(lp["iter"]).get("k") == "path" and strip(lp["iter"]).get("id") == it_.get("id")):
        return False          # the loop runs over the rest of the same iterator
    # operands: |run.0| against |elem.0|, in that order
    def base_id(x):
        x = strip(x)
        return strip(x["recv"]["e"])["id"] if x.get("k") == "mcall" and x["m"] == "abs" and strip(x["recv"]).get("k") == "field" and strip(strip(x["recv"])["e"]).get("k") == "path" else None
    try:
        if (base_id(pc["recv"]), base_id(pc["args"][0])) != (run, elem):
            return False
    except (KeyError, TypeError):
        return False
    ifs = [e for e in hir.walk(lp["body"]) if e.get("k") == "if" and any(x is assigns[0] for x in hir.walk(e["t"]))]
    if len(ifs) != 1 or "e" in ifs[0]:
        return False
    c = strip(ifs[0]["c"])
    if not (c.get("k") == "bin" and c["op"] == "Ne"):
        return False
    lhs, rhs = strip(c["l"]), strip(c["r"])
    if lhs.get("k") == "path" and lhs.get("res") == "local" and lhs["id"] in lets:
        lhs = strip(lets[lhs["id"]])
    is_pc = lambda x: any(y is pc for y in hir.walk(x))
    greater = lambda x: x.get("k") == "path" and (x.get("def") or "").endswith("Ordering::Greater")
    if lhs.get("k") == "mcall" and lhs["m"] == "unwrap_or" and strip(lhs["recv"]) is pc and (strip(lhs["args"][0]).get("def") or "").endswith("Ordering::Equal") and greater(rhs):
        return True          # cmp.unwrap_or(Equal) != Greater
    if lhs is pc and rhs.get("k") == "call" and (strip(rhs["f"]).get("def") or "").endswith("::Some") and greater(strip(rhs["args"][0])):
        return True          # cmp != Some(Greater)
    return False


CARRIERS = {"expect", "unwrap", "view", "as_array", "to_owned", "into_raw_vec", "to_vec", "into_owned", "clone", "into_dimensionality", "as_standard_layout"}


def _carrier(k):
    """A value key with the container changes that keep every element and its order erased (Vec -> Array1 -> view -> ...)."""
    if isinstance(k, tuple):
        if len(k) == 5 and k[:2] == ("sym", "m") and k[2] in CARRIERS and (not k[4] or k[2] == "expect"):
            return _carrier(k[3])
        if len(k) == 4 and k[:2] == ("sym", "call") and (k[2].endswith("::from_vec") or k[2].endswith("::from")) and len(k[3]) == 1:
            return _carrier(k[3][0])
        if len(k) == 4 and k[:2] == ("sym", "call") and k[2].endswith("::from_shape_vec") and len(k[3]) == 2:
            return ("sym", "m", "into_shape_with_order", _carrier(k[3][1]), (_carrier(k[3][0]),))          # Array::from_shape_vec(shape, v) is from_vec(v) reshaped (row-major)
        if len(k) == 4 and k[:2] == ("sym", "field") and k[3] == "0" and isinstance(k[2], tuple) and k[2][:3] == ("sym", "m", "into_raw_vec_and_offset"):
            return _carrier(k[2][3])
        return tuple(_carrier(x) for x in k)
    return k


def first_diff(a, b):
    for i, (x, y) in enumerate(zip(a, b)):
        if x != y:
            return "statement %d: %s  vs  %s" % (i, repr(x)[:300], repr(y)[:300])
    return "lengths %d vs %d" % (len(a), len(b)) if len(a) != len(b) else "none"
