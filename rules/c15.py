"""C15 — a solved spline: collocation layout, guards, evaluation as inner product, AD lifting, the (spline kind x abscissa kind) type table."""
import cel, paths, hir, oracle
from cel import Poly, Sym, Rec, Tup, Alt, Arr, Coll, Unsupported, vkey

SP = "splines::spline::"
PS = SP + "PPSpline::<T>::"
D1, D2 = "dual::dual::Dual", "dual::dual::Dual2"
NONE = Sym("ctor", "None")


def Bf(*a):
    return Poly.atom(("B",) + tuple(vkey(x) for x in a))


def Df(*a):
    return Poly.atom(("D",) + tuple(vkey(x) for x in a))


def kernel_hooks():
    return {SP + "bsplev_single_f64": lambda ev, vals, e: Bf(*vals), SP + "bspldnev_single_f64": lambda ev, vals, e: Df(*vals)}


def me_rec(c=None):
    return Rec("splines::spline::PPSpline", {"k": Poly.atom("k"), "t": Sym("field", "t"), "n": Poly.atom("n"), "c": c if c is not None else Sym("field", "c")})


def clone_from_hook(num):
    def h(ev, vals, e):
        other = vals[0]
        f = {"real": vals[1], "dual": cel.num(vals[2]), "vars": other.fields["vars"] if isinstance(other, Rec) else Sym("vars?")}
        if num == D2:
            f["dual2"] = cel.num(vals[3])
        return Rec(num, f)
    return h


def run(ck, facts, tier):
    me = me_rec()
    K, T, N = me.fields["k"], me.fields["t"], me.fields["n"]
    TAU = Sym("param", "tau")
    tau = lambda j: Poly.atom(("call", "index", (vkey(TAU), j.key())))
    LEN = Poly.atom(("len", vkey(TAU), None))
    # ---------------- R15.1 collocation layout
    r1 = ck.rule("R15.1", "bsplmatrix layout: a len(tau) x n zero matrix; row 0 <- derivative of order left_n of basis i at tau[0]; last row <- order right_n at tau[last]; "
                          "interior row j <- value of basis i at tau[j]; column i <-> basis i, for i in 0..n and j in 1..len-1", floor=4)
    fn = PS + "bsplmatrix"
    r = facts.fn(fn)
    where = "%s:%d" % (r["file"], r["line"]) if r else None
    try:
        L, Rn = Poly.atom("left_n"), Poly.atom("right_n")
        # walking tau itself reaches the same element as tau[j]
        hk1 = dict(kernel_hooks(), **{"@elem": lambda cont: (lambda idx: tau(idx)) if vkey(cont) == vkey(TAU) else None})
        got = cel.Ev(facts, hooks=hk1).apply_fn(fn, [me, TAU, L, Rn], 0)
        i0, i1 = Poly.atom("i0"), Poly.atom("i1")
        rng_i = vkey(Sym("range", Poly.const(0).key(), N.key()))
        rng_j = vkey(Sym("range", Poly.const(1).key(), (LEN - Poly.const(1)).key()))
        ok = isinstance(got, Arr) and [vkey(d) for d in got.dims] == [LEN.key(), N.key()] and vkey(got.base) == Poly.const(0).key()
        ck.check(r1, "shape", ok, "the collocation matrix is not zeros((len(tau), n))", where, detail=cel.vfmt(got)[:200], sample="zeros((tau.len(), n))")
        if isinstance(got, Arr):
            w = {(tuple(vkey(x) for x in ww["idx"]), tuple(l[1] for l in ww["loops"])): vkey(ww["val"]) for ww in got.writes}
            last = LEN - Poly.const(1)
            want = {((Poly.const(0).key(), i0.key()), (rng_i,)): Df(tau(Poly.const(0)), i0, K, T, L, NONE).key(),
                    ((last.key(), i0.key()), (rng_i,)): Df(tau(last), i0, K, T, Rn, NONE).key(),
                    ((i1.key(), i0.key()), (rng_i, rng_j)): Bf(tau(i1), i0, K, T, NONE).key()}
            for name, k_ in (("first-row", list(want)[0]), ("last-row", list(want)[1]), ("interior-rows", list(want)[2])):
                ck.check(r1, name, w.get(k_) == want[k_], "%s of the collocation matrix is not as specified" % name, where,
                         detail="got %s" % (repr(w.get(k_))[:300] if k_ in w else "no write at that index; writes at %s" % [repr(x[0])[:80] for x in w]), sample=repr(want[k_])[:160])
            ck.check(r1, "no-other-writes", set(w) == set(want), "the matrix receives writes other than the three specified families", where, sample="3 write families")
    except Unsupported as e:
        ck.fail(r1, "bsplmatrix", "rule could not be established (%s)" % e, where)

    # ---------------- R15.2 csolve
    r2 = ck.rule("R15.2", "csolve: mismatched site counts give Err (len(tau) != n unless least squares with len(tau) > n; len(tau) != len(y)) and leave the spline untouched; "
                          "otherwise c = fdsolve(bsplmatrix(tau, left_n, right_n), y, allow_lsq) is stored and Ok returned", floor=3)
    fn = PS + "csolve"
    r = facts.fn(fn)
    where = "%s:%d" % (r["file"], r["line"]) if r else None
    try:
        Y, L, Rn, LSQ = Sym("param", "y"), Poly.atom("left_n"), Poly.atom("right_n"), Sym("param", "allow_lsq")
        hk = {PS + "bsplmatrix": lambda ev, vals, e: Sym("bsplmatrix", *[vkey(v) for v in vals]), "linalg_f64::fdsolve": lambda ev, vals, e: Sym("fdsolve", *[vkey(v) for v in vals])}
        me2 = me_rec()
        outs = cel.Ev(facts, hooks=hk).explore(fn, [me2, TAU, Y, L, Rn, LSQ])
        errs = [o for o in outs if isinstance(o["ret"], Sym) and o["ret"].tag[:2] == ("ctor", "Err")]
        oks = [o for o in outs if isinstance(o["ret"], Sym) and o["ret"].tag[:2] == ("ctor", "Ok")]
        untouched = all(vkey(o["params"][0].fields["c"]) == vkey(Sym("field", "c")) for o in errs)
        ck.check(r2, "errors-leave-spline-untouched", len(errs) == 2 and untouched, "an Err return of csolve can leave modified coefficients behind (or a guard is missing)", where,
                 sample="%d Err paths, c unchanged on each" % len(errs))
        leny = Poly.atom(("len", vkey(Y), None))
        g_count = Sym("and", *sorted([vkey(cel.cmp_sym("Ne", LEN, N)), vkey(Sym("not", vkey(Sym("and", *sorted([vkey(LSQ), vkey(cel.cmp_sym("Gt", LEN, N, True))], key=repr)))))], key=repr))
        g_len = cel.cmp_sym("Ne", LEN, leny)
        # literals after De Morgan splitting, so `a != n && !(lsq && a > n)` and `!(a == n || (lsq && a > n))` are one guard
        conds = [paths.atoms({paths.norm_cond(g) for g in o["guards"]}) for o in errs]
        ck.check(r2, "guards", paths.atoms({paths.norm_cond(("if", vkey(g_count)))}) in conds and any(paths.atoms({paths.norm_cond(("if", vkey(g_len)))}) <= c for c in conds),
                 "the two guards are not: (len(tau) != n and not (allow_lsq and len(tau) > n)) -> Err; len(tau) != len(y) -> Err", where, detail=repr(conds)[:600],
                 sample="tau.len() != n && !(allow_lsq && tau.len() > n) ; tau.len() != y.len()")
        okk = len(oks) == 1
        if okk:
            cnew = oks[0]["params"][0].fields["c"]
            want = Sym("ctor", "Some", Sym("fdsolve", vkey(Sym("bsplmatrix", vkey(me_rec()), vkey(TAU), L.key(), Rn.key())), vkey(Sym("m", "to_vec?", 0, ())), vkey(LSQ)))
            txt = repr(vkey(cnew))
            okk = isinstance(cnew, Sym) and cnew.tag[:2] == ("ctor", "Some") and "'fdsolve'" in txt and "'bsplmatrix'" in txt and repr(vkey(TAU)) in txt and repr(vkey(Y)) in txt and \
                repr(vkey(LSQ)) in txt and repr(L.key()) in txt and repr(Rn.key()) in txt
            # argument order of bsplmatrix(tau, left_n, right_n)
            m_ = [x for x in walk_keys(vkey(cnew)) if isinstance(x, tuple) and x[:2] == ("sym", "bsplmatrix")]
            okk = okk and len(m_) == 1 and m_[0][3:] == (vkey(TAU), L.key(), Rn.key())
        ck.check(r2, "solution-stored", okk, "on success c is not Some(fdsolve(bsplmatrix(tau, left_n, right_n), y, allow_lsq))", where,
                 detail=cel.vfmt(oks[0]["params"][0].fields["c"])[:500] if oks else None, sample="self.c = Some(fdsolve(B(tau,left_n,right_n), y, allow_lsq))")
    except Unsupported as e:
        ck.fail(r2, "csolve", "rule could not be established (%s)" % e, where)

    # ---------------- R15.3 evaluation
    r3 = ck.rule("R15.3", "ppdnev_single* = inner product of the coefficient vector with the vector of basis derivatives B_i^(m)(x), i in 0..n (Err before csolve); "
                          "the two refusing methods return Err for every input", floor=7)
    X, Mm = Poly.atom("x"), Poly.atom("m")
    cases = [(PS + "ppdnev_single", "bspldnev_single_f64", X, True)]
    for ty in ("f64", D1, D2):
        for meth, kern, xn in (("ppdnev_single_dual", "bspldnev_single_dual", D1), ("ppdnev_single_dual2", "bspldnev_single_dual2", D2)):
            refuse = (ty == D1 and xn == D2) or (ty == D2 and xn == D1)
            cases.append((SP + "PPSpline::<%s>::%s" % (ty, meth), kern, cel.operand("x", xn), not refuse))
    for fn, kern, xval, works in cases:
        r = facts.fn(fn)
        key = fn.replace(SP, "").replace("dual::dual::", "")
        where = "%s:%d" % (r["file"], r["line"]) if r else None
        if r is None:
            ck.fail(r3, key, "function not found")
            continue
        for cstate, cval in (("solved", Sym("ctor", "Some", Sym("coeffs"))), ("unsolved", NONE)):
            hk = {SP + kern: lambda ev, vals, e: Sym("basis", *[vkey(v) for v in vals]),
                  "mul11_": lambda ev, vals, e: Sym("inner", frozenset([vkey(vals[0]), vkey(vals[1])]))}
            try:
                got = cel.Ev(facts, hooks=hk).apply_fn(fn, [me_rec(cval), xval, Mm], 0)
            except Unsupported as e:
                ck.fail(r3, "%s[%s]" % (key, cstate), "rule could not be established (%s)" % e, where)
                continue
            if not works or cstate == "unsolved":
                ck.check(r3, "%s[%s]" % (key, cstate), isinstance(got, Sym) and got.tag[:2] == ("ctor", "Err"), "expected Err (%s)" % ("mixed kinds are refused" if not works else "no coefficients yet"),
                         where, detail=cel.vfmt(got)[:200], sample="Err")
                continue
            okv = isinstance(got, Sym) and got.tag[:2] == ("ctor", "Ok") and isinstance(got.tag[2], Sym) and got.tag[2].tag[0] == "inner"
            if okv:
                parts = got.tag[2].tag[1]
                basis_keys = [p for p in parts if p != vkey(Sym("coeffs"))]
                okv = vkey(Sym("coeffs")) in parts and len(basis_keys) == 1
                if okv:
                    bk = basis_keys[0]
                    want_el = Sym("basis", vkey(xval), Poly.atom("i").key(), K.key(), vkey(T), Mm.key(), vkey(NONE))
                    want = cel.Coll(cel.Seq(Sym("range", Poly.const(0).key(), N.key()), lambda idx: Sym("basis", vkey(xval), idx.key(), K.key(), vkey(T), Mm.key(), vkey(NONE)))).key()
                    okv = bk == want
            ck.check(r3, "%s[%s]" % (key, cstate), okv, "the value is not inner(c, [B_i^(m)(x) for i in 0..n])", where, detail=cel.vfmt(got)[:400], sample="Ok(inner(c, basis_m(x)))")

    # ---------------- R15.4 lifting
    r4 = ck.rule("R15.4", "AD lifting of the basis at a dual abscissa is the unary chain rule with f = B^(m), f' = B^(m+1), f'' = B^(m+2) evaluated at the abscissa's value "
                          "(oracle composition formula); Dual::clone_from / Dual2::clone_from keep the abscissa's variables and take the given arrays", floor=6)
    I, ORG = Poly.atom("i"), Sym("param", "org_k")
    for fn, num, m_of in ((SP + "bsplev_single_dual", D1, None), (SP + "bsplev_single_dual2", D2, None), (SP + "bspldnev_single_dual", D1, Mm), (SP + "bspldnev_single_dual2", D2, Mm)):
        r = facts.fn(fn)
        key = fn.replace(SP, "")
        where = "%s:%d" % (r["file"], r["line"]) if r else None
        x = cel.operand("x", num)
        xr = x.fields["real"]
        hk = dict(kernel_hooks(), **{"Dual::clone_from": clone_from_hook(D1), "Dual2::clone_from": clone_from_hook(D2)})
        try:
            args = [x, I, K, T] + ([m_of] if m_of is not None else []) + [ORG]
            got = cel.Ev(facts, hooks=hk).apply_fn(fn, args, 0)
            if m_of is None:
                F0, F1, F2 = Bf(xr, I, K, T, ORG), Df(xr, I, K, T, Poly.const(1), ORG), Df(xr, I, K, T, Poly.const(2), ORG)
            else:
                F0, F1, F2 = Df(xr, I, K, T, Mm, ORG), Df(xr, I, K, T, Mm + Poly.const(1), ORG), Df(xr, I, K, T, Mm + Poly.const(2), ORG)
            want = {"real": F0, "dual": F1 * x.fields["dual"]}
            if num == D2:
                want["dual2"] = F1 * x.fields["dual2"] + Poly.const(cel.F(1, 2)) * F2 * cel.outer(x.fields["dual"], x.fields["dual"])
            ok = isinstance(got, Rec) and got.adt == num and all(got.fields.get(f) == w for f, w in want.items()) and vkey(got.fields["vars"]) == vkey(x.fields["vars"])
            ck.check(r4, key, ok, "lifting is not (f, f' x.dual%s) with f^(j) the basis derivative of order m+j at x.real" % (", f' x.dual2 + 1/2 f'' outer(x.dual, x.dual)" if num == D2 else ""),
                     where, detail=cel.vfmt(got)[:500], sample="real=B^(m), dual=B^(m+1)*x.dual" + (", dual2=B^(m+1)*x.dual2 + 1/2 B^(m+2) outer" if num == D2 else ""))
        except Unsupported as e:
            ck.fail(r4, key, "rule could not be established (%s)" % e, where)
    for num in (D1, D2):
        fn = num + "::clone_from"
        r = facts.fn(fn)
        try:
            o = cel.operand("o", num)
            args = [o, Poly.atom("re"), Poly.tensor(("vec", "newdual"), 1)] + ([Poly.tensor(("mat", "newdual2"), 2)] if num == D2 else [])
            got = cel.Ev(facts).apply_fn(fn, args, 0)
            leaves = [v for _, v in paths.flatten(got) if isinstance(v, Rec)]
            ok = len(leaves) == 1 and leaves[0].fields["real"] == args[1] and leaves[0].fields["dual"] == args[2] and vkey(leaves[0].fields["vars"]) == vkey(o.fields["vars"]) and \
                (num == D1 or leaves[0].fields["dual2"] == args[3])
            ck.check(r4, num.rsplit("::", 1)[-1] + "::clone_from", ok, "clone_from does not build (real, given arrays) on the other number's variable list", "%s:%d" % (r["file"], r["line"]),
                     detail=cel.vfmt(got)[:300], sample="Self { real, dual, (dual2,) vars: other.vars }")
        except Unsupported as e:
            ck.fail(r4, num.rsplit("::", 1)[-1] + "::clone_from", "rule could not be established (%s)" % e)

    # ---------------- R15.5 type table
    r5 = ck.rule("R15.5", "mapped_value type table (spline kind x abscissa kind -> result kind, evaluation at order 0): f64 spline -> F64/Dual/Dual2 by abscissa; Dual spline -> "
                          "Dual, Dual, (Dual2 abscissa refused); Dual2 spline -> Dual2, (Dual abscissa refused), Dual2", floor=9)
    table = {"f64": {"F64": ("F64", "ppdnev_single"), "Dual": ("Dual", "ppdnev_single_dual"), "Dual2": ("Dual2", "ppdnev_single_dual2")},
             D1: {"F64": ("Dual", "ppdnev_single"), "Dual": ("Dual", "ppdnev_single_dual"), "Dual2": ("Dual2", "ppdnev_single_dual2")},
             D2: {"F64": ("Dual2", "ppdnev_single"), "Dual": ("Dual", "ppdnev_single_dual"), "Dual2": ("Dual2", "ppdnev_single_dual2")}}
    for ty, row in table.items():
        fn = "<splines::spline::PPSpline<%s> as dual::enums::NumberMapping>::mapped_value" % ty
        r = facts.fn(fn)
        where = "%s:%d" % (r["file"], r["line"]) if r else None
        for xk, (resk, meth) in row.items():
            key = "PPSpline<%s>(%s)" % (ty.rsplit("::", 1)[-1], xk)
            payload = Poly.atom("f") if xk == "F64" else cel.operand("d", D1 if xk == "Dual" else D2)
            calls = []

            def mk(name):
                def h(ev, vals, e):
                    calls.append((name, e.get("resolved") or e.get("callee"), vals))
                    return Sym("ctor", "Ok", Sym("value", name))
                return h
            hk = {"::ppdnev_single": mk("ppdnev_single"), "::ppdnev_single_dual": mk("ppdnev_single_dual"), "::ppdnev_single_dual2": mk("ppdnev_single_dual2")}
            try:
                got = cel.Ev(facts, hooks=hk).apply_fn(fn, [me_rec(), Sym("ctor", xk, payload)], 0)
                ok = vkey(got) == vkey(Sym("ctor", "Ok", Sym("ctor", resk, Sym("value", meth)))) and len(calls) == 1 and calls[0][0] == meth and \
                    vkey(calls[0][2][1]) == vkey(payload) and isinstance(calls[0][2][2], Poly) and calls[0][2][2].const_value() == 0
                if ok and meth != "ppdnev_single":
                    ok = (calls[0][1] or "").endswith("PPSpline::<%s>::%s" % (ty, meth))
                ck.check(r5, key, ok, "mapped_value for this pair is not Ok(%s(self.%s(x, 0)?)) of its own spline kind" % (resk, meth), where, detail=cel.vfmt(got)[:300],
                         sample="%s(%s(x, 0))" % (resk, meth))
            except Unsupported as e:
                ck.fail(r5, key, "rule could not be established (%s)" % e, where)
    from rules import pywrap
    pywrap.run_spline_wrappers(ck, facts)
    # the solved spline rests on the solver's structure and on the basis/derivative kernels: their rules are necessary conditions of this property too
    from rules import c13, c14
    nd, tb = list(ck.not_decided), list(ck.trusted)
    c13.run(ck, facts, tier)
    nested, ck._c14_nested = getattr(ck, "_c14_nested", False), True
    try:
        c14.run(ck, facts, tier)
    finally:
        ck._c14_nested = nested
    ck.not_decided[:], ck.trusted[:] = nd, tb
    ck.not_decided += ["interpolation of the data and polynomial reproduction as numerical facts (they rest on C13's undecided numerical correctness of the solve)",
                       "sensitivity of the solved spline to each datum (linearity of the solve in y is structural: fdsolve is generic in T and only combines y linearly — not separately evaluated)"]
    ck.trusted += ["lib/cel.py", "lib/oracle.py composition formula (re-derived inline for the unary case)"]


def walk_keys(k):
    yield k
    if isinstance(k, (tuple, list, frozenset)):
        for x in k:
            yield from walk_keys(x)
