"""C11 — curve look-ups follow each interpolation rule (two-point formulas, flat rules, adjacency, sorted before use)."""
import re
import cel, hir, paths, cfg as cfgmod
from cel import Poly, Rec, Alt, Sym, Tup, Unsupported
from fractions import Fraction as F

INTERP = {
    "curves::interpolation::intp_linear::LinearInterpolator": ("formula", "linear_interp"),
    "curves::interpolation::intp_log_linear::LogLinearInterpolator": ("formula", "log_linear_interp"),
    "curves::interpolation::intp_linear_zero_rate::LinearZeroRateInterpolator": ("formula", "linear_zero_interp"),
    "curves::interpolation::intp_flat_forward::FlatForwardInterpolator": ("flat", "forward"),
    "curves::interpolation::intp_flat_backward::FlatBackwardInterpolator": ("flat", "backward"),
}
UT = "curves::interpolation::utils::"


def branches(v):
    """{(normalised condition literal, value key)} of a two-way if, spelling-independent."""
    ps = paths.flatten(v)
    if len(ps) != 2 or any(len(c) != 1 for c, _ in ps):
        return None
    return {(next(iter(c)), cel.vkey(x)) for c, x in ps}


def sorting_wrappers(P):
    """NodesTimestamp::sort_keys and every function in curves:: all of whose entry->return paths call it (or another such function)."""
    sorters = {"curves::nodes::NodesTimestamp::sort_keys"}
    grew = True
    while grew:
        grew = False
        for name_, c_ in P.cfgs.items():
            if name_ in sorters or not name_.startswith("curves::"):
                continue
            sb = [i for i, t in c_.calls() if (c_.callee_name(t) or "") in sorters]
            rets_ = c_.returns()
            if sb and rets_ and not any(b in c_.reachable_from(0, avoid=sb) for b in rets_):
                sorters.add(name_)
                grew = True
    return sorters


def run(ck, facts, tier):
    ev = cel.Ev(facts)
    x1, y1, x2, y2, x, x0 = (Poly.atom(n) for n in ("x1", "y1", "x2", "y2", "x", "x0"))
    # ---------------- R11.1 two-point formulas (generic bodies evaluated over the reals)
    r1 = ck.rule("R11.1", "two-point closed forms: linear = y1 + (y2-y1)(x-x1)/(x2-x1); log-linear = exp(linear(ln y1, ln y2)); linear-zero = exp(-t r), "
                          "r = r1 + (r2-r1)(t-t1)/(t2-t1), r_i = -ln(y_i)/t_i, t = x - x0, and r = r2 when t1 = 0 (first node presumed 1)", floor=3)
    lin = lambda a, b: a + (b - a) * (x - x1) * (x2 - x1).inv()
    cases = [("linear_interp", [x1, y1, x2, y2, x], lin(y1, y2)),
             ("log_linear_interp", [x1, y1, x2, y2, x], cel.func_atom("exp", lin(cel.func_atom("ln", y1), cel.func_atom("ln", y2))))]
    for name, args, want in cases:
        r = facts.fn(UT + name)
        if r is None:
            ck.fail(r1, name, "function not found")
            continue
        try:
            got = ev.apply_fn(UT + name, args, 0)
        except Unsupported as e:
            ck.fail(r1, name, "rule could not be established (%s)" % e, "%s:%d" % (r["file"], r["line"]))
            continue
        ck.check(r1, name, isinstance(got, Poly) and got == want, "%s is not the closed form" % name, "%s:%d" % (r["file"], r["line"]),
                 detail="got  %s\n   want %s" % (cel.vfmt(got)[:500], want.fmt()[:500]), sample=want.fmt()[:200])
    r = facts.fn(UT + "linear_zero_interp")
    if r is None:
        ck.fail(r1, "linear_zero_interp", "function not found")
    else:
        where = "%s:%d" % (r["file"], r["line"])
        t1, t2, t = x1 - x0, x2 - x0, x - x0
        rr1, rr2 = -cel.func_atom("ln", y1) * t1.inv(), -cel.func_atom("ln", y2) * t2.inv()
        rr = rr1 + (rr2 - rr1) * (t - t1) * (t2 - t1).inv()
        want_gen, want_first = cel.func_atom("exp", -(t * rr)), cel.func_atom("exp", -(t * rr2))
        try:
            got = ev.apply_fn(UT + "linear_zero_interp", [x0, x1, y1, x2, y2, x], 0)
            ok = isinstance(got, Alt) and len(got.alts) == 2 and got.alts[0][0] == ("if", cel.vkey(cel.cmp_sym("Eq", t1, Poly.const(0)))) and \
                got.alts[0][1] == want_first and got.alts[1][1] == want_gen
            ck.check(r1, "linear_zero_interp", ok, "linear_zero_interp is not exp(-t r) with the first-interval rule on t1 == 0", where,
                     detail="got %s\n   want [t1==0] %s | %s" % (cel.vfmt(got)[:700], want_first.fmt()[:300], want_gen.fmt()[:300]), sample="t1==0: " + want_first.fmt()[:120])
        except Unsupported as e:
            ck.fail(r1, "linear_zero_interp", "rule could not be established (%s)" % e, where)

    # ---------------- R11.2 / R11.3 interpolated_value wrappers
    r2 = ck.rule("R11.2", "flat rules: forward returns the right node's value iff x >= x2 else the left's; backward returns the left's iff x <= x1 else the right's "
                          "(comparison canonicalised, so mirrored spellings are accepted)", floor=6)
    r3 = ck.rule("R11.3", "adjacency: every interpolator reads nodes `index` and `index+1` of the same map (x0 from index 0), with index = node_index(nodes, timestamp(date)), "
                          "passes (x1,y1,x2,y2,x) to its own formula in that order, and wraps the result in the variant of the map it read; node_index = index_left(keys, ts, None)", floor=11)

    def hook_ts(ev_, vals, e):
        return Poly.atom("x")

    def hook_node_index(ev_, vals, e):
        return Poly.atom(("node_index", cel.vkey(vals[1]), cel.vkey(vals[2])))

    def hook_get_index(ev_, vals, e):
        m, i = vals[0], vals[1]
        return Tup([Poly.atom(("key", cel.vkey(m), cel.vkey(i))), Sym("val", cel.vkey(m), cel.vkey(i))])

    def mk_formula_hook(nm):
        return lambda ev_, vals, e: Sym("formula", nm, tuple(cel.vkey(v) for v in vals))

    hooks = {"::timestamp": hook_ts, "CurveInterpolation::node_index": hook_node_index, "::get_index": hook_get_index}
    for nm in ("linear_interp", "log_linear_interp", "linear_zero_interp"):
        hooks[UT + nm] = mk_formula_hook(nm)
    ev2 = cel.Ev(facts, hooks=hooks)
    for ty, (kind, what) in INTERP.items():
        rs = [r for r in facts.all_fns() if r.get("trait_item") == "curves::curve::CurveInterpolation::interpolated_value" and r.get("self_ty") == ty]
        sname = ty.rsplit("::", 1)[-1]
        if not rs:
            ck.fail(r3, sname, "interpolated_value impl not found")
            continue
        r = rs[0]
        where = "%s:%d" % (r["file"], r["line"])
        for variant in ("F64", "Dual", "Dual2"):
            m = Sym("map", variant)
            nodes = Sym("ctor", variant, m)
            key = "%s[%s]" % (sname, variant)
            try:
                got = ev2.apply_fn(r["fn"], [Sym("param", "self"), nodes, Sym("param", "date")], 0)
            except Unsupported as e:
                ck.fail(r3, key, "rule could not be established (%s)" % e, where)
                continue
            idx = Poly.atom(("node_index", cel.vkey(nodes), Poly.atom("x").key()))
            K = lambda i: Poly.atom(("key", cel.vkey(m), cel.vkey(i)))
            V = lambda i: Sym("val", cel.vkey(m), cel.vkey(i))
            i0, i1 = idx, idx + Poly.const(1)
            if kind == "formula":
                if what == "linear_zero_interp":
                    wargs = [K(Poly.const(0)), K(i0), V(i0), K(i1), V(i1), Poly.atom("x")]
                else:
                    wargs = [K(i0), V(i0), K(i1), V(i1), Poly.atom("x")]
                want = Sym("ctor", variant, Sym("formula", what, tuple(cel.vkey(v) for v in wargs)))
                ck.check(r3, key, cel.vkey(got) == cel.vkey(want), "%s does not feed nodes index/index+1 of its own map to %s in the order (x1,y1,x2,y2,x), or wraps another variant"
                         % (sname, what), where, detail="got  %s\n   want %s" % (cel.vfmt(got)[:600], cel.vfmt(want)[:600]), sample="%s(%s(key[i],val[i],key[i+1],val[i+1],x))" % (variant, what))
            else:
                b = branches(got)
                if what == "forward":
                    c = cel.cmp_sym("Ge", Poly.atom("x"), K(i1), True)    # x >= x2 (i64 timestamps)
                    want = {(paths.lit(c), cel.vkey(Sym("ctor", variant, V(i1)))), (paths.lit(c, False), cel.vkey(Sym("ctor", variant, V(i0))))}
                    desc = "right node's value iff x >= x2, else left's"
                else:
                    c = cel.cmp_sym("Le", Poly.atom("x"), K(i0), True)    # x <= x1
                    want = {(paths.lit(c), cel.vkey(Sym("ctor", variant, V(i0)))), (paths.lit(c, False), cel.vkey(Sym("ctor", variant, V(i1))))}
                    desc = "left node's value iff x <= x1, else right's"
                ck.check(r2, key, b == want, "flat-%s rule is not: %s" % (what, desc), where, detail="got %s" % cel.vfmt(got)[:600], sample=desc)
    # node_index default body
    ni = facts.fn("curves::curve::CurveInterpolation::node_index")
    ok = False
    if ni:
        evn = cel.Ev(facts, hooks={"NodesTimestamp::keys": lambda ev_, vals, e: Sym("keys", cel.vkey(vals[0])),
                                    UT + "index_left": lambda ev_, vals, e: Sym("index_left", tuple(cel.vkey(v) for v in vals))})
        try:
            got = evn.apply_fn(ni["fn"], [Sym("param", "self"), Sym("param", "nodes"), Poly.atom("ts")], 0)
            ok = cel.vkey(got) == cel.vkey(Sym("index_left", (cel.vkey(Sym("keys", cel.vkey(Sym("param", "nodes")))), Poly.atom("ts").key(), cel.vkey(Sym("ctor", "None")))))
        except Unsupported:
            ok = False
    ck.check(r3, "node_index", ok, "CurveInterpolation::node_index is not index_left(&nodes.keys(), &timestamp, None)", sample="index_left(nodes.keys(), ts, None)")
    overriding = [r["fn"] for r in facts.all_fns() if r.get("trait_item") == "curves::curve::CurveInterpolation::node_index" and r.get("self_ty") in INTERP]
    ck.check(r3, "node_index:not-overridden", not overriding, "node_index overridden by %s" % overriding, sample="default method used by all five interpolators")

    # ---------------- R11.4 sorted before use
    r4 = ck.rule("R11.4", "CurveDF::try_new: a key-sort of the node map lies on every path to the return (supply order cannot matter); sort_keys sorts the payload "
                          "of each variant on every path; every other CurveDF { .. } literal is the derived Clone or is itself dominated by a sort — the loader included", floor=6)
    P = cfgmod.Program(facts)

    # sorting wrappers: a function every entry->return path of which passes through a call to NodesTimestamp::sort_keys (or to another such wrapper), e.g. a
    # consuming `into_sorted(mut self) -> Self { self.sort_keys(); self }` — calling it is calling the sort
    sorters = sorting_wrappers(P)
    ck.extra["sorting_wrappers"] = sorted(sorters)

    def sort_dominates(c):
        sorts = [i for i, t in c.calls() if (c.callee_name(t) or "") in sorters]
        aggr = [i for i, b in enumerate(c.blocks) for s in b["stmts"] if s.get("adt", "").endswith("curve::CurveDF")]
        reach = c.reachable_from(0, avoid=sorts)
        return bool(sorts) and bool(aggr) and not any(a in reach for a in aggr), sorts
    c = P.cfgs.get("curves::curve::CurveDF::<T, U>::try_new")
    if c is None:
        ck.fail(r4, "try_new", "CurveDF::try_new not found")
    else:
        okd, sorts = sort_dominates(c)
        ck.check(r4, "try_new:sort-dominates-construction", okd,
                 "CurveDF can be constructed without sorting its nodes (a path to the struct literal avoids sort_keys)", "%s:%d" % (c.rec["file"], c.rec["line"]),
                 sample="sort_keys call in block %s precedes the only CurveDF aggregate" % sorts)
    sk = P.cfgs.get("curves::nodes::NodesTimestamp::sort_keys")
    if sk is None:
        ck.fail(r4, "sort_keys", "NodesTimestamp::sort_keys not found")
    else:
        n = sum(1 for i, t in sk.calls() if re.search(r"indexmap::.*IndexMap.*::sort_keys$", sk.callee_name(t) or ""))
        ck.check(r4, "sort_keys:all-variants", n == 3, "sort_keys sorts %d of the 3 variants" % n, "%s:%d" % (sk.rec["file"], sk.rec["line"]), sample="3 IndexMap::sort_keys calls")
        sblocks = [i for i, t in sk.calls() if re.search(r"indexmap::.*IndexMap.*::sort_keys$", sk.callee_name(t) or "")]
        reach = sk.reachable_from(0, avoid=sblocks)
        rets = sk.returns()
        ck.check(r4, "sort_keys:unconditional", bool(rets) and not any(b in reach for b in rets),
                 "sort_keys can return without sorting (a path from entry to the return avoids every IndexMap::sort_keys call)", "%s:%d" % (sk.rec["file"], sk.rec["line"]),
                 sample="every entry->return path passes an IndexMap::sort_keys call")
    # every other place that builds a CurveDF { .. } is either the derived Clone (copies a sorted curve) or must itself sort first — in particular the loader:
    # a derived Deserialize that fills the struct directly takes the node order from the document (JSON object order is not significant; a key-sorting
    # re-serialiser orders timestamps as strings)
    seen_loader = False
    for fn in facts.all_fns():
        lits = [e for e in hir.walk(fn["body"]) if e.get("k") == "struct" and (e.get("ty") or "").startswith("curves::curve::CurveDF<")]
        if not lits or fn["fn"].endswith("CurveDF::<T, U>::try_new"):
            continue
        if (fn.get("trait_item") or "").endswith("Clone::clone"):
            ck.ok(r4, "literal@Clone", "derived Clone")
            continue
        c2 = P.cfgs.get(fn["fn"])
        okd = sort_dominates(c2)[0] if c2 is not None else False
        short_name = ("derived-Deserialize::" + fn["fn"].rsplit("::", 1)[-1]) if "Deserialize" in fn["fn"] else re.sub(r"<[^<>]*>", "", fn["fn"])[-70:]
        seen_loader = seen_loader or okd
        ck.check(r4, "literal@" + short_name, okd, "CurveDF { .. } is built here without sorting the node map first (a stored curve whose nodes are written in another "
                 "order loads into a curve that interpolates between the wrong nodes)", "%s:%s" % (fn["file"], lits[0].get("ln")), sample="sort_keys dominates the struct literal")
    de = [r_ for r_ in facts.all_fns() if (r_.get("trait_item") or "").endswith("Deserialize::deserialize") and (r_.get("self_ty") or "").startswith("curves::curve::CurveDF")]
    ck.check(r4, "loader-sorts", bool(de) and seen_loader, "CurveDF is deserialisable but no sorting conversion builds it", sample="Deserialize goes through a conversion that sorts")
    # ---------------- R11.5 interval search: recurrence conformance
    r5 = ck.rule("R11.5", "index_left is the bisection recurrence: n = 1 aborts; n = 2 -> left count; otherwise split = (n-1) div 2, value <= list[split] -> search "
                          "list[..=split] with the same count, else search list[split..] with count + split (the n = 3 && value == list[split] shortcut, which "
                          "returns what the <= branch would, may be present). By induction on n this returns the interval whose right end is the first node on or "
                          "after the value, clamped to the first and last interval", floor=2)
    fn = UT + "index_left"
    r = facts.fn(fn)
    where = "%s:%d" % (r["file"], r["line"]) if r else None
    L, V = Sym("param", "list"), Sym("param", "value")
    for lcname, lcarg, lc in (("None", Sym("ctor", "None"), Poly.const(0)), ("Some", Sym("ctor", "Some", Poly.atom("lc")), Poly.atom("lc"))):
        try:
            got = cel.Ev(facts, hooks={fn: lambda ev_, vals, e: Sym("rec", *[cel.vkey(v) for v in vals])}).apply_fn(fn, [L, V, lcarg], 0)
        except Unsupported as e:
            ck.fail(r5, "index_left[left_count=%s]" % lcname, "rule could not be established (%s)" % e, where)
            continue
        n = Poly.atom(("len", cel.vkey(L), None))
        split = Poly.atom(("idiv", (n - Poly.const(1)).key(), Poly.const(2).key()))
        at_split = Poly.atom(("call", "index", (cel.vkey(L), split.key())))
        rng_to = Rec("std::ops::RangeToInclusive", {"end": split})
        rng_from = Rec("std::ops::RangeFrom", {"start": split})
        sub = lambda rg: Poly.atom(("call", "index", (cel.vkey(L), cel.vkey(rg))))
        rec1 = Sym("rec", cel.vkey(sub(rng_to)), cel.vkey(V), cel.vkey(Sym("ctor", "Some", lc)))
        rec2 = Sym("rec", cel.vkey(sub(rng_from)), cel.vkey(V), cel.vkey(Sym("ctor", "Some", lc + split)))
        # Paths are compared as (set of list lengths the path serves, its other literals, its result): a `match n {1, 2, _}` and an if-chain on n, or guard
        # clauses with early returns, give the same regions. Lengths are taken over 1..12 (every branch of the recurrence is reached by 4).
        nvar = ("len", cel.vkey(L), None)
        DOM = range(1, 13)

        def region(c, v):
            feas, rest = paths.int_feasible(c, nvar, DOM)
            leaf = cel.vkey(Sym("diverges", "panic")) if (isinstance(v, Sym) and v.tag[0] == "diverges") else cel.vkey(v)
            return (tuple(feas), rest, leaf)
        gotset = {region(c, v) for c, v in paths.flatten(got)}
        gotset = {g for g in gotset if g[0]}           # combinations of tests no list length satisfies
        lit = paths.lit
        n_is = lambda k: lit(cel.cmp_sym("Eq", n, Poly.const(k), True))
        le = lit(Sym("cmp", "Le", cel.vkey(V), cel.vkey(at_split)))
        nle = (le[0], not le[1])
        eqv = lit(cel.eq_sym(V, at_split))
        short = Sym("and", *sorted([cel.vkey(cel.cmp_sym("Eq", n, Poly.const(3), True)), cel.vkey(cel.eq_sym(V, at_split))], key=repr))
        sc, nsc = lit(short), lit(short, False)
        n1, n2 = n_is(1), n_is(2)
        not12 = [(n1[0], not n1[1]), (n2[0], not n2[1])]
        base = {region(frozenset([n1]), Sym("diverges", "panic")), region(frozenset([(n1[0], not n1[1]), n2]), lc)}
        want_a = base | {region(frozenset(not12 + [sc]), lc), region(frozenset(not12 + [nsc, le]), rec1), region(frozenset(not12 + [nsc, nle]), rec2)}
        want_b = base | {region(frozenset(not12 + [le]), rec1), region(frozenset(not12 + [nle]), rec2)}
        ck.check(r5, "index_left[left_count=%s]" % lcname, gotset in (want_a, want_b), "index_left is not the bisection recurrence (a changed shortcut, split or branch would select a wrong interval for some list length)",
                 where, detail="only in code: %s" % [(g[0], sorted(map(str, g[1]))[:3], str(g[2])[:160]) for g in list(gotset - want_a)[:3]], sample="5 regions: abort / count / shortcut / left half / right half")
    # ---------------- R11.6 the key conversion of the stored nodes is the one applied to the query date
    r6 = ck.rule("R11.6", "Nodes -> NodesTimestamp keeps every node, in order, as (key.and_utc().timestamp(), value unchanged) for all three kinds — the same conversion "
                          "the look-up applies to the query date, so a node carrying a time of day is found at that time", floor=3)
    cf = "<curves::nodes::NodesTimestamp as std::convert::From<curves::nodes::Nodes>>::from"
    rr = facts.fn(cf)
    for var in ("F64", "Dual", "Dual2"):
        if rr is None:
            ck.fail(r6, "from[%s]" % var, "conversion not found")
            continue
        try:
            M_ = Sym("param", "m")
            src = cel.Coll(cel.Seq(M_, lambda idx: Tup([Sym("key", idx.key()), Sym("val", idx.key())])))
            got = cel.Ev(facts).apply_fn(cf, [Sym("ctor", var, src)], 0)
            ts = lambda k: Sym("m", "timestamp", cel.vkey(Sym("m", "and_utc", cel.vkey(k), ())), ())
            want = Sym("ctor", var, cel.Coll(cel.Seq(M_, lambda idx: Tup([ts(Sym("key", idx.key())), Sym("val", idx.key())]))))
            ck.check(r6, "from[%s]" % var, cel.vkey(got) == cel.vkey(want), "node keys are not converted with and_utc().timestamp() (or values/variant are altered): %s" % cel.vfmt(got)[:300],
                     "%s:%d" % (rr["file"], rr["line"]), sample="(k.and_utc().timestamp(), v) for every node")
        except Unsupported as e:
            ck.fail(r6, "from[%s]" % var, "rule could not be established (%s)" % e, "%s:%d" % (rr["file"], rr["line"]))
    # ---------------- R11.7 the per-kind accessors of the node map
    r7 = ck.rule("R11.7", "the node map's accessors do the same for all three kinds: first_key() is the key of entry 0 (the zero-rate rule's origin), keys() is every key in "
                          "stored order (what the interval search bisects), sort_keys() sorts the contained map by key", floor=9)
    NT = "curves::nodes::NodesTimestamp::"

    def plain(k):
        """unwrap/expect erased"""
        if isinstance(k, tuple):
            if len(k) == 5 and k[:2] == ("sym", "m") and k[2] in ("unwrap", "expect"):
                return plain(k[3])
            return tuple(plain(x) for x in k)
        return k
    Mp = Sym("map")
    wants = {"first_key": [("sym", "field", cel.vkey(Sym("m", "first", cel.vkey(Mp), ())), "0"), ("sym", "field", cel.vkey(Sym("m", "get_index", cel.vkey(Mp), (Poly.const(0).key(),))), "0")],
             "keys": [cel.vkey(Sym("m", "collect", cel.vkey(Sym("m", "keys", cel.vkey(Mp), ())), ())), cel.vkey(Sym("collect", cel.vkey(Sym("m", "keys", cel.vkey(Mp), ()))))],
             "sort_keys": [cel.vkey(Sym("m", "sort_keys", cel.vkey(Mp), ()))]}
    for meth, accepted in wants.items():
        rr = facts.fn(NT + meth)
        for var in ("F64", "Dual", "Dual2"):
            key = "%s[%s]" % (meth, var)
            if rr is None:
                ck.fail(r7, key, "accessor not found")
                continue
            try:
                got = cel.Ev(facts).apply_fn(NT + meth, [Sym("ctor", var, Mp)], 0)
                ck.check(r7, key, plain(cel.vkey(got)) in accepted, "%s on the %s map is not %s" % (meth, var, {"first_key": "the key of entry 0", "keys": "all keys in stored order", "sort_keys": "a key-sort of the map"}[meth]),
                         "%s:%d" % (rr["file"], rr["line"]), detail=cel.vfmt(got)[:200], sample=cel.vfmt(got)[:100])
            except Unsupported as e:
                ck.fail(r7, key, "rule could not be established (%s)" % e, "%s:%d" % (rr["file"], rr["line"]))
    # ---------------- R11.8 the curve's own look-ups are its interpolator's
    r8 = ck.rule("R11.8", "CurveDF::interpolated_value(date) = interpolator.interpolated_value(&nodes, date) and CurveDF::node_index(ts) = interpolator.node_index(&nodes, ts): "
                          "the interval a curve reports is the interval its look-up uses", floor=2)
    CD = "curves::curve::CurveDF::<T, U>::"
    for meth in ("interpolated_value", "node_index"):
        rr = facts.fn(CD + meth)
        if rr is None:
            ck.fail(r8, meth, "method not found")
            continue
        me = Rec("curves::curve::CurveDF", {"interpolator": Sym("field", "interpolator"), "nodes": Sym("field", "nodes")})
        arg = Sym("param", "x")
        try:
            got = cel.Ev(facts, hooks={"CurveInterpolation::" + meth: lambda ev_, vals, e, meth=meth: Sym("interp", meth, *[cel.vkey(v) for v in vals])}).apply_fn(CD + meth, [me, arg], 0)
            want = Sym("interp", meth, cel.vkey(Sym("field", "interpolator")), cel.vkey(Sym("field", "nodes")), cel.vkey(arg))
            ck.check(r8, meth, cel.vkey(got) == cel.vkey(want), "CurveDF::%s is not its interpolator's %s on its own nodes: %s" % (meth, meth, cel.vfmt(got)[:200]),
                     "%s:%d" % (rr["file"], rr["line"]), sample="self.interpolator.%s(&self.nodes, x)" % meth)
        except Unsupported as e:
            ck.fail(r8, meth, "rule could not be established (%s)" % e, "%s:%d" % (rr["file"], rr["line"]))
    # supply order also reaches the variable tags of a curve built with derivatives: nodes are sorted before they are enumerated (C12 R12.2)
    from rules import c12
    if not getattr(ck, "_c11_c12_nested", False):          # C12 includes R11.4 of this module in turn
        ck._c11_c12_nested = True
        try:
            with ck.restrict({"R12.2"}):
                nd_, tb_ = list(ck.not_decided), list(ck.trusted)
                c12.run(ck, facts, tier)
                ck.not_decided[:], ck.trusted[:] = nd_, tb_
        finally:
            ck._c11_c12_nested = False
    from rules import pywrap
    pywrap.run_curve_wrappers(ck, facts)          # what a Python user calls is the wrapper: it must hand its arguments to the core method unchanged
    ck.not_decided += ["index_left is decided as conformance to the bisection recurrence; that the recurrence meets the interval specification is an induction argument stated in the rule, not mechanised",
                       "'lies between the nodes' is a numerical consequence of R11.1, not separately evaluated", "curves with fewer than two nodes (index_left aborts on a one-element list; the statement quantifies over node counts >= 2)"]
    ck.trusted += ["lib/cel.py"]
