"""C12 — curve values carry exact sensitivities to their nodes at every derivative order."""
import re
import cel, hir, paths, cfg as cfgmod
from cel import Poly, Rec, Alt, Sym, Tup, Seq, Coll, Unsupported

D1, D2 = "dual::dual::Dual", "dual::dual::Dual2"
VARIANTS = ("F64", "Dual", "Dual2")
ORDER_OF = {"Zero": "F64", "One": "Dual", "Two": "Dual2"}


def elem_hook(container):
    """Element shape of the node maps: (key, value) with the value typed by the map's variant."""
    if isinstance(container, Sym) and container.tag and container.tag[0] == "map":
        v = container.tag[1]
        val = Poly.atom("v") if v == "F64" else (cel.operand("v", D1 if v == "Dual" else D2) if v in ("Dual", "Dual2")
                                                  else Sym("numberval"))
        return Tup([Poly.atom("k"), val])
    return None


def value_preserved(x, v):
    """x (converted) keeps the value of v, and gradient/variables/Hessian wherever both sides carry them."""
    vr = v if isinstance(v, Poly) else v.fields["real"]
    xr = x if isinstance(x, Poly) else (x.fields.get("real") if isinstance(x, Rec) else None)
    if not (isinstance(xr, Poly) and xr == vr):
        return False
    if isinstance(x, Rec) and isinstance(v, Rec):
        if not (x.fields["dual"] == v.fields["dual"] and cel.vkey(x.fields["vars"]) == cel.vkey(v.fields["vars"])):
            return False
        if "dual2" in x.fields:
            return x.fields["dual2"] == (v.fields["dual2"] if "dual2" in v.fields else Poly({}, 2))
    return True


def run(ck, facts, tier):
    hooks = {"@elem": elem_hook,
             "dual::get_variable_tags": lambda ev_, vals, e: Sym("tags", cel.vkey(vals[0]), cel.vkey(vals[1])),
             # the keys of a node map wrapped in its kind: as many as the wrapped map's entries (so `nodes.keys().len()` and `inner_map.len()` are one count)
             "NodesTimestamp::keys": lambda ev_, vals, e: Sym("m", "keys", cel.vkey(vals[0].tag[2]) if isinstance(vals[0], Sym) and vals[0].tag[:1] == ("ctor",) and len(vals[0].tag) == 3
                                                              else cel.vkey(vals[0]), ())}
    # ---------------- R12.1 / R12.2 on CurveDF::set_ad_order
    r1 = ck.rule("R12.1", "CurveDF::set_ad_order, all 9 (target order, stored kind) cases: every node keeps its key and its value; first<->second order switches keep "
                          "gradient and variable names (Hessian zero when raised, dropped when lowered); identity cases change nothing; result is Ok", floor=9)
    r2 = ck.rule("R12.2", "tag order: a float node raised to Dual/Dual2 gets exactly the tag vars[i], i = its enumerate index over the (sorted) node map, "
                          "vars = get_variable_tags(id, number of nodes) = id+'0', id+'1', ...; nodes_into_order sorts before it enumerates", floor=6)
    fn = "curves::curve::CurveDF::<T, U>::set_ad_order"
    r = facts.fn(fn)
    if r is None:
        ck.fail(r1, "set_ad_order", "function not found")
    else:
        where = "%s:%d" % (r["file"], r["line"])
        for order, tgt in ORDER_OF.items():
            for stored in VARIANTS:
                key = "set_ad_order(%s->%s)" % (stored, order)
                ev = cel.Ev(facts, hooks=hooks)
                m = Sym("map", stored)
                nodes0 = Sym("ctor", stored, m)
                me = Rec("curves::curve::CurveDF", {"nodes": nodes0, "id": Sym("id")})
                try:
                    res = ev.apply_fn(fn, [me, Sym("ctor", order)], 0)
                except Unsupported as e:
                    ck.fail(r1, key, "rule could not be established (%s)" % e, where)
                    continue
                okres = isinstance(res, Sym) and res.tag[:2] == ("ctor", "Ok")
                after = me.fields["nodes"]
                if stored == tgt:
                    ck.check(r1, key, okres and after is nodes0, "identity case rewrites the nodes or does not return Ok", where, sample="unchanged, Ok(())")
                    continue
                el0 = elem_hook(m)
                k0, v0 = el0.items
                ok = okres and isinstance(after, Sym) and after.tag[:2] == ("ctor", tgt) and len(after.tag) == 3 and isinstance(after.tag[2], Coll)
                why = "nodes are not rebuilt as NodesTimestamp::%s(collect(..)) with Ok: %s" % (tgt, cel.vfmt(after)[:200])
                seq = None
                if ok:
                    # recover the Seq from the evaluator by re-evaluating: the collect key embeds the seq key; compare against the expected element instead
                    want_src = cel.vkey(m)
                    ck_ = after.tag[2].seq.key()
                    ok = ck_[1] == want_src
                    why = "rebuilt nodes do not iterate the stored map"
                if ok:
                    elem_key, enumerated = ck_[2], ck_[3]
                    # build the expected element
                    if stored == "F64":
                        n = Poly.atom(("len", cel.vkey(m), None))
                        tags = Sym("tags", cel.vkey(Sym("id")), n.key())
                        tag_i = Poly.atom(("call", "index", (cel.vkey(tags), Poly.atom("i").key())))
                        newvars = Sym("collect", cel.vkey(Tup([tag_i])))
                        nn = Poly.atom(("len", newvars.key(), None)).key()
                        f = {"real": v0, "dual": Poly.tensor(("ones", (nn,)), 1), "vars": newvars}
                        if tgt == "Dual2":
                            f["dual2"] = Poly({}, 2)
                        want_elem = Tup([k0, Rec(D1 if tgt == "Dual" else D2, f)])
                        okk = elem_key == cel.vkey(want_elem) and enumerated
                        ck.check(r2, key, okk, "raised node is not (key, new(value, [vars[i]])) with i the enumerate index and vars = get_variable_tags(id, len(nodes))", where,
                                 detail="got  %s\n   want %s" % (str(elem_key)[:500], cel.vfmt(want_elem)[:500]), sample="(k, new(v, [tags(id, n)[i]]))")
                        ok = okk
                        why = "see R12.2"
                    else:
                        # value-preserving conversion of v0
                        evc = cel.Ev(facts)
                        conv = None
                        for rr in facts.all_fns():
                            if rr.get("trait_item") == "std::convert::From::from" and rr["file"].startswith("rust/dual/"):
                                src = rr["sig"][0].replace("&", "")
                                dst = rr.get("self_ty")
                                if src == {"Dual": D1, "Dual2": D2}[stored] and dst == {"F64": "f64", "Dual": D1, "Dual2": D2}[tgt]:
                                    try:
                                        cand = evc.apply_fn(rr["fn"], [v0], 0)
                                    except Unsupported:
                                        continue
                                    if cel.vkey(Tup([k0, cand])) == elem_key:
                                        conv = cand
                        ok = conv is not None and value_preserved(conv, v0)
                        why = "node values are not mapped through a value-preserving From conversion with keys unchanged: %s" % str(elem_key)[:300]
                ck.check(r1, key, ok, why, where, sample="(k, v) -> (k, %s-valued v), keys unchanged" % tgt)
    # get_variable_tags body: name + i over 0..range
    g = facts.fn("dual::get_variable_tags")
    okg, detg = False, None
    if g:
        # evaluated: [name + text(i) for i in 0..n] — `name.to_string() + &i.to_string()`, `format!("{name}{i}")`, a push loop or a map are one form
        try:
            NM, NN = Sym("param", "name"), Poly.atom("range")
            gv = cel.Ev(facts).apply_fn("dual::get_variable_tags", [NM, NN], 0)
            detg = cel.vfmt(gv)[:300]
            if isinstance(gv, Coll) and cel.vkey(gv.seq.src) == cel.vkey(Sym("range", Poly.const(0).key(), NN.key())):
                i_ = Poly.atom("i")
                okg = cel.vkey(gv.seq.fn(i_)) == cel.vkey(cel.concat_sym([cel.vkey(NM), cel.vkey(Sym("display", i_.key()))]))
        except Unsupported as e_:
            detg = "rule could not be established (%s)" % e_
    ck.check(r2, "get_variable_tags", okg, "get_variable_tags(name, n) is not [name + i for i in 0..n]", detail=detg, sample="(0..n).map(|i| name + i)")
    # nodes_into_order
    nio = "curves::curve_py::nodes_into_order"
    r = facts.fn(nio) or facts.fn("curves::curve_py::Curve::new_py")
    if r is None:
        ck.fail(r2, "nodes_into_order", "neither nodes_into_order nor Curve::new_py found")
    else:
        where = "%s:%d" % (r["file"], r["line"])
        if facts.fn(nio) is not None:
            P = cfgmod.Program(facts)
            c = P.cfgs[nio]
            sorts = [i for i, t in c.calls() if re.search(r"IndexMap.*::sort_keys$", c.callee_name(t) or "")]
            iters = [i for i, t in c.calls() if re.search(r"(into_iter|enumerate)$", c.callee_name(t) or "")]
            ck.check(r2, "nodes_into_order:sort-before-enumerate", bool(sorts) and bool(iters) and all(any(c.dominates(s, i) for s in sorts) for i in iters),
                     "nodes are enumerated before (or without) being sorted by date: tag i would not be the i-th node in date order", where,
                     sample="sort_keys dominates %d iterator constructions" % len(iters))
        else:
            ck.ok(r2, "nodes_into_order:sort-before-enumerate", sample="no helper of that name: the evaluated constructor must walk the sorted map (checked per order below)")
        for order, tgt in ORDER_OF.items():
            key = "nodes_into_order(->%s)" % order
            nodes = Sym("param", "nodes")
            sorted_nodes = Sym("mut", "sort_keys", cel.vkey(nodes), ())          # the map after `nodes.sort_keys()`: same entries, walked in date order
            n = Poly.atom(("len", cel.vkey(nodes), None))
            tags = Sym("tags", cel.vkey(Sym("id")), n.key())

            def elem_(cont):
                if cel.vkey(cont) in (cel.vkey(nodes), cel.vkey(sorted_nodes)):
                    return Tup([Poly.atom("k"), Sym("ctor", "F64", Poly.atom("v"))])
                if cel.vkey(cont) == cel.vkey(tags):
                    return lambda idx: Poly.atom(("call", "index", (cel.vkey(tags), idx.key())))      # walking the tag list reaches the same element as tags[i]
                return None
            ev = cel.Ev(facts, hooks={**hooks, "@elem": elem_})
            try:
                # judged on what the Python-facing constructor hands to CurveDF::try_new (the helper between them may take the id or the ready-made tags)
                cap = {}

                def cap_try_new(ev_, vals, e_, cap=cap):
                    cap["nodes"] = vals[0]
                    return Sym("ctor", "Ok", Sym("curve"))
                ev.hooks = dict(ev.hooks, **{"CurveDF::<T, U>::try_new": cap_try_new})
                ev.apply_fn("curves::curve_py::Curve::new_py", [nodes, Sym("param", "interpolator"), Sym("ctor", order), Sym("id"), Sym("param", "convention"),
                                                                 Sym("param", "modifier"), Sym("param", "calendar"), Sym("param", "index_base")], 0)
                res = cap.get("nodes")
                if res is None:
                    raise Unsupported("Curve::new_py does not reach CurveDF::try_new")
            except Unsupported as e:
                ck.fail(r2, key, "rule could not be established (%s)" % e, where)
                continue
            ok = isinstance(res, Sym) and res.tag[:2] == ("ctor", tgt) and isinstance(res.tag[2], Coll)
            if ok:
                sk = res.tag[2].seq.key()
                # the map that is walked is the map after `sort_keys()` (date order) — alone, or zipped with the tag list (i-th node with i-th tag)
                zipped = sk[0] == "seq" and sk[1] == cel.vkey(Sym("zip", cel.vkey(sorted_nodes), cel.vkey(tags)))
                ok = sk[0] == "seq" and (sk[1] == cel.vkey(sorted_nodes) or zipped)
                if ok and tgt != "F64":
                    tag_i = Poly.atom(("call", "index", (cel.vkey(tags), Poly.atom("i").key())))
                    newvars = Sym("collect", cel.vkey(Tup([tag_i])))
                    nn = Poly.atom(("len", newvars.key(), None)).key()
                    f = {"real": Poly.atom("v"), "dual": Poly.tensor(("ones", (nn,)), 1), "vars": newvars}
                    if tgt == "Dual2":
                        f["dual2"] = Poly({}, 2)
                    want = Tup([Poly.atom("k"), Rec(D1 if tgt == "Dual" else D2, f)])
                    ok = sk[2] == cel.vkey(want) and (sk[3] or zipped)
                elif ok:
                    ok = sk[2] == cel.vkey(Tup([Poly.atom("k"), Poly.atom("v")]))
            ck.check(r2, key, ok, "a float node supplied to the curve constructor is not tagged vars[i] by enumerate index (or its value/key changes): %s" % cel.vfmt(res)[:400], where,
                     sample="(k, new(v, [tags(id, n)[i]]))" if tgt != "F64" else "(k, v)")

    # ---------------- R12.3 index value
    r3 = ck.rule("R12.3", "index_value = F64(index_base) / interpolated_value(date); exactly 0 on the branch timestamp(date) < first key; no base -> Err", floor=2)
    iv = "curves::curve::CurveDF::<T, U>::index_value"
    r = facts.fn(iv)
    if r is None:
        ck.fail(r3, "index_value", "function not found")
    else:
        where = "%s:%d" % (r["file"], r["line"])
        hk = {"::timestamp": lambda ev_, vals, e: Poly.atom("x"), "NodesTimestamp::first_key": lambda ev_, vals, e: Poly.atom("first_key"),
              "CurveDF::<T, U>::interpolated_value": lambda ev_, vals, e: Sym("ctor", "F64", Poly.atom("cv"))}
        for base, key in ((Sym("ctor", "None"), "index_value[no base]"), (Sym("ctor", "Some", Poly.atom("ib")), "index_value[base]")):
            ev = cel.Ev(facts, hooks=hk)
            me = Rec("curves::curve::CurveDF", {"index_base": base, "nodes": Sym("nodes")})
            try:
                res = ev.apply_fn(iv, [me, Sym("param", "date")], 0)
            except Unsupported as e:
                ck.fail(r3, key, "rule could not be established (%s)" % e, where)
                continue
            if base.tag[1] == "None":
                ck.check(r3, key, isinstance(res, Sym) and res.tag[:2] == ("ctor", "Err"), "missing index base does not give Err: %s" % cel.vfmt(res)[:200], where, sample="Err(..)")
            else:
                want_c = paths.lit(cel.cmp_sym("Lt", Poly.atom("x"), Poly.atom("first_key"), True))      # i64 timestamps
                zero = cel.vkey(Sym("ctor", "Ok", Sym("ctor", "F64", Poly.const(0))))
                quot = cel.vkey(Sym("ctor", "Ok", Sym("ctor", "F64", Poly.atom("ib") * Poly.atom("cv").inv())))
                ok = paths.path_set(res) == {(frozenset([want_c]), zero), (frozenset([(want_c[0], not want_c[1])]), quot)}
                ck.check(r3, key, ok, "index value is not [date < first node] 0 | base / curve value: %s" % cel.vfmt(res)[:400], where, sample="x < first_key: 0 ; else ib / curve(date)")
    from rules import pywrap
    pywrap.run_curve_wrappers(ck, facts)
    from rules import deps
    deps.include_ad(ck, facts, tier)
    # "each looked-up value's gradient and Hessian": read per node tag through gradient1 / gradient2 (C17 R17.1/R17.2)
    from rules import c17
    nd17, tb17 = list(ck.not_decided), list(ck.trusted)
    c17.run(ck, facts, tier, only={"gradient1[Dual]", "gradient1[Dual2]", "gradient2[Dual2]"})
    ck.not_decided[:], ck.trusted[:] = nd17, tb17
    # "the i-th node in date order" presupposes that the stored nodes are in date order on every construction path: the sort is a must-pass-through (C11 R11.4)
    from rules import c11
    if not getattr(ck, "_c11_c12_nested", False):          # C11 includes R12.2 of this module in turn
        ck._c11_c12_nested = True
        try:
            nd_, tb_ = list(ck.not_decided), list(ck.trusted)
            with ck.restrict({"R11.4", "R11.7"}):          # R11.7: first_key() (the index-value guard) and keys() are the first / all keys for every kind
                c11.run(ck, facts, tier)
            ck.not_decided[:], ck.trusted[:] = nd_, tb_
        finally:
            ck._c11_c12_nested = False
    ck.not_decided += ["gradients/Hessians of looked-up values as numbers (they follow from R11.1 being generic over the number type + C01/C02)",
                       "which interval a date falls in (C11's undecided index_left)"]
    ck.trusted += ["lib/cel.py Seq model of iterator pipelines (into_iter/enumerate/map/collect)"]
