"""Shared by C04/C05/C08: symbolic vocabulary for the DateRoll trait (predicates and rolls kept as atoms) and expected-form builders."""
import cel
from cel import Poly, Sym, Alt, vkey

DR = "calendars::dateroll::DateRoll::"
S, D = Sym("param", "self"), Sym("param", "date")
PREDS = ["is_weekday", "is_holiday", "is_settlement", "is_bus_day", "is_non_bus_day"]
ROLLS = ["roll_forward_bus_day", "roll_backward_bus_day", "roll_mod_forward_bus_day", "roll_mod_backward_bus_day",
         "roll_forward_settled_bus_day", "roll_backward_settled_bus_day", "roll_forward_mod_settled_bus_day", "roll_backward_mod_settled_bus_day",
         "add_bus_days", "roll", "lag", "add_days", "add_months", "bus_date_range", "cal_date_range"]
DAYS1 = Sym("call", "chrono::Days::new", (Poly.const(1).key(),))


def P(name, *args):
    return Sym("pred", name, *[vkey(a) for a in args])


def R(name, *args):
    return Sym("roll", name, *[vkey(a) for a in args])


def OP(op, l, r):
    return Sym("op", op, vkey(l), vkey(r))


def NOT(x):
    return Sym("not", vkey(x))


def LV(k, numeric=False):
    return Poly.atom(("loopvar", k)) if numeric else Sym("loopvar", k)


def ITER(k, inits, cond, steps, numeric=False):
    tag = ("iterate", k, tuple(vkey(i) for i in inits), vkey(cond), tuple(vkey(s) for s in steps))
    return Poly.atom(tag) if numeric else Sym(*tag)


def hooks(exclude=()):
    h = {}
    for n in PREDS:
        if n not in exclude:
            h["DateRoll::" + n] = h["DateRoll>::" + n] = (lambda n: lambda ev, vals, e: P(n, *vals))(n)
    if "is_non_bus_day" not in exclude and "is_bus_day" not in exclude:
        # is_non_bus_day = !is_bus_day (checked by C06 R06.0): one vocabulary for both spellings
        h["DateRoll::is_non_bus_day"] = h["DateRoll>::is_non_bus_day"] = lambda ev, vals, e: NOT(P("is_bus_day", *vals))
    for n in ROLLS:
        if n not in exclude:
            h["DateRoll::" + n] = h["DateRoll>::" + n] = (lambda n: lambda ev, vals, e: R(n, *vals))(n)
    for n in ("roll_with_settlement", "roll_without_settlement", "get_roll", "get_imm", "get_roll_by_day"):
        if n not in exclude:
            h["calendars::dateroll::" + n] = (lambda n: lambda ev, vals, e: R(n, *vals))(n)
    return h
