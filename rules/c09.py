"""C09 — an FX market built from n-1 quotes is complete and arbitrage-free (partial correctness; liveness declined)."""
import re
import cel, paths, hir
from cel import Poly, Sym, Rec, Tup, Alt, Arr, Unsupported, vkey
from rules import gather

FX = "fx::rates::"
CUR, PAIRS, RATES = Sym("param", "currencies"), Sym("param", "fx_pairs"), Sym("param", "fx_rates")


def at(c, name="i0"):
    return Sym("at", vkey(c), Poly.atom(name).key())


def fld(x, *names):
    for n in names:
        x = Sym("field", vkey(x), n)
    return x


def idx_of(cur, ccy):
    return Sym("m", "unwrap", vkey(Sym("m", "get_index_of", vkey(cur), (vkey(ccy),))), ())


def writes_of(a):
    return {(tuple(vkey(i) for i in w["idx"]), tuple(w["guards"]), tuple(l[1] for l in w["loops"])): w["val"] for w in a.writes}


def init_builders(facts):
    """The functions that build the fill-in's starting arrays: local functions called directly by create_fx_array that return an Array2 or a tuple of them
    (today `create_initial_edges` and `create_initial_fx_array`; one merged builder, or differently named ones, are the same thing to the rules).
    -> [(name, parameter roles, kinds of the returned arrays)], role in {"cur", "pairs", "rates", None}, kind in {"edges", "rates"}"""
    r = facts.fn(FX + "create_fx_array")
    out = []
    if r is None:
        return out
    seen, visited = [], set()

    def scan(body, depth):
        for e in hir.walk(body):
            if e.get("k") == "call" and e["f"].get("k") == "path":
                d = e["f"].get("resolved") or e["f"].get("def") or ""
                rr = facts.fn(d)
                if rr is None or d in seen or d in visited or d == FX + "mut_arrays_remaining_elements" or not d.startswith(FX):
                    continue
                ret = rr.get("ret") or ""
                kinds = ["edges" if "i16" in part else "rates" for part in re.findall(r"ArrayBase<[^()]*?Dim<\[usize; 2\]>>", ret)]
                roles = []
                for t in rr.get("sig", []):
                    t_ = t.replace("&", "")
                    roles.append("cur" if "IndexSet<" in t_ and "Ccy" in t_ else "pairs" if "FXPair" in t_ else "rates" if t_.startswith("[") else None)
                calls_fill = any(x.get("k") == "call" and (x["f"].get("resolved") or x["f"].get("def") or "") == FX + "mut_arrays_remaining_elements" for x in hir.walk(rr["body"]))
                if kinds and "pairs" in roles and not calls_fill:
                    seen.append(d)
                    out.append((d, roles, kinds))
                elif depth < 3:
                    visited.add(d)
                    scan(rr["body"], depth + 1)          # a helper between create_fx_array and the builders (e.g. one generic solve step per number kind)
    scan(r["body"], 0)
    return out


def eval_builders(facts, hk, rates_elem=None):
    """{kind: Arr} — the starting arrays as built from (currencies, pairs, rates) symbolic parameters, whichever builder returns them."""
    got = {}
    for name, roles, kinds in init_builders(facts):
        args = [{"cur": CUR, "pairs": PAIRS, "rates": RATES}.get(role, Sym("param", "arg%d" % i)) for i, role in enumerate(roles)]
        v = cel.Ev(facts, hooks=hk).apply_fn(name, args, 0)
        live = [x for _, x in paths.flatten(cel.strip_early(v)) if not (isinstance(x, Sym) and x.tag[:1] == ("diverges",))]       # a leading assert may abort
        v = live[0] if len(live) == 1 else v
        vals = list(v.items) if isinstance(v, Tup) else [v]
        if len(vals) != len(kinds):
            raise Unsupported("builder %s does not return %d array(s)" % (name, len(kinds)))
        for kind, a in zip(kinds, vals):
            got[kind] = a
    return got


def run(ck, facts, tier):
    hk = {"@elem": gather.container_elem}
    # ---------------- R09.1 / R09.7 validation in try_new
    r1 = ck.rule("R09.1", "FXRates::try_new: empty, under-specified (n_ccy > n_quotes+1), over-specified (n_ccy < n_quotes+1) and inconsistent-settlement inputs each "
                          "return Err on their own path; create_fx_array is reached only when all of them are false; its error propagates; the stored currency "
                          "set is the base (if given) followed by both currencies of every quote", floor=6)
    r7 = ck.rule("R09.7", "the settlement guard is exactly: first quote has Some(d) -> every quote's settlement is Some(v) with v == d; first quote has None -> every "
                          "quote's settlement is None", floor=2)
    fn = FX + "FXRates::try_new"
    r = facts.fn(fn)
    where = "%s:%d" % (r["file"], r["line"]) if r else None
    hk1 = dict(hk, **{FX + "create_fx_array": lambda ev, vals, e: Sym("create_fx_array", *[vkey(v) for v in vals])})
    for base_name, base in (("no base", Sym("ctor", "None")), ("base", Sym("ctor", "Some", Sym("param", "base")))):
        try:
            got = cel.Ev(facts, hooks=hk1).apply_fn(fn, [RATES, base], 0)
        except Unsupported as e:
            ck.fail(r1, "try_new[%s]" % base_name, "rule could not be established (%s)" % e, where)
            continue
        n = Poly.atom(("len", vkey(RATES), None))
        cap = Sym("call", "indexmap::IndexSet::<T>::with_capacity", ((n + Poly.const(1)).key(),))
        cur0 = cap if base_name == "no base" else Sym("mut", "insert", vkey(cap), (vkey(Sym("param", "base")),))
        q0 = at(RATES)
        cur = Sym("mut", "insert", vkey(Sym("mut", "insert", vkey(cur0), (vkey(fld(q0, "pair", "0")),))), (vkey(fld(q0, "pair", "1")),))
        q = Poly.atom(("len", vkey(cur), None))
        empty = vkey(Sym("m", "is_empty", vkey(RATES), ()))
        under, under_p = paths.lit(cel.cmp_sym("Gt", q, n + Poly.const(1), True))
        over, over_p = paths.lit(cel.cmp_sym("Lt", q, n + Poly.const(1), True))
        first = fld(Sym("at", vkey(RATES), Poly.const(0).key()), "settlement")
        some_arm, none_arm = ("arm", ("Some", "_"), vkey(first)), ("arm", "None", vkey(first))
        dset = fld(at(RATES, "q0"), "settlement")
        date = Sym("payload", vkey(first), 0)
        g_some = ("arm", ("Some", "_"), vkey(dset))          # `d.settlement.map_or(false, |v| v == date)` = `match d.settlement { Some(v) => v == date, None => false }`
        all_some = vkey(Sym("forall", vkey(RATES), vkey(cel.Alt([(g_some, cel.eq_sym(Sym("payload", vkey(dset), 0), date)), (("not", g_some), Sym("bool", "false"))]))))
        all_none = vkey(Sym("forall", vkey(RATES), vkey(Sym("m", "is_none", vkey(dset), ()))))
        # the same guard written as Option equality: every quote's settlement == the first quote's settlement (Some(v) == Some(d) iff v == d; None == None; mixed unequal)
        all_eq = vkey(Sym("forall", vkey(RATES), vkey(cel.eq_sym(dset, first))))
        ps = paths.flatten(got)
        eq_form = any(all_eq in dict(c) for c, _ in ps) and not any(some_arm in dict(c) for c, _ in ps)
        errs = [(dict(c), v) for c, v in ps if isinstance(v, Sym) and v.tag[:2] == ("ctor", "Err")]
        oks = [(dict(c), v) for c, v in ps if isinstance(v, Sym) and v.tag[:2] == ("ctor", "Ok")]
        def has_err(pred):
            return any(pred(c) for c, _ in errs)
        ck.check(r1, "try_new[%s]:empty" % base_name, has_err(lambda c: c == {empty: True}), "an empty quote list is not rejected first", where, sample="fx_rates.is_empty() -> Err")
        ck.check(r1, "try_new[%s]:underspecified" % base_name, has_err(lambda c: c.get(under) is under_p and c.get(empty) is False),
                 "n_currencies > n_quotes + 1 is not rejected (currencies = base + both sides of every quote)", where, detail=paths.fmt_paths(got)[:600], sample="q > n + 1 -> Err")
        exact, exact_p = paths.lit(cel.cmp_sym("Eq", q, n + Poly.const(1), True))          # a three-way `match q.cmp(&(n + 1))` leaves `q == n + 1` on its Equal arm
        ck.check(r1, "try_new[%s]:overspecified" % base_name, has_err(lambda c: c.get(over) is over_p and c.get(under) is not under_p),
                 "n_currencies < n_quotes + 1 is not rejected", where, sample="q < n + 1 -> Err")
        want_fx = Sym("create_fx_array", vkey(cur), vkey(RATES), vkey(Sym("ctor", "One")))
        okok = len(oks) == (1 if eq_form else 2)
        for c, v in oks:
            okok = okok and c.get(empty) is False and ((c.get(under) is (not under_p) and c.get(over) is (not over_p)) or c.get(exact) is exact_p) and \
                ((c.get(some_arm) is True and c.get(all_some) is True) or (c.get(some_arm) is False and c.get(all_none) is True) or (eq_form and c.get(all_eq) is True))
            x = v.tag[2] if len(v.tag) == 3 else None
            okok = okok and isinstance(x, Rec) and vkey(x.fields.get("fx_rates")) == vkey(RATES) and vkey(x.fields.get("currencies")) == vkey(cur) and \
                vkey(x.fields.get("fx_array")) == vkey(want_fx)
        ck.check(r1, "try_new[%s]:ok-only-if-all-valid" % base_name, okok, "an Ok market is reachable without passing every validation, or does not store (quotes, currency set, "
                 "create_fx_array(currencies, quotes, One)?)", where, detail=paths.fmt_paths(got)[:900], sample="Ok{fx_rates, currencies, create_fx_array(&currencies, &fx_rates, One)?}")
        if base_name == "no base":
            s_err = [c for c, _ in errs if c.get(some_arm) is True]
            n_err = [c for c, _ in errs if c.get(some_arm) is False]
            if eq_form:
                e_err = [c for c, _ in errs if all_eq in c]
                okq = len(e_err) == 1 and e_err[0].get(all_eq) is False
                ck.check(r7, "settlement[first is Some]", okq, "guard is not: every quote's settlement equals the first quote's settlement", where, detail=str(e_err)[:500],
                         sample="any(|d| d.settlement != first.settlement) -> Err")
                ck.check(r7, "settlement[first is None]", okq, "guard is not: every quote's settlement equals the first quote's settlement", where, detail=str(e_err)[:500],
                         sample="any(|d| d.settlement != first.settlement) -> Err")
                continue
            ck.check(r7, "settlement[first is Some]", len(s_err) == 1 and s_err[0].get(all_some) is False, "guard is not: every quote's settlement equals the first quote's date",
                     where, detail=str(s_err)[:500], sample="!all(|d| d.settlement.map_or(false, |v| v == date)) -> Err")
            ck.check(r7, "settlement[first is None]", len(n_err) == 1 and n_err[0].get(all_none) is False, "guard is not: every quote's settlement is None", where,
                     detail=str(n_err)[:500], sample="!all(|d| d.settlement.map_or(true, |_| false)) -> Err")

    # ---------------- R09.2 / R09.4 initial arrays
    r2 = ck.rule("R09.2", "chain typing of every write to the rate matrix: a quote at [idx(pair.0), idx(pair.1)]; 1/M[p,q] at [q,p]; M[p,n]*M[n,q] at [p,q] (inner indices "
                          "equal, outer indices equal to the target) — so every populated entry is a product of quotes along a path with inverses on reversed edges", floor=4)
    r4 = ck.rule("R09.4", "pairing: each matrix write pair is accompanied by the edge-matrix writes with the same indices (value 1); both start from the identity", floor=2)
    row, col = idx_of(CUR, fld(at(PAIRS), "0")), idx_of(CUR, fld(at(PAIRS), "1"))
    zk = vkey(Sym("zip", vkey(PAIRS), vkey(RATES)))
    unzip = lambda w_: {(k[0], k[1], tuple(vkey(PAIRS) if l == zk else l for l in k[2])): v for k, v in w_.items()}
    built = {}
    try:
        # walking the quote list itself (`zip(fx_rates)`) reaches the same element as `fx_rates[i]`
        hk2 = dict(hk, **{"@elem": lambda cont: (lambda idx: Poly.atom(("call", "index", (vkey(RATES), idx.key())))) if vkey(cont) == vkey(RATES) else hk["@elem"](cont)})
        built = eval_builders(facts, hk2)
        if not (isinstance(built.get("edges"), Arr) and isinstance(built.get("rates"), Arr)):
            built = {}
    except Unsupported as e:
        built = {}
    whole = False
    if not built:
        # no function could be addressed by role (e.g. the index look-up was hoisted out and the builders take positions): judge the two arrays that
        # create_fx_array hands to the fill-in, whatever built them. Quote i's pair is the pair of stored quote i, its rate the converted lifted quote i.
        try:
            QUOTES = Sym("param", "quotes")
            capt = {}

            def cap_fill(ev, vals, e):
                capt["M"], capt["E"] = vals[0], vals[1]
                return Sym("ctor", "Ok", Sym("bool", "true"))
            rate_atom = lambda v: Poly.atom(("quote-rate", vkey(v)))
            hkw = dict(hk, **{FX + "mut_arrays_remaining_elements": cap_fill,
                              "dual_ops::convert::set_order_clone": lambda ev, vals, e: Sym("lifted", vkey(vals[0])),
                              "impl std::convert::From<&dual::enums::Number> for dual::dual::Dual>::from": lambda ev, vals, e: rate_atom(vals[0])})
            cel.Ev(facts, hooks=hkw).apply_fn(FX + "create_fx_array", [CUR, QUOTES, Sym("ctor", "One")], 0)
            if isinstance(capt.get("M"), Arr) and isinstance(capt.get("E"), Arr):
                qi = at(QUOTES)
                subst = [(("quote-rate", vkey(Sym("lifted", vkey(fld(qi, "rate"))))), ("call", "index", (vkey(RATES), Poly.atom("i0").key()))),
                         (vkey(fld(qi, "pair")), vkey(at(PAIRS))), (vkey(QUOTES), vkey(PAIRS))]

                def renamed(a):
                    out = Arr(a.dims, a.base)
                    for w_ in a.writes:
                        def rk(k):
                            for old_, new_ in subst:
                                k = cel.key_subst(k, old_, new_)
                            return k
                        out.writes.append({"idx": [cel.KeyVal(rk(vkey(i_))) for i_ in w_["idx"]], "guards": tuple(rk(g_) for g_ in w_["guards"]),
                                           "loops": tuple((l_[0], rk(l_[1])) for l_ in w_["loops"]), "val": cel.KeyVal(rk(vkey(w_["val"]))), "seq": w_.get("seq", 0)})
                    return out
                built = {"edges": renamed(capt["E"]), "rates": renamed(capt["M"])}
                whole = True
        except Unsupported as e:
            ck.fail(r4, "create_initial_edges", "rule could not be established (%s)" % e)
    try:
        e0 = built.get("edges")
        w = unzip(writes_of(e0)) if isinstance(e0, Arr) else {}
        one = Poly.const(1)
        want = {((vkey(row), vkey(col)), (), (vkey(PAIRS),)): one, ((vkey(col), vkey(row)), (), (vkey(PAIRS),)): one}
        ck.check(r4, "create_initial_edges", isinstance(e0, Arr) and vkey(e0.base) == vkey(Sym("eye")) and {k: vkey(v) for k, v in w.items()} == {k: vkey(v) for k, v in want.items()},
                 "initial edges are not identity + 1 at [idx(pair.0), idx(pair.1)] and its mirror for every quoted pair", detail=cel.vfmt(e0)[:600], sample="eye; E[r,c] = E[c,r] = 1")
    except Unsupported as e:
        ck.fail(r4, "create_initial_edges", "rule could not be established (%s)" % e)
    try:
        m0 = built.get("rates")
        # enumerate() + index or zip(): i0 indexes both the pair list and the quote list (their lengths are equal, asserted on entry or by the caller's construction)
        w = unzip(writes_of(m0)) if isinstance(m0, Arr) else {}
        rate_i = Poly.atom(("call", "index", (vkey(RATES), Poly.atom("i0").key())))
        want = {((vkey(row), vkey(col)), (), (vkey(PAIRS),)): rate_i, ((vkey(col), vkey(row)), (), (vkey(PAIRS),)): rate_i.inv()}
        ck.check(r2, "create_initial_fx_array", isinstance(m0, Arr) and vkey(m0.base) == vkey(Sym("eye")) and {k: vkey(v) for k, v in w.items()} == {k: vkey(v) for k, v in want.items()},
                 "initial matrix is not identity + quote i at [idx(pair_i.0), idx(pair_i.1)] and its reciprocal at the mirrored index", detail=cel.vfmt(m0)[:700],
                 sample="eye; M[r,c] = rate[i]; M[c,r] = 1/rate[i]")
    except Unsupported as e:
        ck.fail(r2, "create_initial_fx_array", "rule could not be established (%s)" % e)

    # ---------------- fill-in
    r3 = ck.rule("R09.3", "no overwrite: crosses are written only for index pairs whose edge entry is 0 (the combinations are filtered on edges[[i,j]] == 0), candidates are "
                          "neighbours of the sampled node (edge == 1, not the node itself)", floor=2)
    r5 = ck.rule("R09.5", "success only if complete: Ok(true) is returned only under edges.sum() == n*n; a sampled node of None gives Err; otherwise the result is that of "
                          "the recursive call; create_fx_array propagates the error and wraps the filled matrix of its own order", floor=5)
    M = Arr([Poly.atom("n"), Poly.atom("n")], Sym("M"), "M")
    E = Arr([Poly.atom("n"), Poly.atom("n")], Sym("E"), "E")
    rec_calls = []

    def rec(ev, vals, e):
        rec_calls.append(vals)
        return Sym("recurse")
    fn = FX + "mut_arrays_remaining_elements"
    r = facts.fn(fn)
    where = "%s:%d" % (r["file"], r["line"]) if r else None
    try:
        got = cel.Ev(facts, hooks=dict(hk, **{fn: rec})).apply_fn(fn, [M, E, Sym("param", "prev")], 0)
        ps = [(dict(c), v) for c, v in paths.flatten(got)]
        ax = lambda k: vkey(Sym("ctor", "Axis", Poly.const(k)))
        nn = Sym("op", "Mul", vkey(Sym("m", "len_of", E.ident(), (ax(0),))), vkey(Sym("m", "len_of", E.ident(), (ax(1),))))
        done = vkey(cel.eq_sym(Sym("m", "sum", E.ident(), ()), nn))
        oktrue = [(c, v) for c, v in ps if vkey(v) == vkey(Sym("ctor", "Ok", Sym("bool", "true")))]
        ck.check(r5, "Ok(true)-only-if-complete", len(oktrue) == 1 and oktrue[0][0] == {done: True}, "Ok(true) is reachable without edges.sum() == n*n", where,
                 detail=paths.fmt_paths(got)[:500], sample="[edges.sum() == rows*cols] -> Ok(true)")
        others = [(c, v) for c, v in ps if c.get(done) is False]
        ck.check(r5, "otherwise-Err-or-recurse", bool(others) and all((isinstance(v, Sym) and (v.tag[:2] == ("ctor", "Err") or v.tag == ("recurse",))) for _, v in others),
                 "an incomplete matrix can be reported as solved", where, detail=paths.fmt_paths(got)[:500], sample="Err(degenerate) | recursive call")
        ck.check(r5, "no-node-left->Err", any(isinstance(v, Sym) and v.tag[:2] == ("ctor", "Err") and any(isinstance(a, tuple) and a[:2] == ("arm", ("Some", "_")) and p is False for a, p in c.items())
                                               for c, v in others), "exhausting the candidate nodes does not give Err (cyclic / disconnected quote sets would loop or succeed)", where, sample="sampled_node None -> Err")
        # writes recorded on the arrays passed to the recursive call
        okw = bool(rec_calls)
        for vals in rec_calls:
            m_, e_ = vals[0], vals[1]
            okw = okw and isinstance(m_, Arr) and isinstance(e_, Arr)
            if not okw:
                break
            mw, ew = m_.writes, e_.writes
            okw = len(mw) == 2 and len(ew) == 2
            if not okw:
                break
            c0, c1 = mw[0]["idx"]
            src = mw[0]["loops"][0][1] if mw[0]["loops"] else None
            node = None
            v0 = mw[0]["val"]
            # M[c0,c1] = M[c0,node] * M[node,c1]
            elems = [a for (mono, t), cf in v0.t.items() for a, ex in mono] if isinstance(v0, Poly) and len(v0.t) == 1 else []
            ok_chain = len(elems) == 2 and all(isinstance(a, tuple) and a[0] == "elem" and a[1] == M.ident() for a in elems)
            if ok_chain:
                (ia, ib) = (elems[0][2], elems[1][2])
                cand = [(ia, ib), (ib, ia)]
                ok_chain = any(x[0] == vkey(c0) and y[1] == vkey(c1) and x[1] == y[0] for x, y in cand)
                node = next((x[1] for x, y in cand if x[0] == vkey(c0) and y[1] == vkey(c1) and x[1] == y[0]), None)
            ck.check(r2, "fill-in:cross", ok_chain, "the cross written at [p,q] is not M[p,n]*M[n,q] with one shared inner index", where, detail=cel.vfmt(v0)[:400], sample="M[c0,c1] = M[c0,node]*M[node,c1]")
            ok_inv = [vkey(i) for i in mw[1]["idx"]] == [vkey(c1), vkey(c0)] and isinstance(mw[1]["val"], Poly) and isinstance(v0, Poly) and mw[1]["val"] == v0.inv()
            ck.check(r2, "fill-in:inverse", ok_inv, "the mirrored entry [q,p] is not the reciprocal of the cross just written at [p,q]", where, detail=cel.vfmt(mw[1]["val"])[:300], sample="M[c1,c0] = 1/M[c0,c1]")
            ok_pair = [[vkey(i) for i in w_["idx"]] for w_ in ew] == [[vkey(c0), vkey(c1)], [vkey(c1), vkey(c0)]] and all(vkey(w_["val"]) == vkey(Poly.const(1)) for w_ in ew) and \
                all(w_["loops"] == mw[0]["loops"] for w_ in ew)
            ck.check(r4, "fill-in:edges-paired", ok_pair, "edge entries are not set to 1 at exactly the indices of the matrix writes", where, sample="E[c0,c1] = E[c1,c0] = 1 next to the matrix writes")
            # the loop source: filter(... combinations(2) ..., edges[[v0,v1]] == 0)
            ok_f = isinstance(src, tuple) and src[:2] == ("sym", "filter")
            if ok_f:
                pred = src[3]
                f_el = Sym("at", src[2], Poly.atom("f").key())
                i0_, i1_ = Poly.atom(("call", "index", (vkey(f_el), Poly.const(0).key()))), Poly.atom(("call", "index", (vkey(f_el), Poly.const(1).key())))
                want_pred = cel.cmp_sym("Eq", Poly.atom(("elem", E.ident(), (i0_.key(), i1_.key()))), Poly.const(0))
                ok_f = pred == vkey(want_pred) and "combinations" in repr(src[2])
                # c0, c1 are c[0], c[1] of the loop element
                cel_ = Sym("at", src, Poly.atom("i0").key())
                ok_f = ok_f and vkey(c0) == Poly.atom(("call", "index", (vkey(cel_), Poly.const(0).key()))).key() and vkey(c1) == Poly.atom(("call", "index", (vkey(cel_), Poly.const(1).key()))).key()
            ck.check(r3, "fill-in:only-empty-cells", ok_f, "crosses are not restricted to index pairs whose edge entry is 0 (a quoted or already derived pair could be overwritten)", where,
                     detail=repr(src)[:500], sample="combinations(2).filter(|v| edges[[v[0], v[1]]] == 0)")
            nb = repr(src)
            ck.check(r3, "fill-in:neighbours-of-node", "'row'" in nb and node is not None and repr(node) in nb, "candidate pairs are not drawn from the neighbours of the sampled node", where, sample="edges.row(node) ... == 1 && i != node")
            break
        ck.check(r2, "fill-in:writes-found", okw, "could not find exactly two matrix writes and two edge writes per combination", where, sample="2 + 2 writes per combination")
    except Unsupported as e:
        ck.fail(r5, "mut_arrays_remaining_elements", "rule could not be established (%s)" % e, where)
    # create_fx_array per order
    fn = FX + "create_fx_array"
    r = facts.fn(fn)
    where = "%s:%d" % (r["file"], r["line"]) if r else None
    FILL_OK = ("if", vkey(Sym("fill-succeeds")))
    for order, variant in (("Zero", "F64"), ("One", "Dual"), ("Two", "Dual2")):
        fresh = {"edges": lambda: Arr([Poly.atom("n")] * 2, Sym("E0"), "E0"), "rates": lambda: Arr([Poly.atom("n")] * 2, Sym("M0"), "M0")}
        bh = {}
        for bname, _roles, kinds in init_builders(facts):
            bh[bname] = (lambda ev, vals, e, kinds=kinds: (fresh[kinds[0]]() if len(kinds) == 1 else Tup([fresh[k_]() for k_ in kinds])))
        hk5 = dict(hk, **bh)
        handed = {}

        def fill_hook(ev, vals, e, handed=handed):
            handed["M"] = vals[0]
            return cel.Alt([(FILL_OK, Sym("ctor", "Ok", Sym("bool", "true"))), (("not", FILL_OK), Sym("ctor", "Err", Sym("fill-error")))])
        conv5 = lambda ev, vals, e: Poly.atom(("conv", vkey(vals[0])))
        hk5.update({"impl std::convert::From<&dual::enums::Number> for f64>::from": conv5, "impl std::convert::From<&dual::enums::Number> for dual::dual::Dual>::from": conv5,
                    "impl std::convert::From<&dual::enums::Number> for dual::dual::Dual2>::from": conv5})
        hk5.update({FX + "mut_arrays_remaining_elements": fill_hook,
                          "dual_ops::convert::set_order_clone": lambda ev, vals, e: Sym("lifted", *[vkey(v) for v in vals])})
        try:
            got = cel.Ev(facts, hooks=hk5).apply_fn(fn, [CUR, RATES, Sym("ctor", order)], 0)
            # the fill-in is modelled as succeeding or failing: its failure must surface as this function's Err, its success as Ok(variant(the matrix it filled)) —
            # whether the `?` sits here or in a helper
            by = {}
            for c, v in paths.flatten(cel.strip_early(got)):
                by[dict(c).get(FILL_OK[1])] = v
            g_ok, g_err = by.get(True), by.get(False)
            ok = isinstance(g_ok, Sym) and g_ok.tag[:2] == ("ctor", "Ok") and isinstance(g_ok.tag[2], Sym) and g_ok.tag[2].tag[:2] == ("ctor", variant) and \
                isinstance(g_ok.tag[2].tag[2], Arr) and (g_ok.tag[2].tag[2].name == "M0" or g_ok.tag[2].tag[2] is handed.get("M"))
            ok = ok and isinstance(g_err, Sym) and g_err.tag[:2] == ("ctor", "Err") and "fill-error" in repr(vkey(g_err)) and len(by) == 2
            ck.check(r5, "create_fx_array[%s]" % order, ok, "create_fx_array(%s) does not return Ok(NumberArray2::%s(filled matrix)) with the fill-in's error propagated by ?"
                     % (order, variant), where, detail=cel.vfmt(got)[:300], sample="mut_arrays_remaining_elements(..)?; Ok(%s(matrix))" % variant)
        except Unsupported as e:
            ck.fail(r5, "create_fx_array[%s]" % order, "rule could not be established (%s)" % e, where)

    # ---------------- R09.8 capacity of the completion counter
    r8 = ck.rule("R09.8", "the completion test sums the 0/1 edge matrix in its element type and compares it with n*n cast to that type: the type must represent n*n "
                          "for every market a user can build — at least the ~180 currencies of ISO 4217 (i16 reaches n = 181; a narrower type silently caps the market size)", floor=1)
    rr = facts.fn(FX + "mut_arrays_remaining_elements")
    ety = None
    if rr is not None:
        for t in rr.get("sig", []):
            m_ = re.search(r"&mut ([iu](?:8|16|32|64|128|size))>", t)
            if m_ and "Dim<[usize; 2]>" in t and not re.search(r"&mut (f64|T)>", t):
                ety = m_.group(1)
    bits = {"i8": 7, "u8": 8, "i16": 15, "u16": 16, "i32": 31, "u32": 32, "i64": 63, "u64": 64, "isize": 63, "usize": 64, "i128": 127, "u128": 128}
    cap = int(((1 << bits[ety]) - 1) ** 0.5) if ety in bits else 0
    ck.check(r8, "edge-count-capacity", cap >= 180, "the edge matrix is summed in `%s`: n*n overflows from n = %d currencies on (the completion test aborts or never holds)" % (ety, cap + 1),
             "%s:%d" % (rr["file"], rr["line"]) if rr else None, sample="element type %s holds n*n up to n = %d" % (ety, cap))

    # ---------------- R09.6 lookup
    r6 = ck.rule("R09.6", "rate(lhs, rhs) reads [index_of(lhs), index_of(rhs)] of the matrix in all three variants (None if a currency is unknown)", floor=3)
    fn = FX + "FXRates::rate"
    r = facts.fn(fn)
    where = "%s:%d" % (r["file"], r["line"]) if r else None
    L, Rr = Sym("param", "lhs"), Sym("param", "rhs")
    for variant in ("F64", "Dual", "Dual2"):
        arr = Sym("matrix")
        me = Rec("fx::rates::FXRates", {"currencies": CUR, "fx_array": Sym("ctor", variant, arr)})
        try:
            got = cel.Ev(facts, hooks=hk).apply_fn(fn, [me, L, Rr], 0)
            ia, ib = Sym("m", "get_index_of", vkey(CUR), (vkey(L),)), Sym("m", "get_index_of", vkey(CUR), (vkey(Rr),))
            want = Sym("ctor", "Some", Sym("ctor", variant, Poly.atom(("call", "index", (vkey(arr), vkey(Tup([ia, ib])))))))
            okr = vkey(got) == vkey(want)
            if not okr and isinstance(got, cel.Alt):
                # the same look-up written as a match on the two optional positions: one Some path under "both currencies known", None otherwise; a position read
                # through a pattern is `payload(opt)` where `opt?` reads `opt`
                ps_ = paths.flatten(got)
                somes = [(c, v) for c, v in ps_ if not (isinstance(v, Sym) and v.tag[:2] == ("ctor", "None"))]
                def unpay(k):
                    if isinstance(k, tuple):
                        if len(k) == 4 and k[:2] == ("sym", "payload") and k[3] == 0 and k[2] in (vkey(ia), vkey(ib)):
                            return k[2]
                        return tuple(unpay(x) for x in k)
                    return k
                lookups = (repr(vkey(ia)), repr(vkey(ib)))
                okr = len(somes) == 1 and unpay(vkey(somes[0][1])) == vkey(want) and all(p_ and any(l_ in repr(a_) for l_ in lookups) for a_, p_ in somes[0][0])
            ck.check(r6, "rate[%s]" % variant, okr, "rate does not read [idx(lhs), idx(rhs)] of the %s matrix" % variant, where, detail=cel.vfmt(got)[:300],
                     sample="Some(%s(arr[[idx(lhs), idx(rhs)]]))" % variant)
        except Unsupported as e:
            ck.fail(r6, "rate[%s]" % variant, "rule could not be established (%s)" % e, where)
    # ---------------- R09.9 a quote is stored as given
    r9 = ck.rule("R09.9", "FXRate::try_new stores pair = FXPair::try_new(lhs, rhs)? with rate and settlement as given (the quote the market is built from is the quote "
                          "the caller wrote); Python's FXRate(...) is that constructor with its arguments as given", floor=2)
    fq = facts.fn("fx::rates::fxrate::FXRate::try_new")
    if fq is None:
        ck.fail(r9, "FXRate::try_new", "constructor not found")
    else:
        names = [p_.get("name") for p_ in fq["params"]]
        try:
            got = cel.strip_early(cel.Ev(facts, hooks={"fx::rates::fxpair::FXPair::try_new": lambda ev, vals, e: Sym("pair", *[vkey(v) for v in vals])}).apply_fn(fq["fn"], [Sym("param", n_) for n_ in names], 0))
            x = got.tag[2] if isinstance(got, Sym) and got.tag[:2] == ("ctor", "Ok") and len(got.tag) == 3 else None
            ok = isinstance(x, Rec) and vkey(x.fields.get("pair")) == vkey(Sym("pair", vkey(Sym("param", "lhs")), vkey(Sym("param", "rhs")))) and \
                vkey(x.fields.get("rate")) == vkey(Sym("param", "rate")) and vkey(x.fields.get("settlement")) == vkey(Sym("param", "settlement"))
            ck.check(r9, "FXRate::try_new", ok, "the quote is not stored as given: %s" % cel.vfmt(got)[:300], "%s:%d" % (fq["file"], fq["line"]), sample="FXRate{pair: FXPair::try_new(lhs, rhs)?, rate, settlement}")
        except Unsupported as e:
            ck.fail(r9, "FXRate::try_new", "rule could not be established (%s)" % e, "%s:%d" % (fq["file"], fq["line"]))
    fw = facts.fn("fx::rates_py::<impl fx::rates::fxrate::FXRate>::new_py")
    if fw is None:
        ck.fail(r9, "FXRate::new_py", "wrapper not found")
    else:
        names = [p_.get("name") for p_ in fw["params"]]
        try:
            got = cel.strip_early(cel.Ev(facts, hooks={"fx::rates::fxrate::FXRate::try_new": lambda ev, vals, e: Sym("quote", *[vkey(v) for v in vals])}).apply_fn(fw["fn"], [Sym("param", n_) for n_ in names], 0))
            ck.check(r9, "FXRate::new_py", vkey(got) == vkey(Sym("quote", *[vkey(Sym("param", n_)) for n_ in names])), "FXRate(...) is not FXRate::try_new with its arguments as given: %s" % cel.vfmt(got)[:300],
                     "%s:%d" % (fw["file"], fw["line"]), sample="FXRate::try_new(lhs, rhs, rate, settlement)")
        except Unsupported as e:
            ck.fail(r9, "FXRate::new_py", "rule could not be established (%s)" % e, "%s:%d" % (fw["file"], fw["line"]))
    # ---------------- R09.10 identity of currencies and pairs
    r10_ = ck.rule("R09.10", "a currency is its (interned) name and a pair is its ordered (lhs, rhs): `==` and the hash of Ccy and FXPair are the derived, field-by-field ones — "
                             "eurusd and usdeur are different pairs (every guard, slot search and variable name above compares with them)", floor=4)
    for ty in ("fx::rates::ccy::Ccy", "fx::rates::fxpair::FXPair"):
        for ti, mac in (("std::cmp::PartialEq::eq", "PartialEq"), ("std::hash::Hash::hash", "Hash")):
            rs = [rr for rr in facts.all_fns() if rr.get("trait_item") == ti and rr.get("self_ty") == ty]
            key = "%s:%s" % (ty.rsplit("::", 1)[-1], mac)
            okd = len(rs) == 1 and mac in (rs[0].get("mac") or [])
            if not okd and len(rs) == 1 and mac == "PartialEq":
                # a hand-written `==` is accepted when it evaluates to the field-by-field conjunction, fields paired in place
                try:
                    flds_ = [f_["name"] for f_ in facts.adts[ty]["variants"][0]["fields"]]
                    a_ = Rec(ty, {n_: Sym("l", n_) for n_ in flds_}) if not all(n_.isdigit() for n_ in flds_) else Sym("ctor", ty.rsplit("::", 1)[-1], *[Sym("l", n_) for n_ in flds_])
                    b_ = Rec(ty, {n_: Sym("r", n_) for n_ in flds_}) if not all(n_.isdigit() for n_ in flds_) else Sym("ctor", ty.rsplit("::", 1)[-1], *[Sym("r", n_) for n_ in flds_])
                    gv = cel.Ev(facts).apply_fn(rs[0]["fn"], [a_, b_], 0)
                    conj = set()
                    def split_and(k):
                        if isinstance(k, tuple) and k[:2] == ("sym", "and"):
                            for x_ in k[2:]:
                                split_and(x_)
                        else:
                            conj.add(k)
                    split_and(vkey(gv))
                    okd = conj == {vkey(cel.eq_sym(Sym("l", n_), Sym("r", n_))) for n_ in flds_}
                except (Unsupported, KeyError, IndexError):
                    okd = False
            ck.check(r10_, key, okd, "%s of %s is not the derived structural one (hand-written or missing)" % (mac, ty.rsplit("::", 1)[-1]),
                     "%s:%d" % (rs[0]["file"], rs[0]["line"]) if rs else None, sample="#[derive(%s)]" % mac)
    # "rejected ... and never yield rates", "returned exactly as quoted" also after updates and derivative-order switches: the market's state rules (C10 R10.3-R10.6)
    # "invalid quote sets are rejected and never yield rates" also when they arrive as a stored market: the loader goes through try_new (C20 S20.2)
    from rules import c20
    c20.loader_rule(ck, facts, only={"fx::rates::FXRates", "fx::rates::ccy::Ccy", "fx::rates::fxpair::FXPair"})
    # ... and a stored market's quotes come back exactly: the float text round trip of the JSON layer is exact (C16 S16.1)
    from rules import c16
    nd16, tb16 = list(ck.not_decided), list(ck.trusted)
    with ck.restrict({"S16.1"}):
        c16.run(ck, facts, tier)
    ck.not_decided[:], ck.trusted[:] = nd16, tb16
    from rules import c10
    nd, tb = list(ck.not_decided), list(ck.trusted)
    c10.run(ck, facts, tier, only={"R10.3", "R10.4", "R10.5", "R10.6"})
    ck.not_decided[:], ck.trusted[:] = nd, tb
    # "every cross rate is available" for quotes that are themselves Dual / Dual2 with nested variable sets: a cross is a product / quotient of quotes, so the
    # alignment discipline of the operators (C03 R03.1/R03.3/R03.5) is a necessary condition — a widened same-variables fast path aborts the fill-in at order two
    from rules import c03
    nd3, tb3 = list(ck.not_decided), list(ck.trusted)
    with ck.restrict({"R03.1", "R03.3", "R03.5"}):
        c03.run(ck, facts, tier)
    ck.not_decided[:], ck.trusted[:] = nd3, tb3
    from rules import pywrap
    pywrap.run_fx_wrappers(ck, facts)          # what a Python user calls is the wrapper: it must hand its arguments to the core method unchanged
    ck.not_decided += ["that every valid tree of quotes is accepted (the node-selection heuristic with the visited set — liveness/termination of the recursive fill-in)",
                       "order/base independence as executed (it follows from uniqueness of tree paths given R09.2/R09.5 when the fill-in succeeds)",
                       "floating-point rounding of rate * inverse", "a loop body is evaluated once symbolically (generic iteration); loop-carried numeric effects are not modelled"]
    ck.trusted += ["lib/cel.py array-comprehension semantics with read-through", "itertools::combinations / ndarray row/sum semantics (opaque)"]
