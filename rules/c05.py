"""C05 — business-day arithmetic counts exactly the business days it says it does (structure of the counting loops, sign coherence)."""
import cel, paths
from cel import Poly, Sym, Alt, Unsupported, vkey
from rules.dates_common import *

DAYS = Poly.atom("days")
ST = Sym("param", "settlement")
LT0 = cel.cmp_sym("Lt", DAYS, Poly.const(0), True)          # days < 0 (i8)


ACC = Sym("acc")


def counted(direction, count=None):
    """The date after |days| next-business-day steps: repeat(count; date; acc -> roll_dir(acc +/- 1 day)). `lib/cel.py` gives this one form to a counted
    while loop (c from 0, c </> days, c +/- 1) and to `(0..n).fold(date, |acc, _| ..)`. On the days < 0 path the count may be spelt -days or |days|, on the
    other path days or |days| (the path condition fixes the sign)."""
    if direction == "back":
        step = R("roll_backward_bus_day", S, OP("Sub", ACC, DAYS1))
        count = -DAYS if count is None else count
    else:
        step = R("roll_forward_bus_day", S, OP("Add", ACC, DAYS1))
        count = DAYS if count is None else count
    return Sym("repeat", count.key(), vkey(D), vkey(step))


def counted_all(direction):
    return [counted(direction), counted(direction, cel.func_atom("abs", DAYS))]


def run(ck, facts, tier):
    def ev_fn(name, args):
        return cel.Ev(facts, hooks=hooks(exclude=(name,))).apply_fn(DR + name, args, 0)

    def where(name):
        r = facts.fn(DR + name)
        return "%s:%d" % (r["file"], r["line"]) if r else None

    r1 = ck.rule("R05.1", "add_bus_days / bus_date_range: a non-business start (or end) gives Err on its own path; every Ok path is under its negation", floor=2)
    r2 = ck.rule("R05.2", "counted steps: counter from 0, one next-business-day step (roll_dir(x +/- 1 day)) and counter +/- 1 per iteration, guard counter </> days: "
                          "exactly |n| steps", floor=2)
    r3 = ck.rule("R05.3", "sign coherence: under days < 0 only backward primitives are used (count and settlement roll), otherwise only forward ones (n = 0 is forward); "
                          "without settlement the counted date is returned as is", floor=4)
    try:
        got = ev_fn("add_bus_days", [S, D, DAYS, ST])
        ps = paths.flatten(got)
        nb = (vkey(P("is_non_bus_day", S, D)), True)
        nb_alt = (vkey(P("is_bus_day", S, D)), False)
        errs = [(c, v) for c, v in ps if isinstance(v, Sym) and v.tag[:2] == ("ctor", "Err")]
        oks = [(c, v) for c, v in ps if isinstance(v, Sym) and v.tag[:2] == ("ctor", "Ok")]
        ck.check(r1, "add_bus_days", len(errs) == 1 and (errs[0][0] == frozenset([nb]) or errs[0][0] == frozenset([nb_alt])) and len(oks) == len(ps) - 1 and
                 all(((nb[0], False) in c) or ((nb_alt[0], True) in c) for c, _ in oks),
                 "add_bus_days does not reject a non-business start before doing anything else", where("add_bus_days"), detail=paths.fmt_paths(got)[:600],
                 sample="[is_non_bus_day(date)] -> Err ; all Ok paths under its negation")
        backs, fwds = counted_all("back"), counted_all("fwd")
        want = {(True, False): [Sym("ctor", "Ok", b) for b in backs], (True, True): [Sym("ctor", "Ok", R("roll_backward_settled_bus_day", S, b)) for b in backs],
                (False, False): [Sym("ctor", "Ok", f) for f in fwds], (False, True): [Sym("ctor", "Ok", R("roll_forward_settled_bus_day", S, f)) for f in fwds]}
        seen = {}
        for c, v in oks:
            dc = dict(c)
            neg, stl = dc.get(vkey(LT0)), dc.get(vkey(ST))
            seen[(neg, stl)] = v
        for (neg, stl), w in want.items():
            v = seen.get((neg, stl))
            key = "add_bus_days[%s,%s]" % ("n<0" if neg else "n>=0", "settle" if stl else "no settle")
            if v is None:
                ck.fail(r3, key, "no path for this (sign, settlement) case: %s" % paths.fmt_paths(got)[:400], where("add_bus_days"))
                continue
            ck.check(r3, key, any(vkey(v) == vkey(w_) for w_ in w), "result is not %s" % cel.vfmt(w[0])[:300], where("add_bus_days"), detail="got %s" % cel.vfmt(v)[:600],
                     sample=("backward" if neg else "forward") + (" count then settled roll" if stl else " count"))
        # R05.2: the loop itself (direction-independent statement of the counted-step idiom)
        for neg, name in ((True, "backward"), (False, "forward")):
            v = seen.get((neg, False))
            inner = v.tag[2] if v is not None and len(v.tag) == 3 else None
            ck.check(r2, "count-" + name, inner is not None and any(vkey(inner) == vkey(x_) for x_ in (backs if neg else fwds)),
                     "the %s counting loop is not: c := 0; while c %s days { x := roll(x %s 1 day); c %s= 1 }" % (name, ">" if neg else "<", "-" if neg else "+", "-" if neg else "+"),
                     where("add_bus_days"), detail="got %s" % (cel.vfmt(inner)[:500] if inner is not None else None), sample="%d-step counted loop idiom" % 1)
    except Unsupported as e:
        ck.fail(r1, "add_bus_days", "rule could not be established (%s)" % e, where("add_bus_days"))

    # ---------------- R05.4 lag
    r4 = ck.rule("R05.4", "lag: business start -> add_bus_days(date, days); otherwise days = 0 -> forward roll, days < 0 -> add_bus_days(backward roll, days+1), "
                          "days > 0 -> add_bus_days(forward roll, days-1); settlement passed through", floor=5)
    try:
        got = ev_fn("lag", [S, D, DAYS, ST])
        ps = paths.flatten(got)
        bus = vkey(P("is_bus_day", S, D))
        unwrap = lambda x: Sym("m", "unwrap", vkey(x), ())
        cmpk = vkey(Sym("partial_cmp", DAYS.key(), Poly.const(0).key()))
        want = {"bus": unwrap(R("add_bus_days", S, D, DAYS, ST)), "Equal": R("roll_forward_bus_day", S, D),
                "Less": unwrap(R("add_bus_days", S, R("roll_backward_bus_day", S, D), DAYS + Poly.const(1), ST)),
                "Greater": unwrap(R("add_bus_days", S, R("roll_forward_bus_day", S, D), DAYS - Poly.const(1), ST))}
        seen = {}
        for c, v in ps:
            dc = dict(c)
            if dc.get(bus) is True:
                seen["bus"] = v
                continue
            # which sign of `days` does this path serve? decided from its literals over the whole i8 range (match on days.cmp(&0) or an if-chain alike)
            feas, _ = paths.int_feasible(c, "days", range(-128, 128))
            region = "Equal" if feas == [0] else "Less" if feas == list(range(-128, 0)) else "Greater" if feas == list(range(1, 128)) else None
            if region and region not in seen:
                seen[region] = v
            elif feas:
                seen["?"] = v
        ck.check(r4, "lag:trichotomy", "?" not in seen, "the non-business branch does not split exactly into days < 0, days = 0, days > 0", where("lag"), detail=paths.fmt_paths(got)[:500],
                 sample="paths partition the i8 range by sign")
        for k, w in want.items():
            v = seen.get(k)
            ck.check(r4, "lag[%s]" % k, v is not None and (vkey(v) == vkey(w) or vkey(v) == vkey(Sym("m", "expect", vkey(w.tag[2]) if w.tag[0] == "m" else None, ()))),
                     "lag case %s is not %s" % (k, cel.vfmt(w)[:300]), where("lag"), detail="got %s" % (cel.vfmt(v)[:500] if v is not None else paths.fmt_paths(got)[:500]),
                     sample=cel.vfmt(w)[:160])
    except Unsupported as e:
        ck.fail(r4, "lag", "rule could not be established (%s)" % e, where("lag"))

    # ---------------- R05.5 bus_date_range / add_days
    r5 = ck.rule("R05.5", "bus_date_range = collect x while x <= end, stepping x := add_bus_days(x, 1, false) from start; add_days = shift by |days| calendar days in the "
                          "direction of its sign, then roll(.., modifier, settlement) with its own arguments passed through", floor=2)
    try:
        START, END = Sym("param", "start"), Sym("param", "end")
        got = ev_fn("bus_date_range", [S, START, END])
        ps = paths.flatten(got)
        errs = [(c, v) for c, v in ps if isinstance(v, Sym) and v.tag[:2] == ("ctor", "Err")]
        oks = [(c, v) for c, v in ps if isinstance(v, Sym) and v.tag[:2] == ("ctor", "Ok")]
        # one `a || b` guard or two sequential early returns alike: the Ok path holds exactly {start is a business day, end is a business day}; every other
        # path is an Err decided by those two predicates alone
        b_s, b_e = paths.lit(P("is_bus_day", S, START)), paths.lit(P("is_bus_day", S, END))
        preds = {b_s[0], b_e[0]}
        ok1 = len(oks) == 1 and paths.atoms(oks[0][0]) == frozenset([b_s, b_e]) and len(errs) >= 1 and len(errs) + len(oks) == len(ps)
        ok1 = ok1 and all(any(paths.may_establish(c, (x[0], not x[1])) for x in (b_s, b_e)) for c, _ in errs)
        ok1 = ok1 and all({a for a, _ in paths.atoms(c)} <= preds or any(isinstance(a, tuple) and a[:2] == ("sym", "or") for a, _ in c) for c, _ in errs)
        ck.check(r1, "bus_date_range", ok1,
                 "bus_date_range does not reject non-business end points first", where("bus_date_range"), detail=paths.fmt_paths(got)[:500], sample="[non-bus start or end] -> Err")
        vec, x = LV(0), LV(1)
        want = ITER(0, [cel.Tup([]), START], Sym("cmp", "Le", vkey(x), vkey(END)),
                    [Sym("mut", "push", vkey(vec), (vkey(x),)), R("add_bus_days", S, x, Poly.const(1), Sym("bool", "false"))])
        ck.check(r5, "bus_date_range", len(oks) == 1 and vkey(oks[0][1]) == vkey(Sym("ctor", "Ok", want)),
                 "bus_date_range is not: x := start; while x <= end { push x; x := add_bus_days(x, 1, false)? }", where("bus_date_range"),
                 detail="got %s" % (cel.vfmt(oks[0][1])[:600] if oks else None), sample="collect while x <= end, step add_bus_days(x, 1, false)")
    except Unsupported as e:
        ck.fail(r5, "bus_date_range", "rule could not be established (%s)" % e, where("bus_date_range"))
    try:
        M = Sym("param", "modifier")
        got = ev_fn("add_days", [S, D, DAYS, M, ST])
        ps = paths.flatten(got)
        dayz = lambda p: Sym("call", "chrono::Days::new", (p.key(),))
        absd = cel.func_atom("abs", DAYS)
        ok = len(ps) == 2
        for c, v in ps:
            neg = dict(c).get(vkey(LT0))
            if neg is True:
                cands = [OP("Sub", D, dayz(absd)), OP("Sub", D, dayz(-DAYS))]
            elif neg is False:
                cands = [OP("Add", D, dayz(DAYS)), OP("Add", D, dayz(absd))]
            else:
                ok = False
                continue
            ok = ok and any(vkey(v) == vkey(R("roll", S, cand, M, ST)) for cand in cands)
        ck.check(r5, "add_days", ok, "add_days is not: shift by |days| days in the direction of the sign, then roll(new, modifier, settlement)", where("add_days"),
                 detail=paths.fmt_paths(got)[:600], sample="days<0 ? roll(date - Days(|days|)) : roll(date + Days(days))")
    except Unsupported as e:
        ck.fail(r5, "add_days", "rule could not be established (%s)" % e, where("add_days"))
    from rules import pywrap
    pywrap.run_calendar_wrappers(ck, facts)
    # the counting loops step with C04's roll primitives and settle with its settlement searches: their rules are necessary conditions here too
    from rules import c04
    nd, tb = list(ck.not_decided), list(ck.trusted)
    c04.run(ck, facts, tier)
    ck.not_decided[:], ck.trusted[:] = nd, tb
    ck.not_decided += ["the inverse law and the count as arithmetic facts about a concrete calendar (they follow from R05.2 + C04's R04.1 but are not separately evaluated)",
                       "i8 extremes are C20's", "termination"]
    ck.trusted += ["lib/cel.py loop summarisation", "C04 (roll primitives are next/previous business day searches)"]
