"""C03 — derivatives are tracked by variable name, whatever the internal layout (alignment discipline)."""
import re
import cel, paths, hir
from cel import Poly, Rec, Alt, Sym, Tup, Seq, Coll, Arr, Unsupported
from rules import gather
from rules.c17 import arms_of, FAST

D1, D2 = "dual::dual::Dual", "dual::dual::Dual2"
STATES = ("ArcEquivalent", "ValueEquivalent", "Superset", "Subset", "Difference")
VR = "dual::dual::VarsRelationship"


def short(n):
    return re.sub(r"dual::dual(_ops::\w+)?::", "", n)


def aligned_to(v, src, T, num):
    """Is `v` the number `src` re-expressed on variable list T by gather-by-name (value unchanged)?"""
    if not (isinstance(v, Rec) and v.adt == num and v.fields["real"] == src.fields["real"] and cel.vkey(v.fields["vars"]) == cel.vkey(T)):
        return False
    S = src.fields["vars"]
    if not gather.is_gather1(v.fields["dual"], S, T, src.fields["dual"]):
        return False
    if num == D2 and not gather.is_gather2(v.fields["dual2"], S, T, src.fields["dual2"]):
        return False
    return True


def relabelled(v, src, T, num):
    """`v` is `src` with the same arrays under the variable list T (legal only when T is order-identical to src's list)."""
    return isinstance(v, Rec) and v.adt == num and cel.vkey(v.fields["vars"]) == cel.vkey(T) and \
        all(cel.vkey(cel.num(v.fields[f])) == cel.vkey(src.fields[f]) for f in (("real", "dual") + (("dual2",) if num == D2 else ())))


def run(ck, facts, tier):
    hooks = {"@elem": gather.container_elem}
    # ---------------- R03.3 gather-by-name in to_new_vars
    r3 = ck.rule("R03.3", "to_new_vars (Dual, Dual2), evaluated for every relationship hint and for no hint: the arrays are kept as they are only for Arc/Value"
                          "Equivalent; otherwise entry i (i,j) of the result is the source derivative at get_index_of(source vars, target[i]) and zero when the "
                          "name is absent; both axes of dual2 use the same index vector; value unchanged; result carries the target list", floor=12)
    T = Sym("param", "arc_vars")
    for num in (D1, D2):
        fn = "<%s as dual::dual::Vars>::to_new_vars" % num
        r = facts.fn(fn)
        if r is None:
            ck.fail(r3, short(fn), "function not found")
            continue
        where = "%s:%d" % (r["file"], r["line"])
        for st in STATES + (None,):
            key = "%s[%s]" % (short(fn), st or "no hint")
            a = cel.operand("a", num)
            hint = Sym("ctor", "Some", Sym("ctor", st)) if st else Sym("ctor", "None")
            ev = cel.Ev(facts, hooks=hooks)
            try:
                res = ev.apply_fn(fn, [a, T, hint], 0)
            except Unsupported as e:
                ck.fail(r3, key, "rule could not be established (%s)" % e, where)
                continue
            if st in FAST:
                ck.check(r3, key, relabelled(res, a, T, num), "with hint %s the number is not simply relabelled: %s" % (st, cel.vfmt(res)[:300]), where, sample="arrays kept, vars = target")
            elif st is not None:
                ck.check(r3, key, aligned_to(res, a, T, num), "with hint %s the result is not a gather by name with zero default onto the target list: %s" % (st, cel.vfmt(res)[:500]),
                         where, sample="out[i] = a.dual[get_index_of(a.vars, target[i])] else 0 (both axes for dual2)")
            else:
                arms = arms_of(res)
                want_state = cel.vkey(Sym("vars_cmp", cel.vkey(a.fields["vars"]), cel.vkey(T)))
                ok = arms is not None and all(s == want_state for _, s, _ in arms)
                if ok:
                    for names, _, x in arms:
                        ok = ok and (relabelled(x, a, T, num) if names <= FAST else aligned_to(x, a, T, num))
                ck.check(r3, key, ok, "without a hint the function does not branch on vars_cmp(self.vars, target) with the fast path only for Arc/ValueEquivalent: %s"
                         % cel.vfmt(res)[:400], where, sample="[Arc|Value] relabel ; [_] gather")

    # ---------------- R03.5 union construction
    r5 = ck.rule("R03.5", "to_union_vars, evaluated for each relationship: both returned numbers carry one and the same variable list; an operand is returned "
                          "unchanged only onto its own list, relabelled only under Arc/ValueEquivalent, otherwise gathered by name; for Difference the common "
                          "list is built from both operands' lists (union); values unchanged", floor=10)
    for num in (D1, D2):
        fn = "dual::dual::Vars::to_union_vars"
        r = facts.fn(fn)
        if r is None:
            ck.fail(r5, "to_union_vars", "function not found")
            continue
        where = "%s:%d" % (r["file"], r["line"])
        for st in STATES:
            key = "to_union_vars[%s,%s]" % (num.rsplit("::", 1)[-1], st)
            a, b = cel.operand("a", num), cel.operand("b", num)
            ev = cel.Ev(facts, hooks=hooks)
            ev.self_impl = num

            def dispatch(ev_, vals, e, num=num):
                return ev_.apply_fn("<%s as dual::dual::Vars>::to_new_vars" % num, vals, 1)
            ev.hooks = dict(hooks, **{"dual::dual::Vars::to_new_vars": dispatch})
            try:
                res = ev.apply_fn(fn, [a, b, Sym("ctor", "Some", Sym("ctor", st))], 0)
            except Unsupported as e:
                ck.fail(r5, key, "rule could not be established (%s)" % e, where)
                continue
            ok = isinstance(res, Tup) and len(res.items) == 2 and all(isinstance(x, Rec) for x in res.items)
            why = "result is not a pair of numbers: %s" % cel.vfmt(res)[:200]
            if ok:
                x, y = res.items
                va, vb = a.fields["vars"], b.fields["vars"]
                if st == "ArcEquivalent":
                    ok = x is a and y is b or (relabelled(x, a, va, num) and relabelled(y, b, vb, num))
                    why = "ArcEquivalent: operands are not returned as they are"
                else:
                    common = x.fields["vars"]
                    ok = cel.vkey(common) == cel.vkey(y.fields["vars"])
                    why = "the two results carry different variable lists: %r vs %r" % (common, y.fields["vars"])
                    if ok:
                        def fine(v, src):
                            own = cel.vkey(common) == cel.vkey(src.fields["vars"])
                            if own and relabelled(v, src, common, num):
                                return True
                            if st == "ValueEquivalent" and relabelled(v, src, common, num):
                                return True
                            return aligned_to(v, src, common, num)
                        ok = fine(x, a) and fine(y, b)
                        why = "an operand is relabelled without gathering although the lists may differ in order/content (state %s): %s | %s" % (st, cel.vfmt(x)[:200], cel.vfmt(y)[:200])
                    if ok and st == "Superset":
                        ok = cel.vkey(common) == cel.vkey(va)
                        why = "Superset: the common list is not the left operand's list"
                    if ok and st == "Subset":
                        ok = cel.vkey(common) == cel.vkey(vb)
                        why = "Subset: the common list is not the right operand's list"
                    if ok and st == "Difference":
                        txt = repr(cel.vkey(common))
                        ok = (repr(cel.vkey(va)) in txt and repr(cel.vkey(vb)) in txt and ("'union'" in txt or "'chain'" in txt or "'extend'" in txt)) or \
                            inserts_all(cel.vkey(common), [cel.vkey(va), cel.vkey(vb)])
                        why = "Difference: the common list is not built from both operands' lists: %s" % txt[:300]
            ck.check(r5, key, ok, why, where, sample="(x, y) on one shared list; gather unless Arc/Value")

    # ---------------- R03.4 classification implies relation (vars_cmp)
    r4 = ck.rule("R03.4", "vars_cmp: each returned relationship is guarded by a condition that implies its meaning — ArcEquivalent <= Arc::ptr_eq; ValueEquivalent <= "
                          "equal length and pairwise equal in order (zip/all or Iterator::eq, not IndexSet ==); Superset <= every name of the other list is "
                          "contained in self's; Subset <= mirror", floor=4)
    vc = facts.fn("dual::dual::Vars::vars_cmp")
    if vc is None:
        ck.fail(r4, "vars_cmp", "function not found")
    else:
        where = "%s:%d" % (vc["file"], vc["line"])
        # judged on the paths of the symbolically evaluated body, so an if/else-if chain, a match on the length ordering with guards, early returns and
        # helper functions are one form: a path that returns a relationship must have established the condition that gives the relationship its meaning
        vk = cel.vkey
        VA, VB = Sym("vars", "a"), Sym("vars", "b")
        q0 = Poly.atom("q0")
        at = lambda c: Sym("at", vk(c), q0.key())
        lit = paths.lit
        ptr = {lit(Sym("call", "std::sync::Arc::<T, A>::ptr_eq", (vk(x), vk(y)))) for x, y in ((VA, VB), (VB, VA))}
        leneq = lit(cel.cmp_sym("Eq", Poly.atom(("len", vk(VA), None)), Poly.atom(("len", vk(VB), None)), True))
        zipeq = {lit(Sym("forall", vk(Sym("zip", vk(x), vk(y))), vk(cel.eq_sym(at(VA), at(VB))))) for x, y in ((VA, VB), (VB, VA))}
        itereq = lit(Sym("arr_eq", cel._srt([vk(VA), vk(VB)])))
        def contained(outer, inner):
            """literals that state: every name of `outer` is in `inner`"""
            return {lit(Sym("forall", vk(outer), vk(Sym("m", "contains", vk(inner), (vk(at(outer)),))))),
                    lit(Sym("m", "is_subset", vk(outer), (vk(inner),))), lit(Sym("m", "is_superset", vk(inner), (vk(outer),)))}
        need = {"ArcEquivalent": lambda c: bool(ptr & c),
                "ValueEquivalent": lambda c: (leneq in c and bool(zipeq & c)) or itereq in c,
                "Superset": lambda c: bool(contained(VB, VA) & c),
                "Subset": lambda c: bool(contained(VA, VB) & c)}
        msg = {"ArcEquivalent": "ArcEquivalent is not guarded by Arc::ptr_eq(self.vars(), other)",
               "ValueEquivalent": "ValueEquivalent is not guarded by an ordered, element-wise equality of the two lists (same length, pairwise equal in order)",
               "Superset": "Superset is not guarded by: every name of the other list is in self's",
               "Subset": "Subset is not guarded by: every name of self's list is in the other"}
        try:
            got = cel.Ev(facts, hooks={"@elem": gather.container_elem}).apply_fn("dual::dual::Vars::vars_cmp", [cel.operand("a", D1), VB], 0)
            ps = [(paths.atoms(c), v) for c, v in paths.flatten(got)]
            leaf = lambda v: v.tag[1] if isinstance(v, Sym) and v.tag[:1] == ("ctor",) else None
            for variant in ("ArcEquivalent", "ValueEquivalent", "Superset", "Subset"):
                mine = [c for c, v in ps if leaf(v) == variant]
                bad = [c for c in mine if not need[variant](c)]
                ck.check(r4, variant, not bad, msg[variant], where, detail=repr(sorted(bad[0], key=repr))[:600] if bad else None,
                         sample="%d path(s) return %s, each under its defining condition" % (len(mine), variant))
            others = sorted({cel.vfmt(v)[:60] for c, v in ps if leaf(v) not in need and leaf(v) != "Difference"})
            ck.check(r4, "Difference", bool(ps) and not others and any(leaf(v) == "Difference" for _, v in ps),
                     "a path of vars_cmp returns %s: the fall-through case must be Difference (the always-correct gather path)" % others, where, sample="else => Difference")
        except Unsupported as e:
            ck.fail(r4, "vars_cmp", "rule could not be established (%s)" % e, where)
        overriders = [r["fn"] for r in facts.all_fns() if r.get("trait_item") == "dual::dual::Vars::vars_cmp"]
        ck.check(r4, "not-overridden", not overriders, "vars_cmp overridden by %s" % overriders, sample="default method only")

    # ---------------- R03.1 / R03.2 aligned mixing and hint discipline in all in-crate bodies
    r1 = ck.rule("R03.1", "aligned mixing: inside a match on a vars_cmp result, an arm whose patterns are not within {ArcEquivalent, ValueEquivalent} never combines the "
                          "dual/dual2 arrays of two different numbers directly — only those of the pair returned by to_union_vars/to_combined_vars (or of one number)", floor=2)
    r2 = ck.rule("R03.2", "hint discipline: the relationship hint passed to to_union_vars is None or the very result of vars_cmp between the same two operands; "
                          "literal hints to to_new_vars are judged by R03.3/R03.5 evaluation", floor=2)
    # floors of these two discovered-instance rules are far below today's counts (30 / 24): folding the classify-and-align skeleton of all operators into one
    # shared helper leaves a handful of sites without weakening either rule, while an anchor that is no longer found at all still fails closed
    for r in facts.all_fns():
        if not r["file"].startswith("rust/dual/") and not r["file"].startswith("rust/splines/"):
            continue
        body = r["body"]
        # map local id -> how it was bound
        origin = {}
        for e in hir.walk(body):
            if e.get("k") == "block":
                for s in e["stmts"]:
                    if s["k"] == "let" and "init" in s:
                        init = strip(s["init"])
                        if init.get("k") == "mcall" and init["m"] in ("to_union_vars", "to_combined_vars") and s["pat"].get("k") == "tuple":
                            for p in s["pat"]["ps"]:
                                if p.get("k") == "bind":
                                    origin[p["id"]] = "union"
                        if init.get("k") == "mcall" and init["m"] == "vars_cmp" and s["pat"].get("k") == "bind":
                            origin[s["pat"]["id"]] = ("state", base_id(init["recv"]), vars_of_id(init["args"][0]))
        for e in hir.walk(body):
            if e.get("k") == "mcall" and e["m"] == "to_union_vars" and len(e["args"]) == 2:
                h = strip(e["args"][1])
                where = "%s:%s" % (r["file"], e.get("ln"))
                key = short(r["fn"])
                ok = hir.ctor_name(h) == "None"
                if not ok and hir.ctor_name(h) == "Some":
                    x = strip(h["args"][0])
                    o = origin.get(x.get("id")) if x.get("k") == "path" else None
                    ok = isinstance(o, tuple) and o[0] == "state" and o[1] == base_id(e["recv"]) and o[2] == base_id(e["args"][0])
                if r["fn"] == "dual::dual::Vars::to_union_vars":
                    continue
                ck.check(r2, key, ok, "to_union_vars receives a relationship hint that is not the vars_cmp result of the same two operands: %s" % hir.fmt(e)[:160], where,
                         sample="Some(state) with state = a.vars_cmp(b.vars())")
            if e.get("k") == "match" and (e["e"].get("ty") or "").replace("&", "") == VR:
                for a in e["arms"]:
                    names = pat_names(a["pat"])
                    if names <= FAST:
                        continue
                    bases = set()
                    for x in hir.walk(a["body"]):
                        if x.get("k") == "field" and x["name"] in ("dual", "dual2") and (x["e"].get("ty") or x["e"].get("tya") or "").replace("&", "") in (D1, D2):
                            b = strip(x["e"])
                            if b.get("k") == "path" and b.get("res") == "local":
                                bases.add((b["id"], b["name"], origin.get(b["id"])))
                        if x.get("k") == "mcall" and x["m"] in ("dual", "dual2") and not x["args"]:
                            b = strip(x["recv"])
                            if b.get("k") == "path" and b.get("res") == "local":
                                bases.add((b["id"], b["name"], origin.get(b["id"])))
                    raw = [b for b in bases if b[2] != "union"]
                    where = "%s:%s" % (r["file"], e.get("ln"))
                    ck.check(r1, short(r["fn"]), len(raw) <= 1,
                             "arm %s of a vars_cmp match mixes the derivative arrays of %s without aligning them (only Arc/ValueEquivalent lists are identical in order)"
                             % (sorted(names), sorted(b[1] for b in raw)), where, sample="arm %s reads arrays of %s" % (sorted(names), sorted((b[1], b[2] or "operand") for b in bases)))

    # ---------------- R03.7 result carries the union of the operands' names
    r7 = ck.rule("R03.7", "every binary operator (+ - * / %) on two dual numbers returns, on every path, a number whose variable list is the union list of both operands "
                          "(an operand's own list only on a path guarded by a vars_cmp arm within {ArcEquivalent, ValueEquivalent}, where the lists are identical in order — any "
                          "other shortcut that skips alignment is reported); with a float operand, the dual operand's list", floor=100)
    from rules import c01
    for num in (D1, D2):
        for r, op, ks in c01.impls(facts, num):
            if len(ks) != 2 or op not in ("add", "sub", "mul", "div", "rem"):
                continue
            where = "%s:%d" % (r["file"], r["line"])
            vals = [cel.operand("uv"[i], num) if k == "D" else Poly.atom("uv"[i]) for i, k in enumerate(ks)]
            try:
                got = cel.Ev(facts).apply_fn(r["fn"], vals, 0, collapse=False)
            except Unsupported as e:
                ck.fail(r7, short(r["fn"]), "rule could not be established (%s)" % e, where)
                continue
            dvars = [v.fields["vars"] for v in vals if isinstance(v, Rec)]
            want = dvars[0]
            for d in dvars[1:]:
                want = cel.union_vars(want, d)
            ok = True
            bad = None
            for guards, leaf in c01.alternatives(got):
                if not isinstance(leaf, Rec):
                    ok, bad = False, leaf
                    break
                vv = leaf.fields.get("vars")
                fast = any(isinstance(g, tuple) and g and g[0] == "arm" and (set(g[1]) if isinstance(g[1], tuple) else {g[1]}) <= FAST for g in guards)
                good = cel.vkey(vv) == cel.vkey(want) or (fast and any(cel.vkey(vv) == cel.vkey(d) for d in dvars))
                if not good:
                    ok, bad = False, vv
                    break
            ck.check(r7, short(r["fn"]), ok, "the result of %s can carry the variable list %r instead of the union of the operands' lists" % (op, bad), where,
                     sample="vars = union(u.vars, v.vars)" if len(dvars) == 2 else "vars = the dual operand's list")

    # ---------------- R03.6 equality
    r6 = ck.rule("R03.6", "PartialEq for Dual/Dual2: false when the values differ, otherwise element-wise equality of the gradient (and Hessian) arrays under the same "
                          "alignment discipline; comparisons with a float promote it to a variable-free number (absent name = zero derivative through the gather default)", floor=6)
    for num in (D1, D2):
        rs = [r for r in facts.all_fns() if r.get("trait_item") == "std::cmp::PartialEq::eq" and [t.replace("&", "") for t in r["sig"]] == [num, num]]
        key = "eq[%s]" % num.rsplit("::", 1)[-1]
        if not rs:
            ck.fail(r6, key, "impl not found")
            continue
        r = rs[0]
        where = "%s:%d" % (r["file"], r["line"])
        a, b = cel.operand("a", num), cel.operand("b", num)
        try:
            res = cel.Ev(facts).apply_fn(r["fn"], [a, b], 0)
        except Unsupported as e:
            ck.fail(r6, key, "rule could not be established (%s)" % e, where)
            continue
        # judged on paths, so `if a.real != b.real { false } else { .. }`, the negated test with swapped branches and an early `return false` are one form
        differ = paths.lit(cel.cmp_sym("Ne", a.fields["real"], b.fields["real"]))
        ps_ = paths.flatten(cel.strip_early(res))
        neq = [v for c, v in ps_ if differ in paths.atoms(c)]
        eqp = [v for c, v in ps_ if (differ[0], not differ[1]) in paths.atoms(c)]
        ok = bool(neq) and bool(eqp) and len(neq) + len(eqp) == len(ps_) and all(cel.vkey(v) == cel.vkey(Sym("bool", "false")) for v in neq)
        why = "equality does not start by comparing the values: %s" % cel.vfmt(res)[:300]
        if ok:
            want = {("arr_eq", cel._srt([a.fields["dual"].key(), b.fields["dual"].key()]))}
            if num == D2:
                want.add(("arr_eq", cel._srt([a.fields["dual2"].key(), b.fields["dual2"].key()])))
            for v in eqp:
                ok = ok and conj_set(v) == want
            why = "after the values, equality is not the conjunction of element-wise array equalities: %s" % cel.vfmt(res)[:400]
        ck.check(r6, key, ok, why, where, sample="a.real == b.real && dual arrays equal (&& dual2 arrays equal) after alignment")
    for r in facts.all_fns():
        if r.get("trait_item") != "std::cmp::PartialEq::eq":
            continue
        tys = [t.replace("&", "") for t in r["sig"]]
        if sorted(tys) not in (sorted([D1, "f64"]), sorted([D2, "f64"])):
            continue
        num = D1 if D1 in tys else D2
        key = "eq[%s]" % ",".join(t.rsplit("::", 1)[-1] for t in tys)
        where = "%s:%d" % (r["file"], r["line"])
        vals = [cel.operand("a", t) if t != "f64" else Poly.atom("f") for t in tys]
        try:
            res = cel.Ev(facts).apply_fn(r["fn"], vals, 0)
            d = next(v for v in vals if isinstance(v, Rec))
            z = Rec(num, {"real": Poly.atom("f"), "dual": Poly({}, 1), "vars": Sym("novars"), **({"dual2": Poly({}, 2)} if num == D2 else {})})
            eqfn = [x for x in facts.all_fns() if x.get("trait_item") == "std::cmp::PartialEq::eq" and [t.replace("&", "") for t in x["sig"]] == [num, num]][0]
            w1 = cel.Ev(facts).apply_fn(eqfn["fn"], [z, d], 0)
            w2 = cel.Ev(facts).apply_fn(eqfn["fn"], [d, z], 0)
            ok = cel.vkey(res) in (cel.vkey(w1), cel.vkey(w2))
        except (Unsupported, IndexError, StopIteration) as e:
            ok, res = False, e
        ck.check(r6, key, ok, "float comparison is not the number comparison with the float promoted to new(f, []): %s" % (cel.vfmt(res)[:300] if not isinstance(res, Exception) else res),
                 where, sample="new(f, []) == number")
    # ---------------- R03.8 numbers created on another number's variables
    r8 = ck.rule("R03.8", "the `*_from` constructors tag a new leaf exactly as the plain constructor does and then re-express it on the other number's variable list: "
                          "new_from = new(real, vars).to_new_vars(other.vars(), None); try_new_from = try_new(real, vars, dual[, dual2])?.to_new_vars(other.vars(), None) "
                          "(so an empty `dual` means ones, as in try_new); Python's vars_from is try_new_from with its arguments as given", floor=6)
    for num in (D1, D2):
        nm = num.rsplit("::", 1)[-1]
        hk = {num + "::new": lambda ev, vals, e: Sym("made", *[cel.vkey(v) for v in vals]), num + "::try_new": lambda ev, vals, e: Sym("trymade", *[cel.vkey(v) for v in vals]),
              "<%s as dual::dual::Vars>::to_new_vars" % num: lambda ev, vals, e: Sym("aligned", *[cel.vkey(v) for v in vals])}
        for ctor, inner in (("new_from", "made"), ("try_new_from", "trymade")):
            r = facts.fn(num + "::" + ctor)
            key = "%s::%s" % (nm, ctor)
            if r is None:
                ck.fail(r8, key, "constructor not found")
                continue
            where = "%s:%d" % (r["file"], r["line"])
            names = [p_.get("name") for p_ in r["params"]]
            try:
                got = cel.strip_early(cel.Ev(facts, hooks=hk).apply_fn(r["fn"], [Sym("param", n_) for n_ in names], 0))
                made = Sym(inner, *[cel.vkey(Sym("param", n_)) for n_ in names[1:]])
                want = Sym("aligned", cel.vkey(made), cel.vkey(Sym("m", "vars", cel.vkey(Sym("param", names[0])), ())), cel.vkey(Sym("ctor", "None")))
                if ctor == "try_new_from":
                    want = Sym("ctor", "Ok", want)
                ck.check(r8, key, cel.vkey(got) == cel.vkey(want), "%s is not the plain constructor followed by to_new_vars(other.vars(), None): %s" % (ctor, cel.vfmt(got)[:300]), where,
                         sample="%s(%s).to_new_vars(other.vars(), None)" % ("new" if inner == "made" else "try_new", ", ".join(names[1:])))
            except Unsupported as e:
                ck.fail(r8, key, "rule could not be established (%s)" % e, where)
        r = facts.fn("dual::dual_py::<impl %s>::vars_from" % num)
        key = "%s::vars_from" % nm
        if r is None:
            ck.fail(r8, key, "wrapper not found")
            continue
        names = [p_.get("name") for p_ in r["params"]]
        try:
            got = cel.strip_early(cel.Ev(facts, hooks={num + "::try_new_from": lambda ev, vals, e: Sym("from", *[cel.vkey(v) for v in vals])}).apply_fn(r["fn"], [Sym("param", n_) for n_ in names], 0))
            ck.check(r8, key, cel.vkey(got) == cel.vkey(Sym("from", *[cel.vkey(Sym("param", n_)) for n_ in names])), "vars_from is not try_new_from with its arguments as given: %s" % cel.vfmt(got)[:300],
                     "%s:%d" % (r["file"], r["line"]), sample="try_new_from(%s)" % ", ".join(names))
        except Unsupported as e:
            ck.fail(r8, key, "rule could not be established (%s)" % e, "%s:%d" % (r["file"], r["line"]))
    from rules import deps
    deps.include_number_surface(ck, facts, tier)
    # "operands whose derivative arrays match their variable lists" is what every alignment rule above assumes of its inputs: the constructors and the loaders are
    # where that is established (R20.6, the dual-number cases)
    from rules import c20
    nd, tb = list(ck.not_decided), list(ck.trusted)
    with ck.restrict({"R20.6"}):
        c20.shape_rule(ck, facts, only_keys=r"^Dual2?::")
    # a number that went through JSON or a pickle must come back with the same names against the same entries (C16 S16.2/S16.3/S16.7 for the two number types)
    if not getattr(ck, "_dual_storage_done", False) and (ck._only is None or "S16.7" in ck._only):
        ck._dual_storage_done = True
        from rules import c16
        c16.run(ck, facts, tier, only_types=r"^dual::dual::")
    ck.not_decided[:], ck.trusted[:] = nd, tb
    ck.not_decided += ["IndexSet/Arc behaviour (hash collisions, pointer identity) is trusted", "to_combined_vars' result order of names (either operand first; the statement makes results independent of it)"]
    ck.trusted += ["lib/cel.py array-comprehension semantics", "rules/gather.py normal forms"]


def inserts_all(common, srcs):
    """Is the set `common` (a key) built by inserting every element of each list in `srcs`? An insert chain `s.insert(x)` ... where, for each source list,
    its generic element at(src, i) is inserted unconditionally, or skipped only when it is already a member of a list that is itself inserted in full."""
    ins = []          # (item key, guards)
    k = common
    while isinstance(k, tuple) and k[:2] == ("sym", "mut") and k[2] == "insert" and len(k) >= 5 and len(k[4]) == 1:
        ins.append((k[4][0], k[5] if len(k) > 5 else ()))
        k = k[3]
    def elem_of(item, src):
        return isinstance(item, tuple) and item[:3] == ("sym", "at", src)
    seeded = set()
    if isinstance(k, tuple) and k[:1] == ("collect",) and isinstance(k[1], tuple) and k[1][:1] == ("seq",) and k[1][1] in srcs and elem_of(k[1][2], k[1][1]) and not k[1][3]:
        seeded.add(k[1][1])          # the chain starts from one list collected in full (an insert-per-element loop over it is that collection)
    elif isinstance(k, tuple) and k[:2] == ("sym", "collect") and k[2] in srcs:
        seeded.add(k[2])
    elif not (isinstance(k, tuple) and k[:2] == ("sym", "call") and ("with_capacity" in k[2] or k[2].endswith("::new"))):
        return False
    full = {src for src in srcs if src in seeded or any(elem_of(it, src) and not g for it, g in ins)}
    for src in srcs:
        if src in full:
            continue
        ok = False
        for it, g in ins:
            if elem_of(it, src) and len(g) == 1:
                a, pol = paths.norm_cond(g[0])
                # skipped only if `other.contains(item)` with `other` inserted in full
                if pol is False and isinstance(a, tuple) and a[:3] == ("sym", "m", "contains") and a[3] in full and a[4] == (it,):
                    ok = True
        if not ok:
            return False
    return bool(ins) or bool(seeded)


def conj_set(v):
    if isinstance(v, Sym):
        if v.tag[0] == "and":
            return conj_set_key(v.tag[1]) | conj_set_key(v.tag[2])
        if v.tag[0] == "arr_eq":
            return {("arr_eq", v.tag[1])}
    return {("?", cel.vkey(v))}


def conj_set_key(k):
    if isinstance(k, tuple) and k and k[0] == "sym":
        if k[1] == "and":
            return conj_set_key(k[2]) | conj_set_key(k[3])
        if k[1] == "arr_eq":
            return {("arr_eq", k[2])}
    return {("?", k)}


def strip(e):
    while True:
        k = e.get("k")
        if k == "ref" or (k == "un" and e.get("op") == "Deref"):
            e = e["e"]
        elif k == "block" and not e["stmts"] and "e" in e:
            e = e["e"]
        else:
            return e


def base_id(e):
    e = strip(e)
    while e.get("k") == "mcall" and e["m"] in ("clone", "vars") and not e["args"]:
        e = strip(e["recv"])
    if e.get("k") == "field" and e["name"] == "vars":
        e = strip(e["e"])
    return e.get("id") if e.get("k") == "path" else None


def vars_of_id(e):
    return base_id(e)


def conjuncts(c):
    c = strip(c)
    if c.get("k") == "bin" and c["op"] == "And":
        return conjuncts(c["l"]) + conjuncts(c["r"])
    return [c]


def pat_names(p):
    k = p.get("k")
    if k == "path":
        return {p.get("def", "?").rsplit("::", 1)[-1]}
    if k == "or":
        out = set()
        for x in p["ps"]:
            out |= pat_names(x)
        return out
    if k in ("ref", "box", "deref"):
        return pat_names(p["p"])
    return {"_"}
