"""C01 — first-order AD is exact (operator-rule conformance against the calculus oracle, engine E2).
Shared with C02 (same engine, `order=2`)."""
import re
import cel, oracle, hir
from cel import Poly, Rec, Alt, Unsupported

BIN = {"std::ops::Add::add": "add", "std::ops::Sub::sub": "sub", "std::ops::Mul::mul": "mul", "std::ops::Div::div": "div", "std::ops::Rem::rem": "rem"}
UNARY_TRAIT = {"std::ops::Neg::neg": "neg", "num_traits::Pow::pow": "pow",
               "dual::dual_ops::math_funcs::MathFuncs::exp": "exp", "dual::dual_ops::math_funcs::MathFuncs::log": "log",
               "dual::dual_ops::math_funcs::MathFuncs::norm_cdf": "norm_cdf", "dual::dual_ops::math_funcs::MathFuncs::inv_norm_cdf": "inv_norm_cdf"}
FLOATS = ("f64", "&f64")


def base(ty):
    return ty.replace("&", "").strip()


def kind_of(ty, num):
    b = base(ty)
    if b == num:
        return "D"
    if b == "f64":
        return "f"
    return None


def alternatives(v):
    """Flatten guarded alternatives to [(guard description, value)]."""
    if isinstance(v, Alt):
        out = []
        for g, x in v.alts:
            for g2, y in alternatives(x):
                out.append(((g,) + g2, y))
        return out
    return [((), v)]


def impls(facts, num):
    """All operator bodies on `num` (a def-path): (record, op, operand kinds)."""
    out = []
    for r in facts.all_fns():
        ti = r.get("trait_item")
        if ti in BIN:
            ks = [kind_of(t, num) for t in r["sig"]]
            if None in ks or "D" not in ks:
                continue
            out.append((r, BIN[ti], ks))
        elif ti in UNARY_TRAIT:
            if kind_of(r["sig"][0], num) != "D":
                continue
            if ti == "num_traits::Pow::pow" and base(r["sig"][1]) != "f64":
                continue
            out.append((r, UNARY_TRAIT[ti], ["D"] + (["p"] if UNARY_TRAIT[ti] == "pow" else [])))
    return out


def check_body(ck, rid, facts, r, op, ks, num, fields, ev):
    """Evaluate one operator body symbolically and compare each returned field with the oracle form."""
    names = ["u", "v"]
    vals = []
    for i, k in enumerate(ks):
        if k == "D":
            vals.append(cel.operand(names[i], num))
        elif k == "f":
            vals.append(Poly.atom(names[i]))
        else:
            vals.append(Poly.atom("p"))
    where = "%s:%d" % (r["file"], r["line"])
    short = re.sub(r"dual::dual(_ops::\w+)?::", "", r["fn"])
    try:
        got = ev.apply_fn(r["fn"], vals, 0, collapse=False)
        if op == "pow":
            want = oracle.expected(op, vals[0], None, vals[1])
        elif len(ks) == 2 and op in ("add", "sub", "mul", "div", "rem"):
            want = oracle.expected(op, vals[0], vals[1])
        else:
            want = oracle.expected(op, vals[0])
    except Unsupported as e:
        ck.fail(rid, short, "rule could not be established: body uses a construct the normaliser does not model (%s)" % e, where)
        return
    alts = alternatives(got)
    for gi, (guard, val) in enumerate(alts):
        tag = "" if len(alts) == 1 else ":arm%d" % gi
        if not isinstance(val, Rec) or val.adt != num:
            ck.fail(rid, short + tag, "operator does not return a %s value on this path: %s" % (num.split("::")[-1], cel.vfmt(val)[:120]), where)
            continue
        for fld in fields:
            g = cel.unq(val.fields.get(fld))        # `%` and the truncated-quotient formula are one calculus rule
            w = want[fld]
            ok = isinstance(g, Poly) and g == w
            ck.check(rid, "%s%s:%s" % (short, tag, fld), ok,
                     "`%s` of %s(%s) is not the calculus rule" % (fld, op, ",".join(ks)), where,
                     detail="got  %s\n   want %s" % (cel.vfmt(g)[:600], w.fmt()[:600]),
                     sample="%s = %s" % (fld, w.fmt()[:200]))
        # result carries the variable list of an operand (or of the aligned pair)
        vv = val.fields.get("vars")
        okv = isinstance(vv, cel.Sym) and vv.tag and vv.tag[0] in ("vars", "novars", "union")  # novars: a float promoted by new(f, []) (then aligned by the union arm)
        ck.check(rid, "%s%s:vars" % (short, tag), okv, "result does not carry an operand's variable list: %r" % (vv,), where, sample=repr(vv))


def run_order(ck, facts, num, rid_prefix, fields):
    ev = cel.Ev(facts)
    tname = num.split("::")[-1]
    r1 = ck.rule(rid_prefix + ".1", "every impl of + - * / neg, pow(f64), exp, log, norm_cdf, inv_norm_cdf on %s / &%s / f64 / &f64 operands: the returned "
                 "(%s) normalise to exactly the forms generated from the oracle table, in both arms of the vars_cmp match" % (tname, tname, ",".join(fields)),
                 floor=150 if len(fields) == 2 else 220)
    found = impls(facts, num)
    for r, op, ks in found:
        if op == "rem":
            continue  # C19's
        check_body(ck, r1, facts, r, op, ks, num, fields, ev)
    # R.2 operand-mix completeness
    r2 = ck.rule(rid_prefix + ".2", "operand-mix completeness: for each of + - * / all 12 of {D.D, D.f, f.D} x {owned, borrowed}^2 exist", floor=48)
    have = {}
    for r, op, ks in found:
        if op in ("add", "sub", "mul", "div"):
            have.setdefault(op, set()).add(tuple(r["sig"]))
    for op in ("add", "sub", "mul", "div"):
        for l in (num, "&" + num, "f64", "&f64"):
            for rr in (num, "&" + num, "f64", "&f64"):
                if base(l) == "f64" and base(rr) == "f64":
                    continue
                ck.check(r2, "%s(%s,%s)" % (op, l.split("::")[-1], rr.split("::")[-1]), (l, rr) in have.get(op, ()),
                         "no impl of %s for (%s, %s)" % (op, l, rr), sample="present")
    # R.3 commutation discipline
    r3 = ck.rule(rid_prefix + ".3", "argument-swapping macro (impl_op_ex_commutative!) is used only for + and *", floor=16)
    for r, op, ks in found:
        if "impl_op_ex_commutative" in (r.get("mac") or []):
            ck.check(r3, re.sub(r"dual::dual(_ops::\w+)?::", "", r["fn"]), op in ("add", "mul"),
                     "operand-swapping macro used for the non-commutative operator %s" % op, "%s:%d" % (r["file"], r["line"]), sample=op)
    return found


def run(ck, facts, tier):
    run_order(ck, facts, "dual::dual::Dual", "R01", ["real", "dual"])
    # the gradient is observed per variable name through gradient1: its read-back rule (C17 R17.1) is a necessary condition here too
    from rules import c17
    c17.run(ck, facts, tier, only={"gradient1[Dual]"})
    # composition to arbitrary expression trees is by induction over aligned operands: C03's alignment rules are necessary conditions here too
    from rules import deps
    deps.include_alignment(ck, facts, tier)
    deps.include_number_surface(ck, facts, tier)
    ck.not_decided += ["IEEE rounding; the kernels f64::exp/ln/powf and statrs Normal::{cdf,inverse_cdf} are atoms", "domain edges (division by zero, log of non-positive)",
                       "composition to arbitrary expression trees follows by induction given C03's alignment rules; it is not separately evaluated"]
    ck.trusted += ["lib/oracle.py 12-row derivative table + composition formula", "lib/cel.py normaliser"]
