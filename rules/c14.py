"""C14 — B-spline basis: recurrence conformance (Cox-de Boor with the support short-circuit and the right-end rule), guarded division, derivative recursion."""
import cel, paths, hir
from cel import Poly, Sym, Rec, Tup, Alt, Unsupported, vkey

SP = "splines::spline::"
X, I, K, M = Poly.atom("x"), Poly.atom("i"), Poly.atom("k"), Poly.atom("m")
TT = Sym("param", "t")
ONE = Poly.const(1)


def T(j):
    return Poly.atom(("call", "index", (vkey(TT), j.key())))


def LEN():
    return Poly.atom(("len", vkey(TT), None))


def B(i, k, org):
    return Poly.atom(("B", i.key(), k.key(), vkey(org)))


def Dm(i, k, m, org):
    return Poly.atom(("D", i.key(), k.key(), m.key(), vkey(org)))


def indexed_before(body, target, name="t"):
    """Is `name[..]` evaluated unconditionally (not under `&&`/`||` right operands, branches, arms, closures or loop bodies) before `target` is reached, in
    evaluation order? Then the slice is known to be non-empty at `target` (the index would have panicked otherwise)."""
    seen = []

    def is_t(x):
        while x.get("k") in ("ref", "un", "mcall") and (x.get("k") != "mcall" or x["m"] in ("as_slice", "as_ref", "deref")):
            x = x["e"] if x["k"] != "mcall" else x["recv"]
        return x.get("k") == "path" and x.get("name") == name

    def visit(e, cond):
        if e is target:
            return True
        k = e.get("k")
        if k == "bin" and e.get("op") in ("And", "Or"):
            return visit(e["l"], cond) or visit(e["r"], True)
        if k == "if":
            c = e["c"]["init"] if e["c"].get("k") == "letx" else e["c"]
            return visit(c, cond) or visit(e["t"], True) or ("e" in e and visit(e["e"], True))
        if k == "match":
            return visit(e["e"], cond) or any(visit(a["body"], True) or ("guard" in a and visit(a["guard"], True)) for a in e["arms"])
        if k in ("closure", "for", "while", "loop"):
            return any(visit(c_, True) for c_ in hir.children(e))
        for c_ in hir.children(e):
            if visit(c_, cond):
                return True
        if k == "index" and not cond and is_t(e["e"]):
            seen.append(e)
        return False
    found = visit(body, False)
    return found and bool(seen)


def own_order(k, org):
    """The `org_k` a kernel call works with: `None` means the call's own order k (`org_k.unwrap_or(*k)`), `Some(v)` / an already resolved number is v."""
    if isinstance(org, Sym) and org.tag[:2] == ("ctor", "None"):
        return k
    if isinstance(org, Sym) and org.tag[:2] == ("ctor", "Some") and len(org.tag) == 3:
        return org.tag[2]
    return org


def hooks(facts=None):
    h = {SP + "bsplev_single_f64": lambda ev, vals, e: B(vals[1], vals[2], own_order(vals[2], vals[4])),
         SP + "bspldnev_single_f64": lambda ev, vals, e: Dm(vals[1], vals[2], vals[4], vals[5])}

    def rec(ev, name, vals):
        # a private worker of the value kernel (same parameter order, the order already resolved) calling itself is the kernel's recursive call
        if name.startswith(SP) and len(vals) == 5 and name != SP + "bspldnev_single_f64":
            return B(vals[1], vals[2], own_order(vals[2], vals[4]))
        return None
    h["@rec"] = rec
    if facts is not None:
        def last(ev, vals, e):
            # `t.last()` where t[..] has already been indexed unconditionally: the slice is not empty, so this is Some(&t[len - 1])
            for r in facts.all_fns():
                if r["fn"].startswith(SP) and any(x is e for x in hir.walk(r["body"])):
                    if vkey(vals[0]) == vkey(TT) and indexed_before(r["body"], e):
                        return Sym("ctor", "Some", T(LEN() - ONE))
            raise Unsupported("last() on a slice not known to be non-empty at line %s" % e.get("ln"))
        h["core::slice::<impl [T]>::last"] = last
    return h


def cond(c, pol=True):
    return (vkey(c), pol)


def pset(v):
    return {(c, vkey(cel.num(x) if not isinstance(x, Poly) else x)) for c, x in paths.flatten(v)}


def run(ck, facts, tier):
    _run(ck, facts, tier)
    # the statement's "derivative returned for each function" also covers the basis evaluated at a dual-number abscissa: those four functions lift the
    # f64 kernels by the chain rule (C15 R15.4) and must not short-circuit on the value — include that rule (guard against the mutual include).
    from rules import pywrap
    pywrap.run_spline_wrappers(ck, facts)          # the vectorised evaluator and the Python-facing methods reach the kernels with their arguments unchanged (R15.6)
    if not getattr(ck, "_c14_nested", False):
        ck._c14_nested = True
        try:
            from rules import c15
            nd, tb = list(ck.not_decided), list(ck.trusted)
            with ck.restrict({"R15.4", "R15.1", "R15.3"}):          # R15.1: the collocation matrix evaluates basis i at site j for *every* site (rows = sites, columns = functions); R15.3: the evaluator sums all n functions
                c15.run(ck, facts, tier)
            ck.not_decided[:], ck.trusted[:] = nd, tb
        finally:
            ck._c14_nested = False


def _run(ck, facts, tier):
    NONE = Sym("ctor", "None")
    r1 = ck.rule("R14.1", "bsplev_single_f64 is the Cox-de Boor recursion as an ordered decision list: outside [t[i], t[i+k]] -> 0; x = t[last] and i >= len - org_k - 1 -> 1; "
                          "order 1 -> indicator of [t[i], t[i+1]); otherwise (x-t[i])/(t[i+k-1]-t[i]) B(i,k-1) + (t[i+k]-x)/(t[i+k]-t[i+1]) B(i+1,k-1), each term only when "
                          "its knot difference is non-zero", floor=2)
    r2 = ck.rule("R14.2", "guarded division: every quotient's denominator is (up to sign) the very difference its guard compares with zero / tests for inequality", floor=4)
    fn = SP + "bsplev_single_f64"
    r = facts.fn(fn)
    where = "%s:%d" % (r["file"], r["line"]) if r else None
    for orgname, org in (("None", NONE), ("Some", Sym("ctor", "Some", Poly.atom("o")))):
        orgk = K if orgname == "None" else Poly.atom("o")
        try:
            got = cel.Ev(facts, hooks=hooks(facts)).apply_fn(fn, [X, I, K, TT, org], 0)
        except Unsupported as e:
            ck.fail(r1, "bsplev[org_k=%s]" % orgname, "rule could not be established (%s)" % e, where)
            continue
        out = Sym("or", *sorted([vkey(cel.cmp_sym("Lt", X, T(I))), vkey(cel.cmp_sym("Gt", X, T(I + K)))], key=repr))
        right = Sym("and", *sorted([vkey(cel.cmp_sym("Eq", X, T(LEN() - ONE))), vkey(cel.cmp_sym("Ge", I, LEN() - orgk - ONE, True))], key=repr))
        k1 = cel.cmp_sym("Eq", K, ONE)
        ind = Sym("and", *sorted([vkey(cel.cmp_sym("Le", T(I), X)), vkey(cel.cmp_sym("Lt", X, T(I + ONE)))], key=repr))
        g1 = cel.cmp_sym("Ne", T(I), T(I + K - ONE))
        g2 = cel.cmp_sym("Ne", T(I + ONE), T(I + K))
        left = (X - T(I)) * (T(I + K - ONE) - T(I)).inv() * B(I, K - ONE, own_order(K - ONE, NONE))
        rght = (T(I + K) - X) * (T(I + K) - T(I + ONE)).inv() * B(I + ONE, K - ONE, own_order(K - ONE, NONE))
        n = paths.norm_cond
        pre = [n(("not", ("if", vkey(out)))), n(("not", ("if", vkey(right))))]
        want = {(frozenset([n(("if", vkey(out)))]), Poly.const(0).key()),
                (frozenset([pre[0], n(("if", vkey(right)))]), Poly.const(1).key()),
                (frozenset(pre + [n(("if", vkey(k1))), n(("if", vkey(ind)))]), Poly.const(1).key()),
                (frozenset(pre + [n(("if", vkey(k1))), n(("not", ("if", vkey(ind))))]), Poly.const(0).key())}
        for a, lv in ((True, left), (False, None)):
            for b, rv in ((True, rght), (False, None)):
                conds = pre + [n(("not", ("if", vkey(k1)))), n(("if", vkey(g1))) if a else n(("not", ("if", vkey(g1)))), n(("if", vkey(g2))) if b else n(("not", ("if", vkey(g2))))]
                val = (lv if lv is not None else Poly.const(0)) + (rv if rv is not None else Poly.const(0))
                want.add((frozenset(conds), val.key()))
        gotset, want = paths.minimise(pset(got)), paths.minimise(want)
        ck.check(r1, "bsplev[org_k=%s]" % orgname, gotset == want, "bsplev_single_f64 is not the Cox-de Boor decision list (support short-circuit, right-end rule, order-1 "
                 "indicator, guarded two-term recursion)", where, detail="paths only in code: %s ;; only in rule: %s" % (
                     [(sorted(map(str, c))[:4], str(v)[:200]) for c, v in list(gotset - want)[:2]], [(sorted(map(str, c))[:4], str(v)[:200]) for c, v in list(want - gotset)[:2]]),
                 sample="8 paths: outside->0, right end->1, k=1 indicator, 4 guarded recursion combinations")
        if orgname == "None":
            guarded_division(ck, r2, "bsplev", got, where)

    # ---------------- R14.3 derivative recursion
    r3 = ck.rule("R14.3", "bspldnev_single_f64: m = 0 -> evaluation; k = 1 or m >= k -> 0; otherwise (k-1)(X(i,k-1)/div1 - X(i+1,k-1)/div2) with X the evaluation (m = 1) or the "
                          "derivative of order m-1, each term only when its knot difference is non-zero, and every recursive call passes Some(org_k)", floor=3)
    fn = SP + "bspldnev_single_f64"
    r = facts.fn(fn)
    where = "%s:%d" % (r["file"], r["line"]) if r else None
    for orgname, org in (("None", NONE), ("Some", Sym("ctor", "Some", Poly.atom("o")))):
        orgk = K if orgname == "None" else Poly.atom("o")
        SOME = Sym("ctor", "Some", orgk)
        try:
            got = cel.Ev(facts, hooks=hooks(facts)).apply_fn(fn, [X, I, K, TT, M, org], 0)
        except Unsupported as e:
            ck.fail(r3, "bspldnev[org_k=%s]" % orgname, "rule could not be established (%s)" % e, where)
            continue
        n = paths.norm_cond
        m0 = cel.cmp_sym("Eq", M, Poly.const(0))
        zero = Sym("or", *sorted([vkey(cel.cmp_sym("Eq", K, ONE)), vkey(cel.cmp_sym("Ge", M, K, True))], key=repr))
        m1 = cel.cmp_sym("Eq", M, ONE)
        div1, div2 = T(I + K - ONE) - T(I), T(I + K) - T(I + ONE)
        g1, g2 = cel.cmp_sym("Ne", div1, Poly.const(0)), cel.cmp_sym("Ne", div2, Poly.const(0))
        pre = [n(("not", ("if", vkey(m0)))), n(("not", ("if", vkey(zero))))]
        want = {(frozenset([n(("if", vkey(m0)))]), B(I, K, own_order(K, NONE)).key()), (frozenset([pre[0], n(("if", vkey(zero)))]), Poly.const(0).key())}
        for first, X1, X2 in ((True, B(I, K - ONE, own_order(K - ONE, SOME)), B(I + ONE, K - ONE, own_order(K - ONE, SOME))), (False, Dm(I, K - ONE, M - ONE, SOME), Dm(I + ONE, K - ONE, M - ONE, SOME))):
            for a in (True, False):
                for b in (True, False):
                    conds = pre + [n(("if", vkey(m1))) if first else n(("not", ("if", vkey(m1)))), n(("if", vkey(g1))) if a else n(("not", ("if", vkey(g1)))),
                                   n(("if", vkey(g2))) if b else n(("not", ("if", vkey(g2))))]
                    val = ((X1 * div1.inv() if a else Poly.const(0)) - (X2 * div2.inv() if b else Poly.const(0))) * (K - ONE)
                    want.add((frozenset(conds), val.key()))
        gotset, want = paths.minimise(pset(got)), paths.minimise(want)
        ck.check(r3, "bspldnev[org_k=%s]" % orgname, gotset == want, "bspldnev_single_f64 is not the derivative recursion (m=0 -> value; k=1 or m>=k -> 0; (k-1)(X_i/div1 - X_{i+1}/div2) "
                 "with Some(org_k) on every recursive call)", where, detail="only in code: %s ;; only in rule: %s" % (
                     [(sorted(map(str, c))[:5], str(v)[:300]) for c, v in list(gotset - want)[:2]], [(sorted(map(str, c))[:5], str(v)[:300]) for c, v in list(want - gotset)[:2]]),
                 sample="10 paths")
        if orgname == "None":
            guarded_division(ck, r2, "bspldnev", got, where)
    # sub-clauses checked on their own (they survive a restructuring of the kernel)
    if r:
        KERN = ("bsplev_single_f64", "bspldnev_single_f64")
        bodies = [r["body"]]
        for e in hir.walk(r["body"]):            # private helpers the kernel was split into (one level)
            if e.get("k") == "call" and (e["f"].get("def") or "").startswith(SP) and not (e["f"].get("def") or "").endswith(KERN):
                h = facts.fn(e["f"]["def"])
                if h is not None and h["body"] not in bodies:
                    bodies.append(h["body"])
        calls = [e for b in bodies for e in hir.walk(b) if e.get("k") == "call" and e["f"].get("def", "").endswith(KERN)]
        none_calls = [c for c in calls if hir.ctor_name(strip(c["args"][-1])) == "None"]
        rec = [c for c in calls if c not in none_calls]
        ok = bool(rec) and len(none_calls) <= 1 and all(hir.ctor_name(strip(c["args"][-1])) == "Some" for c in rec)
        ck.check(r3, "recursive-calls-pass-org_k", ok, "a recursive call of the derivative drops the original order (right-end rule would use the reduced order)", where,
                 sample="%d recursive calls, all with Some(org_k)" % len(rec))
    ck.not_decided += ["non-negativity, locality and partition of unity are mathematical consequences of this recurrence and are not separately evaluated",
                       "values at concrete knots/points; floating-point rounding"]
    ck.trusted += ["lib/cel.py path flattening", "the Cox-de Boor recursion as written in the rule (the oracle)"]


def strip(e):
    while e.get("k") in ("ref",) or (e.get("k") == "block" and not e["stmts"] and "e" in e):
        e = e["e"]
    return e


def guarded_division(ck, rid, name, got, where):
    """Every inv(P) atom in a leaf value must be licensed by a guard on the same path comparing (a multiple of) P with zero."""
    n_checked = 0
    for c, v in paths.flatten(got):
        if not isinstance(v, Poly):
            continue
        invs = set()
        for (mono, t), cf in v.t.items():
            for a, e_ in mono:
                if isinstance(a, tuple) and a[0] == "inv":
                    invs.add(a[1])
        for pk in invs:
            p = cel.poly_from_key(pk)
            ok = False
            for atom, pol in c:
                if isinstance(atom, tuple) and atom[:3] == ("sym", "cmp", "Eq") and len(atom) == 4 and pol is False:
                    g = cel.poly_from_key(atom[3])
                    lead_g = sorted(g.t.items(), key=lambda kv: repr(kv[0]))[0][1]
                    if g.scale(1 / lead_g) == p or g.scale(-1 / lead_g) == p:
                        ok = True
            n_checked += 1
            ck.check(rid, "%s:denominator#%d" % (name, n_checked), ok, "a quotient's denominator %s is not the difference tested by a guard on its path" % p.fmt()[:120], where,
                     sample="1/(%s) under guard (%s) != 0" % (p.fmt()[:80], p.fmt()[:80]))
