"""Affine-index bounds analysis for counted `for` loops (used by C20 R20.1 to discharge a *new* index / index-arithmetic panic edge that a reviewed table has no
row for, when the edge is safe by the shape of the loop alone).

Rule: inside `for i in A..B` with A an integer literal and B = `<c>.len()` (plus/minus an integer literal D), an index expression `<c>[i + C]` / `<c>[i - C]` on the
same container `<c>` (C a literal) cannot go out of bounds when A + C >= 0 and D + C <= 0 (then 0 <= i + C <= B - 1 + C <= len - 1); `i - C` cannot underflow
when A >= C; `i + C` cannot overflow a usize while i < len. Anything else is left to the table (not discharged)."""
import re
import hir


def _strip(e):
    while e.get("k") in ("ref", "paren") or (e.get("k") == "un" and e.get("op") == "Deref") or (e.get("k") == "block" and not e["stmts"] and "e" in e):
        e = e["e"]
    return e


def _lit(e):
    e = _strip(e)
    if e.get("k") == "lit" and e.get("lk") == "int":
        return int(str(e["v"]).split("_")[0])
    return None


def _container_key(e):
    """a stable key for a container expression: local/param path or a field path of one"""
    e = _strip(e)
    if e.get("k") == "path" and e.get("res") == "local":
        return ("local", e.get("id"))
    if e.get("k") == "field":
        b = _container_key(e["e"])
        return b + (e["name"],) if b else None
    if e.get("k") == "mcall" and e["m"] in ("as_slice", "view", "as_ref", "iter") and not e["args"]:
        return _container_key(e["recv"])
    return None


def _len_plus(e):
    """(container key, D) for `<c>.len()`, `<c>.len() - D`, `<c>.len() + D`"""
    e = _strip(e)
    if e.get("k") == "mcall" and e["m"] == "len" and not e["args"]:
        return _container_key(e["recv"]), 0
    if e.get("k") == "bin" and e["op"] in ("Add", "Sub"):
        l, r = _len_plus(e["l"]), _lit(e["r"])
        if l and l[0] is not None and r is not None:
            return l[0], l[1] + (r if e["op"] == "Add" else -r)
    return None


def _affine(e, var_id):
    """C if e is `i`, `i + C` or `i - C` for the loop variable i (else None)"""
    e = _strip(e)
    if e.get("k") == "path" and e.get("res") == "local" and e.get("id") == var_id:
        return 0
    if e.get("k") == "bin" and e["op"] in ("Add", "Sub"):
        l, r = _affine(e["l"], var_id), _lit(e["r"])
        if l is not None and r is not None:
            return l + (r if e["op"] == "Add" else -r)
    return None


def safe_sites(fn_rec):
    """{(line, kindclass)} of index / index-arithmetic expressions in this function that the rule proves safe; kindclass in {"index", "sub", "add"}.
    A line is listed for a class only if EVERY expression of that class on the line is proved."""
    ok, bad = set(), set()
    # locals bound to `Array2::zeros((A, B))`: id -> (text of A, text of B); locals bound to `<str>.split(..)` / `.rsplit(..)`: id -> number of pulls seen
    zeros2, splits = {}, {}
    for b_ in hir.walk(fn_rec["body"]):
        if b_.get("k") == "block":
            for st in b_["stmts"]:
                if st["k"] == "let" and "init" in st and st["pat"].get("k") == "bind":
                    init = _strip(st["init"])
                    if init.get("k") == "call" and (init["f"].get("def") or "").endswith("::zeros") and len(init["args"]) == 1 and _strip(init["args"][0]).get("k") == "tup" \
                            and len(_strip(init["args"][0])["es"]) == 2:
                        zeros2[st["pat"]["id"]] = tuple(hir.fmt(_strip(x)) for x in _strip(init["args"][0])["es"])
                    if init.get("k") == "mcall" and init["m"] in ("split", "rsplit") and (init["recv"].get("ty") or "").replace("&", "").strip() in ("str", "std::string::String"):
                        splits[st["pat"]["id"]] = 0
    # `parts.next().unwrap()/expect(..)` as the first pull from a fresh `str::split` iterator: split always yields at least one piece
    pulls = [e_ for e_ in hir.walk(fn_rec["body"]) if e_.get("k") == "mcall" and e_["m"] == "next" and _strip(e_["recv"]).get("k") == "path" and _strip(e_["recv"]).get("id") in splits]
    pulls.sort(key=lambda e_: (e_.get("ln") or 0))
    first_pull = {}
    for e_ in pulls:
        first_pull.setdefault(_strip(e_["recv"])["id"], e_)
    in_loop = {id(x) for l_ in hir.walk(fn_rec["body"]) if l_.get("k") in ("for", "while", "loop", "closure") for x in hir.walk(l_)}
    for e_ in hir.walk(fn_rec["body"]):
        if e_.get("k") == "mcall" and e_["m"] in ("unwrap", "expect") and any(e_["recv"] is fp for fp in first_pull.values()) and id(e_) not in in_loop:
            ok.add((e_.get("ln"), "unwrap"))

    def visit(e, loops):
        if not isinstance(e, dict):
            return
        k = e.get("k")
        if k == "for":
            it = _strip(e["iter"])
            new = loops
            if it.get("k") == "struct" and (it.get("def") or "").endswith("ops::Range") and e["pat"].get("k") == "bind":
                fl = dict((n, v) for n, v in it["fields"])
                a, b = _lit(fl.get("start", {})), _len_plus(fl.get("end", {}))
                if a is not None and b and b[0] is not None:
                    new = loops + [(e["pat"]["id"], a, b[0], b[1])]
                elif a == 0 and "end" in fl:
                    new = loops + [("range0", e["pat"]["id"], hir.fmt(_strip(fl["end"])))]          # `for i in 0..E`: i < E
            if e.get("counted_while_dec_ln") is not None:
                ok.add((e["counted_while_dec_ln"], "sub"))        # `i -= 1` under `while i > 0` cannot underflow
            if e.get("counted_while_inc_ln") is not None:
                ok.add((e["counted_while_inc_ln"], "add"))        # `i += 1` under `while i < N`: i + 1 <= N cannot overflow
            visit(e["iter"], loops)
            visit(e["body"], new)
            return
        if k == "mcall" and e["m"] in ("column", "column_mut", "row", "row_mut") and len(e["args"]) == 1:
            # `b.column_mut(i)` inside `for i in 0..E` with `b = Array2::zeros((A, E))` (same expression E): i is a valid column (row: A)
            rc_ = _strip(e["recv"])
            ix_ = _strip(e["args"][0])
            dims_ = zeros2.get(rc_.get("id")) if rc_.get("k") == "path" else None
            verdict_ = False
            if dims_ and ix_.get("k") == "path":
                want_ = dims_[1] if e["m"].startswith("column") else dims_[0]
                verdict_ = any(lp[0] == "range0" and lp[1] == ix_.get("id") and lp[2] == want_ for lp in loops)
            (ok if verdict_ else bad).add((e.get("ln"), "axisview"))
        if k == "mcall" and e["m"] == "len_of" and len(e["args"]) == 1:
            # `a.len_of(Axis(c))` with a literal c below the array's (static) number of dimensions cannot abort
            ax = _strip(e["args"][0])
            m_ = re.search(r"Dim<\[usize; (\d+)\]>", (e["recv"].get("ty") or ""))
            c_ = _lit(ax["args"][0]) if ax.get("k") == "call" and len(ax.get("args", [])) == 1 and (ax["f"].get("def") or "").endswith("Axis") else None
            ((ok if (m_ and c_ is not None and 0 <= c_ < int(m_.group(1))) else bad)).add((e.get("ln"), "len_of"))
        if k == "mcall" and e["m"] in ("windows", "chunks_exact") and len(e["args"]) == 1 and (_lit(e["args"][0]) or 0) >= 1:
            ok.add((e.get("ln"), "windows"))          # a literal, non-zero window size never panics
        if k == "mcall" and e["m"] in ("all", "any", "for_each", "map", "position", "find", "filter") and len(e["args"]) == 1 and _strip(e["args"][0]).get("k") == "closure":
            rc = _strip(e["recv"])
            cl = _strip(e["args"][0])
            if rc.get("k") == "mcall" and rc["m"] in ("windows", "chunks_exact") and len(rc["args"]) == 1 and (_lit(rc["args"][0]) or 0) >= 1 and cl["params"] and \
                    cl["params"][0].get("k") == "bind":
                # the closure's parameter is a window of exactly K elements: `w[c]` with a literal c < K is in bounds
                visit(e["recv"], loops)
                visit(cl["body"], loops + [("window", cl["params"][0]["id"], _lit(rc["args"][0]))])
                return
        if k == "index":
            idx = e["i"]
            cont = _container_key(e["e"])
            verdict = False
            for lp in loops:
                if lp[0] == "window" and cont == ("local", lp[1]) and _lit(idx) is not None and 0 <= _lit(idx) < lp[2]:
                    verdict = True
            # a fixed-size array `[T; N]` indexed by a chrono weekday number (0..=6, or 1..=7 for number_from_*): in bounds when N covers the range
            ix = _strip(idx)
            while ix.get("k") == "cast":
                ix = _strip(ix["e"])
            mN = re.search(r"\[[^\[\]]*; (\d+)\]$", (e["e"].get("ty") or "").replace("&", "").strip())
            if mN and ix.get("k") == "mcall" and not ix["args"] and "chrono" in (ix.get("callee") or ix.get("resolved") or ""):
                top = {"num_days_from_monday": 6, "num_days_from_sunday": 6, "number_from_monday": 7, "number_from_sunday": 7}.get(ix["m"])
                if top is not None and int(mN.group(1)) > top:
                    verdict = True
            loops_ = [lp for lp in loops if lp[0] not in ("window", "range0")]
            for var, a, c_key, d in loops_:
                c = _affine(idx, var)
                if c is not None and cont is not None and cont == c_key and a + c >= 0 and d + c <= 0:
                    verdict = True
            (ok if verdict else bad).add((e.get("ln"), "index"))
        if k == "bin" and e.get("op") in ("Add", "Sub") and (e.get("ty") or "").replace("&", "") == "usize":
            verdict = False
            for var, a, c_key, d in [lp for lp in loops if lp[0] not in ("window", "range0")]:
                l, r = _affine(e["l"], var), _lit(e["r"])
                if l is not None and r is not None:
                    verdict = (a + l >= r) if e["op"] == "Sub" else True
            (ok if verdict else bad).add((e.get("ln"), "sub" if e["op"] == "Sub" else "add"))
        for ch in hir.children(e):
            visit(ch, loops)
        if k == "closure" and "body" in e:
            pass
    visit(fn_rec["body"], [])
    return ok - bad


def kind_class(kind):
    if kind == "ext:index":
        return "index"
    if kind == "assert:Overflow(Sub)":
        return "sub"
    if kind == "assert:Overflow(Add)":
        return "add"
    if kind in ("ext:slice::windows", "ext:slice::chunks_exact"):
        return "windows"
    if kind == "ext:impl_methods::len_of":
        return "len_of"
    if kind == "panic:Option::unwrap":
        return "unwrap"
    if kind in ("ext:ArrayBase>::column_mut", "ext:ArrayBase>::column", "ext:ArrayBase>::row_mut", "ext:ArrayBase>::row"):
        return "axisview"
    return None
