"""C10 — FX sensitivities are exact and the market state follows its update history (naming protocol, lifting, atomic update, order table)."""
import ast, os, re
import cel, paths, hir, cfg as cfgmod
from cel import Poly, Sym, Rec, Tup, Alt, Arr, Coll, Seq, Unsupported, vkey
from rules import gather
from rules.c09 import at, fld, CUR, RATES

FX = "fx::rates::"
FXR = "fx::rates::FXRates"


def self_write_blocks(c):
    """Blocks that (may) write through `self` (_1): assignments to (*_1).f, or &mut borrows of (*_1)[.f] handed to a call."""
    out = []
    for i, b in enumerate(c.blocks):
        if c.cleanup[i]:
            continue
        for s in b["stmts"]:
            if re.match(r"^\(?\(\*_1\)", s["p"]) or "&mut ((*_1)" in s["rv"] or "&mut (*_1)" in s["rv"]:
                out.append((i, s["ln"]))
                break
    return out


def err_blocks(c):
    out = []
    for i, b in enumerate(c.blocks):
        if c.cleanup[i]:
            continue
        for s in b["stmts"]:
            if s["p"] == "_0" and s.get("adt", "").endswith("Result") and s.get("variant") == "Err":
                out.append((i, s["ln"]))
        t = b["term"]
        if t["k"] == "call" and "from_residual" in (t.get("callee") or "") and t.get("dest") == "_0":
            out.append((i, t["ln"]))
    return out


def judge_order_case(ok, why, outs, stored, tgt, order, arr, elem_ty, RANK):
    if not ok:
        return ok, why
    after = outs[0]["params"][0].fields["fx_array"]
    if stored == tgt:
        return vkey(after) == vkey(Sym("ctor", stored, arr)), "identity case changes the matrix"
    if RANK[tgt] > RANK[stored]:
        return (vkey(after) == vkey(Sym("rebuilt", vkey(Sym("field", "currencies")), vkey(Sym("field", "fx_rates")), vkey(Sym("ctor", order)))),
                "raising case does not rebuild with create_fx_array(&self.currencies, &self.fx_rates, %s): %s" % (order, cel.vfmt(after)[:300]))
    ok = isinstance(after, Sym) and after.tag[:2] == ("ctor", tgt) and isinstance(after.tag[2], Sym) and after.tag[2].tag[0] == "shaped"
    if not ok:
        return False, "lowering case is not %s(from_shape_vec((n,n), projected elements)): %s" % (tgt, cel.vfmt(after)[:300])
    shape, coll = after.tag[2].tag[1], after.tag[2].tag[2]
    n = Poly.atom(("len", vkey(arr), vkey(Sym("ctor", "Axis", Poly.const(0)))))
    n2 = vkey(Sym("m", "len_of", vkey(arr), (vkey(Sym("ctor", "Axis", Poly.const(0))),)))
    if not (isinstance(coll, Coll) and vkey(coll.seq.src) == vkey(arr) and shape in (vkey(Tup([n, n])), ("tup", (n2, n2)))):
        return False, "projected elements do not come from the stored matrix reshaped n x n: shape %s" % repr(shape)[:200]
    d = cel.operand("d", elem_ty)
    x = coll.seq.fn(Poly.atom("i0"))
    if tgt == "F64":
        ok = isinstance(x, Poly) and x == d.fields["real"]
    else:
        ok = isinstance(x, Rec) and x.adt == "dual::dual::Dual" and x.fields["real"] == d.fields["real"] and x.fields["dual"] == d.fields["dual"] and \
            vkey(x.fields["vars"]) == vkey(d.fields["vars"])
    return ok, "element projection changes the value (or gradient/variables): %s" % cel.vfmt(x)[:300]


def run(ck, facts, tier, only=None):
    """only: None (all) or a set of rule ids (R10.3, R10.4, R10.5, R10.6) when included by C09"""
    hk = {"@elem": gather.container_elem}
    if only is not None:
        return run_state_rules(ck, facts, tier, hk)
    # ---------------- R10.1 protocol string
    r1 = ck.rule("R10.1", "naming protocol on both sides of the FFI: Rust names quote i `fx_` + Display(pair_i), Display(FXPair) = the two currency names in order; the "
                          "Python consumer reads f\"fx_{pair}\"", floor=4)
    tmpl = [x for x in facts.fmts if x["fmt"] == "fx::rates::create_fx_array"]
    ck.check(r1, "rust-template", len(tmpl) == 1 and tmpl[0]["pieces"] == ["fx_", {}], "variable-name template in create_fx_array is %s, expected ['fx_', {}]" % [t["pieces"] for t in tmpl],
             "rust/fx/rates/mod.rs", sample="format!(\"fx_{}\", pair)")
    disp = [x for x in facts.fmts if x["fmt"] == "fx::rates::fxpair::impl<FXPair>::fmt"]
    dfn = [r for r in facts.all_fns() if r.get("trait_item") == "std::fmt::Display::fmt" and (r.get("self_ty") or "").endswith("FXPair")]
    okd = len(disp) == 1 and disp[0]["pieces"] == [{}, {}] and len(dfn) == 1
    if okd:
        # the two arguments are self.0.name, self.1.name in this order
        names = []
        for e in hir.walk(dfn[0]["body"]):
            if e.get("k") == "field" and e["name"] == "name" and e["e"].get("k") == "field" and e["e"]["name"] in ("0", "1"):
                names.append((e.get("ln"), e["e"]["name"]))
        order = [n for _, n in names]
        okd = order[:2] == ["0", "1"] and set(order) == {"0", "1"}
    ck.check(r1, "rust-display", okd, "Display for FXPair is not `{}{}` of (self.0.name, self.1.name)", "rust/fx/rates/fxpair.rs", sample="write!(f, \"{}{}\", self.0.name, self.1.name)")
    pyp = os.path.join(facts.repo, "python/rateslib/fx/fx_rates.py")
    okp, found = False, []
    try:
        tree = ast.parse(open(pyp).read())
        for n in ast.walk(tree):
            if isinstance(n, ast.JoinedStr) and n.values and isinstance(n.values[0], ast.Constant) and str(n.values[0].value).startswith("fx_"):
                found.append([v.value if isinstance(v, ast.Constant) else "{}" for v in n.values])
        okp = ["fx_", "{}"] in found
    except (OSError, SyntaxError) as e:
        found = [str(e)]
    ck.check(r1, "python-template", okp, "python/rateslib/fx/fx_rates.py does not build variable names as f\"fx_{pair}\": %s" % found, "python/rateslib/fx/fx_rates.py", sample="f\"fx_{pair}\"")
    pyname = [r for r in facts.all_fns() if r["fn"].endswith("FXRate>::pair_py")]
    ck.check(r1, "python-pair-string", any(x["fmt"].endswith("impl<FXRate>::pair_py") and x["pieces"] == [{}] for x in facts.fmts), "FXRate.pair (python) is not the Display string of the pair",
             sample="format!(\"{}\", self.pair)")

    # ---------------- R10.2 lifting
    r2 = ck.rule("R10.2", "lifting: quote i is lifted with set_order_clone(&quote_i.rate, ad, [name_i]) where name_i is the formatted pair of the same quote i (so a float "
                          "quote gets exactly the variable fx_<pair_i>, a quote that is already a dual keeps its own variables — C18 R18.1)", floor=3)
    fn = FX + "create_fx_array"
    r = facts.fn(fn)
    where = "%s:%d" % (r["file"], r["line"]) if r else None
    captured = {}

    def cap_edges(ev, vals, e):
        captured["pairs_edges"] = vals[1]
        return Arr([Poly.atom("n")] * 2, Sym("E0"), "E0")

    def cap_init(ev, vals, e):
        captured["pairs_init"], captured["rates_init"] = vals[1], vals[2]
        return Arr([Poly.atom("n")] * 2, Sym("M0"), "M0")
    # the starting arrays may be built by one function or by two (rules/c09.init_builders finds them by what they return): whichever receives the pair
    # list / the rate list is where they are captured
    from rules import c09 as c09_
    bh = {}
    for bname, roles, kinds in c09_.init_builders(facts):
        def cap(ev, vals, e, roles=roles, kinds=kinds):
            outv = []
            for kind in kinds:
                if kind == "edges":
                    captured["pairs_edges"] = vals[roles.index("pairs")]
                    outv.append(Arr([Poly.atom("n")] * 2, Sym("E0"), "E0"))
                else:
                    captured["pairs_init"], captured["rates_init"] = vals[roles.index("pairs")], vals[roles.index("rates")]
                    outv.append(Arr([Poly.atom("n")] * 2, Sym("M0"), "M0"))
            return outv[0] if len(outv) == 1 else Tup(outv)
        bh[bname] = cap
    hk2 = dict(hk, **bh)
    def cap_fill(ev, vals, e):
        captured["M"] = vals[0]
        return Sym("ctor", "Ok", Sym("bool", "true"))
    conv_hook = lambda ev, vals, e: Sym("conv", vkey(vals[0]))
    hk2.update({"impl std::convert::From<&dual::enums::Number> for f64>::from": conv_hook, "impl std::convert::From<&dual::enums::Number> for dual::dual::Dual>::from": conv_hook,
                "impl std::convert::From<&dual::enums::Number> for dual::dual::Dual2>::from": conv_hook})
    hk2.update({FX + "mut_arrays_remaining_elements": cap_fill,
                      "dual_ops::convert::set_order_clone": lambda ev, vals, e: Sym("lifted", *[vkey(v) for v in vals])})
    for order, conv in (("Zero", "f64"), ("One", "dual::dual::Dual"), ("Two", "dual::dual::Dual2")):
        try:
            captured.clear()
            cel.Ev(facts, hooks=hk2).apply_fn(fn, [CUR, RATES, Sym("ctor", order)], 0)
            rates = captured.get("rates_init")
            ok = isinstance(rates, Coll)
            if not ok and isinstance(captured.get("M"), Arr) and captured["M"].writes:
                # no builder could be addressed by role: judge the matrix handed to the fill-in — the value written for quote i and the index it is written at
                w0 = captured["M"].writes[0]
                q = at(RATES)
                txt = repr(vkey(w0["val"]))
                name_i = cel.concat_sym([vkey(Sym("lit", "fx_")), vkey(Sym("display", vkey(fld(q, "pair"))))])
                idx_ok = [vkey(i_) for i_ in w0["idx"]] == [vkey(Sym("m", "unwrap", vkey(Sym("m", "get_index_of", vkey(CUR), (vkey(fld(q, "pair", k_)),))), ())) for k_ in ("0", "1")]
                ok2 = repr(vkey(fld(q, "rate"))) in txt and "'lifted'" in txt and repr(vkey(Sym("ctor", order))) in txt and repr(vkey(name_i)) in txt and \
                    [l_[1] for l_ in w0["loops"]] == [vkey(RATES)] and "'i1'" not in txt and "'q0'" not in txt and idx_ok
                ck.check(r2, "create_fx_array[%s]" % order, ok2, "quote i is not lifted with the name formatted from pair i (same index on both sides), or it is not written at its own pair's position",
                         where, detail=txt[:600], sample="M[idx(pair_i)] = set_order_clone(&fx_rates[i].rate, %s, [format!(\"fx_{}\", fx_rates[i].pair)])" % order)
                continue
            if ok:
                el = rates.seq.fn(Poly.atom("i0"))
                # el = From::from(lifted(rate_i, ad, [name_i]))  — conversion to the container's element type
                txt = repr(vkey(el))
                q = at(RATES)
                name_i = cel.concat_sym([vkey(Sym("lit", "fx_")), vkey(Sym("display", vkey(fld(q, "pair"))))])        # "fx_" followed by the pair's text
                ok = repr(vkey(fld(q, "rate"))) in txt and "'lifted'" in txt and repr(vkey(Sym("ctor", order))) in txt and \
                    repr(vkey(name_i)) in txt and vkey(rates.seq.src) == vkey(RATES)
                # both the name and the rate come from element i0 only
                ok = ok and "'i1'" not in txt and "'q0'" not in txt
                pe, pi = captured.get("pairs_edges"), captured.get("pairs_init")
                ok = ok and isinstance(pe, Coll) and isinstance(pi, Coll) and vkey(pe.seq.fn(Poly.atom("i0"))) == vkey(fld(q, "pair")) == vkey(pi.seq.fn(Poly.atom("i0")))
            ck.check(r2, "create_fx_array[%s]" % order, ok, "quote i is not lifted with the name formatted from pair i (same index on both sides), or pairs/rates lists are not the quotes' own",
                     where, detail=(repr(vkey(rates.seq.fn(Poly.atom("i0"))))[:600] if isinstance(rates, Coll) else repr(rates)[:300]),
                     sample="rates_[i] = set_order_clone(&fx_rates[i].rate, %s, [format!(\"fx_{}\", fx_rates[i].pair)])" % order)
        except Unsupported as e:
            ck.fail(r2, "create_fx_array[%s]" % order, "rule could not be established (%s)" % e, where)

    # quotes that are already dual numbers keep their own variables / gradient under the lifting (the statement's parenthesis): set_order_clone cases
    from rules import c18
    for k in ("Dual", "Dual2"):
        for o, tgt in (("One", "Dual"), ("Two", "Dual2")):
            key = "set_order_clone(%s->%s)" % (k, o)
            try:
                v = cel.Ev(facts).apply_fn("dual::dual_ops::convert::set_order_clone", [c18.number(k, "u"), Sym("ctor", o), Sym("param", "vars")], 0)
                u = c18.payload(k, "u")
                ok = isinstance(v, Sym) and v.tag[:2] == ("ctor", tgt) and isinstance(v.tag[2], Rec) and v.tag[2].fields["real"] == u.fields["real"] and \
                    v.tag[2].fields["dual"] == u.fields["dual"] and vkey(v.tag[2].fields["vars"]) == vkey(u.fields["vars"])
            except Unsupported as e:
                ok, v = False, e
            ck.check(r2, key, ok, "a quote that is already a dual number does not keep its own variables and gradient when lifted to order %s: %s" % (o, cel.vfmt(v)[:300] if not isinstance(v, Exception) else v),
                     "rust/dual/dual_ops/convert.rs", sample="value, gradient and variable names kept")

    run_state_rules(ck, facts, tier, hk)
    # "a quote that is already a dual keeps its own variables": the constructor stores the quote list it was given, unchanged (C09 R09.1)
    if not getattr(ck, "_c10_c09_nested", False):
        ck._c10_c09_nested = True
        try:
            from rules import c09 as c09m
            nd9, tb9 = list(ck.not_decided), list(ck.trusted)
            with ck.restrict({"R09.1", "R09.10"}):          # R09.10: pairs are compared structurally (the update guard and the slot search use ==)
                c09m.run(ck, facts, tier)
            ck.not_decided[:], ck.trusted[:] = nd9, tb9
        finally:
            ck._c10_c09_nested = False
    # sensitivities are produced by the AD operator rules applied along the chain typing: their exactness is a necessary condition here too
    from rules import deps
    deps.include_ad(ck, facts, tier)
    from rules import pywrap
    pywrap.run_fx_wrappers(ck, facts)          # what a Python user calls is the wrapper: it must hand its arguments to the core method unchanged
    ck.not_decided += ["numeric value of sensitivities on concrete markets (they follow from C01/C02 applied along the chain typing of C09 R09.2)",
                       "that a rebuilt market returns the same rates as one built directly is by construction (it IS built directly from the latest quotes by try_new)"]
    ck.trusted += ["lib/cel.py (iterator/array model, explore())", "MIR place syntax for writes through self"]


def run_state_rules(ck, facts, tier, hk):
    import cfg as cfgmod
    # ---------------- R10.3 atomic update (MIR)
    r3 = ck.rule("R10.3", "atomic refusal: in FXRates::update and FXRates::set_ad_order no block that can return Err is reachable from a block that writes through `self` "
                          "(validation and `?` precede every write): a refused update changes nothing", floor=2)
    P = cfgmod.Program(facts)
    for name in ("update", "set_ad_order"):
        c = P.cfgs.get(FX + "FXRates::" + name)
        if c is None:
            ck.fail(r3, name, "function not found")
            continue
        ws, es = self_write_blocks(c), err_blocks(c)
        bad = []
        for wb, wl in ws:
            reach = c.reachable_from(wb)
            for eb, el in es:
                if eb in reach and eb != wb:
                    bad.append((wl, el))
        ck.check(r3, name, bool(ws) and bool(es) and not bad, "a write through self (line %s) can be followed by an Err return (line %s): a refused %s leaves the market half-updated"
                 % (bad[0][0] if bad else "?", bad[0][1] if bad else "?", name), "%s:%d" % (c.rec["file"], c.rec["line"]),
                 sample="%d self-writing blocks, %d Err-producing blocks, none reachable from a write" % (len(ws), len(es)))

    # ---------------- R10.4 / R10.6 update semantics
    r4 = ck.rule("R10.4", "update: unknown pairs are refused (for all incoming quotes there exists a stored quote with the same pair, else Err); the rebuilt market is "
                          "try_new(updated quote list, Some(currencies[0])) and all three fields are replaced by the rebuilt ones", floor=3)
    r6 = ck.rule("R10.6", "replacement index: the slot overwritten for an incoming quote is the position of the stored quote with the same pair (fold/position keyed on pair equality)", floor=1)
    fn = FX + "FXRates::update"
    r = facts.fn(fn)
    where = "%s:%d" % (r["file"], r["line"]) if r else None
    try:
        tn = {}

        def cap_try_new(ev, vals, e):
            tn["args"] = vals
            return Sym("ctor", "Ok", Rec(FXR, {"fx_rates": Sym("new", "fx_rates"), "currencies": Sym("new", "currencies"), "fx_array": Sym("new", "fx_array")}))
        me = Rec(FXR, {"fx_rates": Sym("field", "fx_rates"), "currencies": Sym("field", "currencies"), "fx_array": Sym("field", "fx_array")})
        INC = Sym("param", "incoming")
        pair_eq = lambda ev, vals, e: cel.eq_sym(vals[0], vals[1])
        outs = cel.Ev(facts, hooks=dict(hk, **{"FXRates::try_new": cap_try_new, "FXPair as std::cmp::PartialEq>::eq": pair_eq})).explore(fn, [me, INC])
        stored = Sym("field", "fx_rates")
        same_pair = cel.eq_sym(fld(at(stored, "q1"), "pair"), fld(at(INC, "q0"), "pair"))
        same_pair2 = same_pair
        guards = [vkey(Sym("forall", vkey(INC), vkey(Sym("exists", vkey(stored), vkey(sp))))) for sp in (same_pair, same_pair2)]
        errs = [o for o in outs if isinstance(o["ret"], Sym) and o["ret"].tag[:2] == ("ctor", "Err")]
        oks = [o for o in outs if isinstance(o["ret"], Sym) and o["ret"].tag[:2] == ("ctor", "Ok")]
        def cond(o):
            return {paths.norm_cond(g) for g in o["guards"]}
        ck.check(r4, "update:unknown-pairs-refused", len(errs) == 1 and any(cond(errs[0]) == {(g, False)} for g in guards) and
                 vkey(errs[0]["params"][0]) == vkey(Rec(FXR, {"fx_rates": stored, "currencies": Sym("field", "currencies"), "fx_array": Sym("field", "fx_array")})),
                 "update does not refuse exactly when some incoming pair is not among the stored pairs (leaving self untouched)", where,
                 detail=repr([cond(o) for o in errs])[:500], sample="!incoming.all(|v| stored.any(|x| x.pair == v.pair)) -> Err, self unchanged")
        okk = len(oks) == 1 and any(cond(oks[0]) == {(g, True)} for g in guards)
        if okk:
            fin = oks[0]["params"][0]
            okk = isinstance(fin, Rec) and vkey(fin.fields["fx_rates"]) == vkey(Sym("new", "fx_rates")) and vkey(fin.fields["currencies"]) == vkey(Sym("new", "currencies")) and \
                vkey(fin.fields["fx_array"]) == vkey(Sym("new", "fx_array"))
        ck.check(r4, "update:all-fields-replaced", okk, "after a successful update self is not (rebuilt.fx_rates, rebuilt.currencies, rebuilt.fx_array)", where,
                 detail=cel.vfmt(oks[0]["params"][0])[:400] if oks else None, sample="self.{fx_rates,currencies,fx_array} <- rebuilt")
        a = tn.get("args")
        okb = a is not None and len(a) == 2 and vkey(a[1]) == vkey(Sym("ctor", "Some", Sym("at", vkey(Sym("field", "currencies")), Poly.const(0).key())))
        ck.check(r4, "update:rebuild-base", okb, "the market is not rebuilt on its own first currency (base would change on update)", where,
                 detail=cel.vfmt(a[1])[:200] if a else None, sample="try_new(updated, Some(self.currencies[0]))")
        lst = a[0] if a else None
        ok6 = isinstance(lst, Arr) and vkey(lst.base) == vkey(stored) and len(lst.writes) == 1
        if ok6:
            w = lst.writes[0]
            inc = at(INC)
            i_ = Poly.atom("q1")
            st = at(stored, "q1")
            cands = []
            for l, rr in ((fld(inc, "pair"), fld(st, "pair")), (fld(st, "pair"), fld(inc, "pair"))):
                for eq in (cel.eq_sym(l, rr),):
                    body = Alt([(("if", vkey(eq)), i_), (("not", ("if", vkey(eq))), Poly.atom("acc"))])
                    cands.append(Poly.atom(("fold", vkey(stored), Poly.const(0).key(), vkey(body))).key())
            ok6 = len(w["idx"]) == 1 and vkey(w["idx"][0]) in cands and vkey(w["val"]) == vkey(inc) and [l[1] for l in w["loops"]] == [vkey(INC)]
        ck.check(r6, "update:slot", ok6, "the incoming quote does not overwrite the slot found by pair equality among the stored quotes", where,
                 detail=cel.vfmt(lst)[:600] if lst is not None else None, sample="list[position(stored.pair == incoming.pair)] = incoming")
    except Unsupported as e:
        ck.fail(r4, "update", "rule could not be established (%s)" % e, where)

    # ---------------- R10.5 order table
    r5 = ck.rule("R10.5", "FXRates::set_ad_order, all 9 (target, stored) cases: identity cases change nothing; raising cases rebuild with create_fx_array(&currencies, "
                          "&fx_rates, target order); lowering cases map every element through a value-preserving projection (.real / From) into an n x n array; Ok", floor=9)
    fn = FX + "FXRates::set_ad_order"
    r = facts.fn(fn)
    where = "%s:%d" % (r["file"], r["line"]) if r else None
    ORD = {"Zero": "F64", "One": "Dual", "Two": "Dual2"}
    RANK = {"F64": 0, "Dual": 1, "Dual2": 2}
    for order, tgt in ORD.items():
        for stored in ("F64", "Dual", "Dual2"):
            key = "set_ad_order(%s->%s)" % (stored, order)
            arr = Sym("matrix", stored)
            me = Rec(FXR, {"fx_rates": Sym("field", "fx_rates"), "currencies": Sym("field", "currencies"), "fx_array": Sym("ctor", stored, arr)})
            elem_ty = {"F64": None, "Dual": "dual::dual::Dual", "Dual2": "dual::dual::Dual2"}[stored]
            def elemf(cont, elem_ty=elem_ty, arr=arr):
                if isinstance(cont, Sym) and vkey(cont) == vkey(arr):
                    return (lambda idx: cel.operand("d", elem_ty)) if elem_ty else (lambda idx: Poly.atom("d"))
                return gather.container_elem(cont)
            hk5 = {"@elem": elemf, FX + "create_fx_array": lambda ev, vals, e: Sym("ctor", "Ok", Sym("rebuilt", *[vkey(v) for v in vals])),
                   "::from_shape_vec": lambda ev, vals, e: Sym("ctor", "Ok", Sym("shaped", vkey(vals[0]), vals[1]))}
            try:
                outs = cel.Ev(facts, hooks=hk5).explore(fn, [me, Sym("ctor", order)])
            except Unsupported as e:
                ck.fail(r5, key, "rule could not be established (%s)" % e, where)
                continue
            ok = len(outs) == 1 and isinstance(outs[0]["ret"], Sym) and outs[0]["ret"].tag[:2] == ("ctor", "Ok")
            why = "not a single Ok path"
            try:
                ok, why = judge_order_case(ok, why, outs, stored, tgt, order, arr, elem_ty, RANK)
            except Unsupported as e:
                ok, why = False, "rule could not be established (%s)" % e
            ck.check(r5, key, ok, why, where, sample={True: "unchanged"}.get(stored == tgt, "rebuild" if RANK[tgt] > RANK[stored] else "project elements"))
            continue
            if ok:
                after = outs[0]["params"][0].fields["fx_array"]
                if stored == tgt:
                    ok = vkey(after) == vkey(Sym("ctor", stored, arr))
                    why = "identity case changes the matrix"
                elif RANK[tgt] > RANK[stored]:
                    ok = vkey(after) == vkey(Sym("rebuilt", vkey(Sym("field", "currencies")), vkey(Sym("field", "fx_rates")), vkey(Sym("ctor", order))))
                    why = "raising case does not rebuild with create_fx_array(&self.currencies, &self.fx_rates, %s): %s" % (order, cel.vfmt(after)[:300])
                else:
                    ok = isinstance(after, Sym) and after.tag[:2] == ("ctor", tgt) and isinstance(after.tag[2], Sym) and after.tag[2].tag[0] == "shaped"
                    why = "lowering case is not %s(from_shape_vec((n,n), projected elements)): %s" % (tgt, cel.vfmt(after)[:300])
                    if ok:
                        shape, coll = after.tag[2].tag[1], after.tag[2].tag[2]
                        n = Poly.atom(("len", vkey(arr), vkey(Sym("ctor", "Axis", Poly.const(0)))))
                        n2 = vkey(Sym("m", "len_of", vkey(arr), (vkey(Sym("ctor", "Axis", Poly.const(0))),)))
                        ok = isinstance(coll, Coll) and vkey(coll.seq.src) == vkey(arr) and shape in (vkey(Tup([n, n])), ("tup", (n2, n2)))
                        why = "projected elements do not come from the stored matrix reshaped n x n: shape %s" % repr(shape)[:200]
                        if ok:
                            d = cel.operand("d", elem_ty)
                            x = coll.seq.fn(Poly.atom("i0"))
                            if tgt == "F64":
                                ok = isinstance(x, Poly) and x == d.fields["real"]
                            else:
                                ok = isinstance(x, Rec) and x.adt == "dual::dual::Dual" and x.fields["real"] == d.fields["real"] and x.fields["dual"] == d.fields["dual"] and \
                                    vkey(x.fields["vars"]) == vkey(d.fields["vars"])
                            why = "element projection changes the value (or gradient/variables): %s" % cel.vfmt(x)[:300]
            ck.check(r5, key, ok, why, where, sample={True: "unchanged"}.get(stored == tgt, "rebuild" if RANK[tgt] > RANK[stored] else "project elements"))
