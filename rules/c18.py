"""C18 — changing derivative order or mixing number kinds never alters values (kind-case evaluation of the match tables, engines E3+E2)."""
import re
import cel, oracle, hir
from cel import Poly, Rec, Alt, Sym, Tup, Unsupported
from rules import c01

D1, D2, NUM = "dual::dual::Dual", "dual::dual::Dual2", "dual::enums::Number"
KINDS = ("F64", "Dual", "Dual2")
RANK = {"F64": 0, "Dual": 1, "Dual2": 2}


def payload(kind, name):
    if kind == "F64":
        return Poly.atom(name)
    return cel.operand(name, D1 if kind == "Dual" else D2)


def number(kind, name):
    return Sym("ctor", kind, payload(kind, name))


def same_num(a, b, fields):
    return isinstance(a, Rec) and isinstance(b, Rec) and all(cel.vkey(a.fields.get(f)) == cel.vkey(b.fields.get(f)) for f in fields)


def short(n):
    return re.sub(r"dual::(dual|enums)(_ops::\w+)?::", "", n)


def _noclos(k):
    if isinstance(k, tuple):
        if len(k) == 2 and k[0] == "closure":
            return ("closure",)
        return tuple(_noclos(x) for x in k)
    return k


def run(ck, facts, tier):
    ev = cel.Ev(facts)
    # ---------------- R18.1 conversion tables
    r1 = ck.rule("R18.1", "set_order / set_order_clone, all 9 (kind, target order) cases each: ->Zero gives the value; F64->One/Two gives new(f, caller's vars); "
                          "Dual->Two and Dual2->One go through From; identity cases return the input; the two functions agree case by case", floor=18)
    res = {}
    for fn in ("dual::dual_ops::convert::set_order", "dual::dual_ops::convert::set_order_clone"):
        r = facts.fn(fn)
        if r is None:
            ck.fail(r1, fn, "function not found")
            continue
        where = "%s:%d" % (r["file"], r["line"])
        for k in KINDS:
            for o, tgt in (("Zero", "F64"), ("One", "Dual"), ("Two", "Dual2")):
                key = "%s(%s->%s)" % (fn.rsplit("::", 1)[-1], k, o)
                vars_ = Sym("param", "vars")
                try:
                    ev.zero_shapes = []
                    v = ev.apply_fn(fn, [number(k, "u"), Sym("ctor", o), vars_], 0)
                except Unsupported as e:
                    ck.fail(r1, key, "rule could not be established (%s)" % e, where)
                    continue
                res[(fn, k, o)] = cel.vkey(v)
                u = payload(k, "u")
                ok = isinstance(v, Sym) and v.tag[:2] == ("ctor", tgt) and len(v.tag) == 3
                why = "result is not Number::%s(..): %s" % (tgt, cel.vfmt(v)[:200])
                if ok:
                    x = v.tag[2]
                    ureal = u if k == "F64" else u.fields["real"]
                    xreal = x if tgt == "F64" else (x.fields.get("real") if isinstance(x, Rec) else None)
                    ok = isinstance(xreal, Poly) and xreal == ureal
                    why = "value changed: %s" % cel.vfmt(x)[:200]
                    if ok and tgt != "F64":
                        if k == "F64":
                            n = ("len", Sym("collect", cel.vkey(vars_)).key(), None)
                            ones = x.fields.get("dual")
                            ok = isinstance(ones, Poly) and list(ones.t) == [((), ("ones", (Poly.atom(n).key(),)))] and \
                                x.fields["vars"].key() == Sym("collect", cel.vkey(vars_)).key() and (tgt == "Dual" or x.fields["dual2"].is_zero())
                            why = "raised float does not carry exactly the caller's variables with unit sensitivity (and zero Hessian): %s" % cel.vfmt(x)[:300]
                        else:
                            ok = x.fields["dual"] == u.fields["dual"] and cel.vkey(x.fields["vars"]) == cel.vkey(u.fields["vars"])
                            if tgt == "Dual2":
                                ok = ok and (x.fields["dual2"] == u.fields["dual2"] if k == "Dual2" else x.fields["dual2"].is_zero())
                            why = "conversion %s->%s alters gradient/variables or the Hessian rule: %s" % (k, tgt, cel.vfmt(x)[:300])
                ck.check(r1, key, ok, why, where, sample=cel.vfmt(v)[:160])
    for k in KINDS:
        for o in ("Zero", "One", "Two"):
            a, b = res.get(("dual::dual_ops::convert::set_order", k, o)), res.get(("dual::dual_ops::convert::set_order_clone", k, o))
            if a is not None and b is not None:
                ck.check(r1, "agree(%s->%s)" % (k, o), a == b, "set_order and set_order_clone disagree for %s->%s" % (k, o), sample="equal")

    # ---------------- R18.2 value-preserving conversions (From impls among f64/Dual/Dual2/Number, Dual::new)
    r2 = ck.rule("R18.2", "every From impl among f64/Dual/Dual2/Number returns the input value untouched (and gradient/variables where both sides carry them); "
                          "new(f, vars) sets dual = ones(|vars|), dual2 = zeros", floor=24)
    for r in facts.all_fns():
        if r.get("trait_item") != "std::convert::From::from":
            continue
        src, dst = c01.base(r["sig"][0]), (r.get("self_ty") or "")
        if src not in ("f64", D1, D2, NUM) or dst not in ("f64", D1, D2, NUM) or not r["file"].startswith("rust/dual/"):
            continue
        where = "%s:%d" % (r["file"], r["line"])
        cases = [(k, number(k, "u")) for k in KINDS] if src == NUM else [({"f64": "F64", D1: "Dual", D2: "Dual2"}[src], payload({"f64": "F64", D1: "Dual", D2: "Dual2"}[src], "u"))]
        for k, val in cases:
            key = "From<%s> for %s%s" % (r["sig"][0].replace("dual::dual::", "").replace("dual::enums::", ""), dst.split("::")[-1], "[%s]" % k if src == NUM else "")
            u = payload(k, "u")
            ureal = u if k == "F64" else u.fields["real"]
            try:
                v = ev.apply_fn(r["fn"], [val], 0)
            except Unsupported as e:
                ck.fail(r2, key, "rule could not be established (%s)" % e, where)
                continue
            x = v
            if dst == NUM:
                ok = isinstance(v, Sym) and v.tag[:2] == ("ctor", k) and len(v.tag) == 3
                x = v.tag[2] if ok else None
            else:
                ok = True
            if ok:
                xreal = x if isinstance(x, Poly) else (x.fields.get("real") if isinstance(x, Rec) else None)
                ok = isinstance(xreal, Poly) and xreal == ureal
                if ok and isinstance(x, Rec) and isinstance(u, Rec):
                    ok = x.fields["dual"] == u.fields["dual"] and cel.vkey(x.fields["vars"]) == cel.vkey(u.fields["vars"])
                if ok and isinstance(x, Rec) and not isinstance(u, Rec):
                    ok = x.fields["dual"].is_zero() and x.fields["vars"].tag == ("novars",)
                if ok and isinstance(x, Rec) and "dual2" in x.fields:
                    ok = x.fields["dual2"] == (u.fields["dual2"] if isinstance(u, Rec) and "dual2" in u.fields else Poly({}, 2))
            ck.check(r2, key, ok, "conversion does not preserve the value (and derivatives it should keep): %s" % cel.vfmt(v)[:300], where, sample=cel.vfmt(v)[:160])
    for num in (D1, D2):
        fn = num + "::new"
        r = facts.fn(fn)
        if r is None:
            ck.fail(r2, fn, "constructor not found")
            continue
        vars_ = Sym("param", "vars")
        try:
            v = ev.apply_fn(fn, [Poly.atom("f"), vars_], 0)
            n = Poly.atom(("len", Sym("collect", cel.vkey(vars_)).key(), None)).key()
            ok = isinstance(v, Rec) and v.fields["real"] == Poly.atom("f") and list(v.fields["dual"].t) == [((), ("ones", (n,)))] and \
                v.fields["vars"].key() == Sym("collect", cel.vkey(vars_)).key()
            if num == D2:
                ok = ok and v.fields["dual2"].is_zero() and ("zeros", (n, n)) in ev.zero_shapes
        except Unsupported as e:
            ok, v = False, e
        ck.check(r2, short(fn), ok, "new(f, vars) is not (f, ones(|vars|), zeros): %s" % (cel.vfmt(v) if not isinstance(v, Exception) else v),
                 "%s:%d" % (r["file"], r["line"]), sample="real=f, dual=ones(len(vars)), vars=vars")

    # ---------------- R18.3 Number operator tables
    r3 = ck.rule("R18.3", "every operator on the Number container, for all 9 (3) kind cases: the result is Variant(lhs op rhs) computed by the contained types' "
                          "own rule (compared with the oracle form), the variant is the higher kind, and exactly (Dual,Dual2)/(Dual2,Dual) are refused", floor=350)
    ops = dict(c01.BIN)
    for r in facts.all_fns():
        ti = r.get("trait_item")
        tys = [c01.base(t) for t in r.get("sig", [])]
        if NUM not in tys or not r["file"].startswith("rust/dual/dual_ops/"):
            continue
        where = "%s:%d" % (r["file"], r["line"])
        sname = short(r["fn"])
        if ti in ops and all(t in (NUM, "f64") for t in tys):
            op = ops[ti]
            for kl in (KINDS if tys[0] == NUM else ("F64",)):
                for kr in (KINDS if tys[1] == NUM else ("F64",)):
                    key = "%s[%s,%s]" % (sname, kl, kr)
                    a = number(kl, "u") if tys[0] == NUM else Poly.atom("u")
                    b = number(kr, "v") if tys[1] == NUM else Poly.atom("v")
                    try:
                        v = ev.apply_fn(r["fn"], [a, b], 0)
                    except Unsupported as e:
                        ck.fail(r3, key, "rule could not be established (%s)" % e, where)
                        continue
                    if {kl, kr} == {"Dual", "Dual2"}:
                        ck.check(r3, key, isinstance(v, Sym) and v.tag[0] == "diverges", "mixing Dual with Dual2 is computed instead of refused: %s" % cel.vfmt(v)[:200], where, sample="refused (panic!)")
                        continue
                    top = max(kl, kr, key=lambda k: RANK[k])
                    want = oracle.expected(op, payload(kl, "u"), payload(kr, "v"))
                    if op == "rem":
                        # "the same result as the same arithmetic on the contained types", to the letter: the contained `%` itself is evaluated (for two floats the
                        # built-in exact remainder, which a hand-written truncated-quotient formula is not)
                        try:
                            pa, pb = payload(kl, "u"), payload(kr, "v")
                            if kl == kr == "F64":
                                inner = pa - cel.func_atom("truncq", pa * pb.inv()) * pb            # what cel gives the built-in f64 `%`
                                want = {"real": inner}
                            else:
                                ctys = [("f64" if k == "F64" else (D1 if k == "Dual" else D2)) for k in (kl, kr)]
                                fn_ = next(rr["fn"] for rr in facts.all_fns() if rr.get("trait_item") == "std::ops::Rem::rem" and rr.get("sig") == ctys)
                                inner = cel.Ev(facts).apply_fn(fn_, [pa, pb], 0)
                                if not isinstance(inner, Rec):
                                    raise Unsupported("the contained remainder branches: %s" % cel.vfmt(inner)[:120])
                                want = dict(inner.fields)
                        except (Unsupported, StopIteration) as e_:
                            ck.fail(r3, key, "contained remainder could not be evaluated (%s)" % e_, where)
                            continue
                    ok = isinstance(v, Sym) and v.tag[:2] == ("ctor", top) and len(v.tag) == 3
                    if ok:
                        x = v.tag[2]
                        if top == "F64":
                            ok = isinstance(x, Poly) and x == want["real"]
                        else:
                            flds = ["real", "dual"] + (["dual2"] if top == "Dual2" else [])
                            ok = isinstance(x, Rec) and all(x.fields.get(f) == want[f] for f in flds)
                    ck.check(r3, key, ok, "Number %s for (%s,%s) is not %s(lhs %s rhs) by the contained rule: %s" % (op, kl, kr, top, op, cel.vfmt(v)[:300]), where,
                             sample="%s(%s)" % (top, cel.vfmt(want["real"])[:120]))
        elif ti in c01.UNARY_TRAIT or ti == "num_traits::Signed::abs":
            if tys[0] != NUM:
                continue
            op = c01.UNARY_TRAIT.get(ti, "abs")
            if op == "pow" and tys[1] != "f64":
                continue
            for k in KINDS:
                key = "%s[%s]" % (sname, k)
                args = [number(k, "u")] + ([Poly.atom("p")] if op == "pow" else [])
                try:
                    v = ev.apply_fn(r["fn"], args, 0)
                    inner = unary_expected(ev, facts, op, k)
                except Unsupported as e:
                    ck.fail(r3, key, "rule could not be established (%s)" % e, where)
                    continue
                ok = isinstance(v, Sym) and v.tag[:2] == ("ctor", k) and len(v.tag) == 3 and cel.vkey(v.tag[2]) == cel.vkey(inner)
                ck.check(r3, key, ok, "Number::%s on %s is not %s(inner.%s): %s vs %s" % (op, k, k, op, cel.vfmt(v)[:200], cel.vfmt(inner)[:200]), where, sample=cel.vfmt(v)[:120])
        elif ti in ("std::cmp::PartialEq::eq", "std::cmp::PartialOrd::partial_cmp") and all(t in (NUM, "f64") for t in tys):
            for kl in (KINDS if tys[0] == NUM else ("F64",)):
                for kr in (KINDS if tys[1] == NUM else ("F64",)):
                    key = "%s[%s,%s]" % (sname, kl, kr)
                    a = number(kl, "u") if tys[0] == NUM else Poly.atom("u")
                    b = number(kr, "v") if tys[1] == NUM else Poly.atom("v")
                    try:
                        v = ev.apply_fn(r["fn"], [a, b], 0)
                    except Unsupported as e:
                        ck.fail(r3, key, "rule could not be established (%s)" % e, where)
                        continue
                    if {kl, kr} == {"Dual", "Dual2"}:
                        ck.check(r3, key, isinstance(v, Sym) and v.tag[0] == "diverges", "comparing Dual with Dual2 is computed instead of refused", where, sample="refused (panic!)")
                        continue
                    try:
                        want = contained_cmp(ev, facts, ti, kl, kr)
                    except Unsupported as e:
                        ck.fail(r3, key, "contained comparison not found (%s)" % e, where)
                        continue
                    ck.check(r3, key, cel.vkey(v) == cel.vkey(want), "Number comparison for (%s,%s) differs from the contained types' comparison: %s vs %s"
                             % (kl, kr, cel.vfmt(v)[:200], cel.vfmt(want)[:200]), where, sample=cel.vfmt(v)[:120])
        elif ti and tys.count(NUM) == 2 and len(tys) == 2 and r.get("self_ty") == NUM:
            # any other two-operand method of the container (abs_sub): the same table — mixed Dual/Dual2 refused, otherwise the higher kind's own method on the
            # operands with a plain float lifted as new(f, [])
            for kl in KINDS:
                for kr in KINDS:
                    key = "%s[%s,%s]" % (sname, kl, kr)
                    try:
                        v = ev.apply_fn(r["fn"], [number(kl, "u"), number(kr, "v")], 0)
                    except Unsupported as e:
                        ck.fail(r3, key, "rule could not be established (%s)" % e, where)
                        continue
                    if {kl, kr} == {"Dual", "Dual2"}:
                        ck.check(r3, key, isinstance(v, Sym) and v.tag[0] == "diverges", "mixing Dual with Dual2 is computed instead of refused: %s" % cel.vfmt(v)[:200], where, sample="refused (panic!)")
                        continue
                    top = max(kl, kr, key=lambda k: RANK[k])
                    try:
                        if top == "F64":
                            want = Poly.atom((ti.rsplit("::", 1)[-1], payload("F64", "u").key(), payload("F64", "v").key()))   # cel's atom for a two-float method
                        else:
                            num = D1 if top == "Dual" else D2
                            lift = lambda k, n: payload(k, n) if k != "F64" else Rec(num, dict({"real": Poly.atom(n), "dual": Poly({}, 1), "vars": Sym("novars")}, **({"dual2": Poly({}, 2)} if top == "Dual2" else {})))
                            fn_ = next(rr["fn"] for rr in facts.all_fns() if rr.get("trait_item") == ti and rr.get("self_ty") == num)
                            want = cel.Ev(facts).apply_fn(fn_, [lift(kl, "u"), lift(kr, "v")], 0)
                    except (Unsupported, StopIteration) as e_:
                        ck.fail(r3, key, "the contained method could not be evaluated (%s)" % e_, where)
                        continue
                    ok = isinstance(v, Sym) and v.tag[:2] == ("ctor", top) and len(v.tag) == 3 and _noclos(cel.vkey(v.tag[2])) == _noclos(cel.vkey(want))
                    ck.check(r3, key, ok, "Number::%s for (%s,%s) is not %s(lhs.%s(rhs)) by the contained method: %s" % (ti.rsplit("::", 1)[-1], kl, kr, top, ti.rsplit("::", 1)[-1], cel.vfmt(v)[:300]), where,
                             sample="%s(%s)" % (top, cel.vfmt(want)[:120]))
    from rules import pywrap
    pywrap.run(ck, facts, tier)
    # "arithmetic on the container gives the same result as on the contained types" covers its sum, its identities and its sign/zero tests as well: the container's
    # Sum is one fold with its own `+` (so a Dual/Dual2 mix in a sequence is refused where `+` refuses it), zero()/one() are the plain floats, and
    # signum/is_positive/is_negative/is_zero forward per kind (C19 R19.4/R19.5/R19.6)
    if not getattr(ck, "_c18_c19_nested", False) and (ck._only is None or ck._only & {"R19.4", "R19.5", "R19.6"}):
        ck._c18_c19_nested = True
        prev_surface = getattr(ck, "_surface_done", False)
        ck._surface_done = True          # c19.run ends by including this module's rules: not again
        try:
            from rules import c19
            nd_, tb_ = list(ck.not_decided), list(ck.trusted)
            with ck.restrict({"R19.4", "R19.5", "R19.6"}):
                c19.run(ck, facts, tier)
            ck.not_decided[:], ck.trusted[:] = nd_, tb_
        finally:
            ck._surface_done = prev_surface
            ck._c18_c19_nested = False
    ck.not_decided += ["nothing dynamic is claimed; refusal is by panic! (divergence), as the statement's 'refused rather than computed'"]
    ck.trusted += ["lib/cel.py structural match evaluation", "lib/oracle.py"]


def unary_expected(ev, facts, op, k):
    u = payload(k, "u")
    if k == "F64":
        if op == "neg":
            return -u
        if op == "pow":
            return cel.powf(u, Poly.atom("p"))
        if op == "exp":
            return cel.func_atom("exp", u)
        if op == "log":
            return cel.func_atom("ln", u)
        if op == "norm_cdf":
            return cel.func_atom("Phi", u)
        if op == "inv_norm_cdf":
            return cel.func_atom("PhiInv", u)
        if op == "abs":
            return cel.func_atom("abs", u)
    num = D1 if k == "Dual" else D2
    if op == "abs":
        fn = [r for r in facts.all_fns() if r.get("trait_item") == "num_traits::Signed::abs" and r.get("self_ty") == num]
        return ev.apply_fn(fn[0]["fn"], [u], 0)
    want = oracle.expected(op, u, None, Poly.atom("p") if op == "pow" else None)
    f = {"real": want["real"], "dual": want["dual"], "vars": u.fields["vars"]}
    if k == "Dual2":
        f["dual2"] = want["dual2"]
    return Rec(num, f)


def contained_cmp(ev, facts, ti, kl, kr):
    ty = {"F64": "f64", "Dual": D1, "Dual2": D2}
    a, b = payload(kl, "u"), payload(kr, "v")
    if kl == "F64" and kr == "F64":
        if ti.endswith("::eq"):
            return cel.cmp_sym("Eq", a, b)
        return Sym("partial_cmp", a.key(), b.key())
    for r in facts.all_fns():
        if r.get("trait_item") == ti and [c01.base(t) for t in r["sig"]] == [ty[kl], ty[kr]]:
            return ev.apply_fn(r["fn"], [a, b], 0)
    raise Unsupported("no impl of %s for (%s,%s)" % (ti, kl, kr))
