"""Necessary-condition rules shared across properties: a property whose statement builds on another's mechanism includes that mechanism's rules,
so that a breaking change is reported by every property it falsifies (not only by the one the mechanism is anchored in)."""


def _quiet(ck, fn):
    nd, tb = list(ck.not_decided), list(ck.trusted)
    fn()
    ck.not_decided[:], ck.trusted[:] = nd, tb


def include_ad(ck, facts, tier):
    """Exactness of the AD operator rules (C01 R01.x, C02 R02.x) and of variable alignment (C03): whatever carries sensitivities rests on them."""
    from rules import c01, c02, c03
    _quiet(ck, lambda: c01.run_order(ck, facts, "dual::dual::Dual", "R01", ["real", "dual"]))
    _quiet(ck, lambda: c01.run_order(ck, facts, "dual::dual::Dual2", "R02", ["real", "dual", "dual2"]))
    _quiet(ck, lambda: c03.run(ck, facts, tier))


def include_alignment(ck, facts, tier):
    from rules import c03
    _quiet(ck, lambda: c03.run(ck, facts, tier))
