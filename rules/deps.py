"""Necessary-condition rules shared across properties: a property whose statement builds on another's mechanism includes that mechanism's rules,
so that a breaking change is reported by every property it falsifies (not only by the one the mechanism is anchored in)."""


def _quiet(ck, fn):
    nd, tb = list(ck.not_decided), list(ck.trusted)
    fn()
    ck.not_decided[:], ck.trusted[:] = nd, tb


def _admits(ck, rids):
    return ck._only is None or bool(ck._only & set(rids))


def include_ad(ck, facts, tier):
    """Exactness of the AD operator rules (C01 R01.x, C02 R02.x) and of variable alignment (C03): whatever carries sensitivities rests on them."""
    from rules import c01, c02, c03
    _quiet(ck, lambda: c01.run_order(ck, facts, "dual::dual::Dual", "R01", ["real", "dual"]))
    _quiet(ck, lambda: c01.run_order(ck, facts, "dual::dual::Dual2", "R02", ["real", "dual", "dual2"]))
    _quiet(ck, lambda: c03.run(ck, facts, tier))
    include_sums(ck, facts, tier)


def include_sums(ck, facts, tier):
    """Inner products, matrix products and spline sums are `Iterator::sum()` over products: the sum is the left-to-right fold with `+` from a variable-free
    zero (C19 R19.4/R19.5) — an accumulator that drops a Hessian block falsifies every property whose sensitivities pass through a sum."""
    from rules import c19
    if getattr(ck, "_sums_done", False) or not _admits(ck, {"R19.4", "R19.5"}):
        return
    ck._sums_done = True
    prev = getattr(ck, "_surface_done", False)
    ck._surface_done = True          # c19.run ends by including the number surface; not wanted here
    try:
        with ck.restrict({"R19.4", "R19.5"}):
            _quiet(ck, lambda: c19.run(ck, facts, tier))
    finally:
        ck._surface_done = prev


def include_alignment(ck, facts, tier):
    from rules import c03
    _quiet(ck, lambda: c03.run(ck, facts, tier))


def include_panic_guards(ck, facts, tier):
    """C20's reviewed site table justifies some panic edges by guards that other properties' rules decide (the reason column cites them):
    csolve's two length guards (R15.2), add_months' roll rewriting / day capping / month carry (R08.2, R08.3, R08.5), aligned array arithmetic
    (R03.1, R03.3, R03.5), the FX constructor's refusals and index typing (R09.1, R09.2), lag / add_days sign branches (R05.4, R05.5), the named-calendar
    parser's part handling (R06.3) and the FX update's refusal and slot selection (R10.4, R10.6). Removing such a guard leaves the panic edge where it
    was — the site inventory cannot see it — so C20 includes exactly those rules. R11.4 (a curve's nodes are sorted by every constructor and by the loader)
    is the shape invariant of CurveDF that "loading from JSON text returns a value satisfying its type's shape invariants" quantifies over."""
    from rules import c15, c08, c03, c09, c11, c05, c06, c10, c13
    # R13.3: the solver's dimension asserts are reviewed on the basis of the shapes it builds (A^T A is n x n, A^T b is n): the wrong product aborts csolve
    for mod, only in ((c15, {"R15.2"}), (c13, {"R13.3"}), (c08, {"R08.2", "R08.3", "R08.5"}), (c03, {"R03.1", "R03.3", "R03.5"}), (c09, {"R09.1", "R09.2"}), (c11, {"R11.4"}),
                      (c05, {"R05.4", "R05.5"}), (c06, {"R06.3"}), (c10, {"R10.4", "R10.6"})):
        with ck.restrict(only):
            _quiet(ck, lambda: mod.run(ck, facts, tier))
    # "loading from JSON text ... never aborts": a stored form is turned into a value by the derived impls or by a reviewed conversion only — a container
    # attribute that routes loading through an unreviewed (possibly unwrapping) constructor is reported by the storage rules (C16 S16.2/S16.3/S16.7, all types)
    from rules import c16
    _quiet(ck, lambda: c16.run(ck, facts, tier, only_types=r"."))


def include_number_surface(ck, facts, tier):
    """What a user touches is not only `Dual op Dual`: the `Number` container dispatches to the contained rule per kind case (C18 R18.3), iterator sums fold
    with `+` from zero (C19 R19.4), and from Python every operator goes through the `#[pymethods]` wrappers (R18.4). The AD and naming properties hold for a
    user only if those layers pass operands through unchanged, so C01, C02, C03 and C19 include these rules."""
    from rules import c18, c19, pywrap
    if getattr(ck, "_surface_done", False) or not _admits(ck, {"R18.1", "R18.2", "R18.3", "R18.4", "R19.4", "R19.2"}):
        return          # (inside a restriction that mutes these rules nothing would be recorded: leave the flag for the caller that does want them)
    ck._surface_done = True
    with ck.restrict({"R18.1", "R18.2", "R18.3"}):          # R18.1/R18.2: tagging a float at an order and converting between kinds keep value, names and gradients
        _quiet(ck, lambda: c18.run(ck, facts, tier))
    with ck.restrict({"R19.4", "R19.2"}):          # sums; abs (its branches negate value, gradient and Hessian together)
        _quiet(ck, lambda: c19.run(ck, facts, tier))
    _quiet(ck, lambda: pywrap.run(ck, facts, tier))
