"""Gather-by-name semantics shared by C03 and C17: normal forms of arrays built by map/collect or by guarded indexed writes."""
import cel
from cel import Poly, Rec, Alt, Sym, Tup, Seq, Coll, Arr, Unsupported

SOME = ("Some", "_")


def container_elem(cont):
    """@elem hook: element idx of an opaque container is the opaque value at(cont, idx)."""
    if isinstance(cont, Sym):
        return lambda idx, c=cont: Sym("at", cel.vkey(c), idx.key())
    return None


def G(S, T, idxname):
    """get_index_of(S, T[idx])"""
    t = Sym("at", cel.vkey(T), Poly.atom(idxname).key())
    return Sym("m", "get_index_of", cel.vkey(S), (cel.vkey(t),))


def payload(X):
    return Sym("payload", cel.vkey(X), 0)


def read(A, *idx):
    if len(idx) == 1:
        return Poly.atom(("call", "index", (cel.vkey(A), cel.vkey(idx[0]))))
    return Poly.atom(("call", "index", (cel.vkey(A), cel.vkey(Tup(list(idx))))))


def nf(value, ndim):
    """Normal form of an array-valued result: (dims-source keys, default key, {frozenset(guards): value key}) or None."""
    names = ["i%d" % k for k in range(ndim)]
    if isinstance(value, Coll) and ndim == 1:
        el = value.seq.fn(Poly.atom("i0"))
        cases = {}
        default = Poly.const(0).key()
        if isinstance(el, Alt):
            for g, v in el.alts:
                if cel.vkey(v) == default:
                    continue
                cases[frozenset([g])] = cel.vkey(v)
        else:
            cases[frozenset()] = cel.vkey(el)
        return ((cel.vkey(value.seq.src),), default, cases)
    if isinstance(value, Arr):
        cases = {}
        srcs = None
        for w in value.writes:
            if [cel.vkey(i) for i in w["idx"]] != [Poly.atom(n).key() for n in names]:
                return None
            if tuple(l[0] for l in w["loops"]) != tuple(names):
                return None
            srcs = tuple(l[1] for l in w["loops"])
            cases[frozenset(w["guards"])] = cel.vkey(w["val"])
        return (srcs, cel.vkey(value.base), cases)
    return None


def expected_gather1(S, T, A, scale=1):
    g = G(S, T, "i0")
    return ((cel.vkey(T),), Poly.const(0).key(), {frozenset([("arm", SOME, cel.vkey(g))]): (read(A, payload(g)).scale(scale)).key()})


def expected_gather2(S, T, A2, scale=1, transposed=False):
    g0, g1 = G(S, T, "i0"), G(S, T, "i1")
    idx = (payload(g1), payload(g0)) if transposed else (payload(g0), payload(g1))
    return ((cel.vkey(T), cel.vkey(T)), Poly.const(0).key(),
            {frozenset([("arm", SOME, cel.vkey(g0)), ("arm", SOME, cel.vkey(g1))]): (read(A2, *idx).scale(scale)).key()})


def is_gather1(value, S, T, A, scale=1):
    return nf(value, 1) == expected_gather1(S, T, A, scale)


def is_gather2(value, S, T, A2, scale=1):
    n = nf(value, 2)
    return n is not None and (n == expected_gather2(S, T, A2, scale) or n == expected_gather2(S, T, A2, scale, True))
