"""C19 — ordering, sign, remainder, sums and identities are coherent with the value."""
import re
import cel, oracle, hir
from cel import Poly, Rec, Alt, Sym, Unsupported
from rules import c01

NUMS = ("dual::dual::Dual", "dual::dual::Dual2")


def short(n):
    return re.sub(r"dual::dual(_ops::\w+)?::", "", n)


def _noclos(k):
    """A value key with closure identities dropped (two evaluations of the same body mint different closure objects)."""
    if isinstance(k, tuple):
        if len(k) == 2 and k[0] == "closure":
            return ("closure",)
        return tuple(_noclos(x) for x in k)
    return k


def run(ck, facts, tier):
    ev = cel.Ev(facts)
    # ---- R19.1 ordering depends only on the values, via f64::partial_cmp in operand order
    r1 = ck.rule("R19.1", "every partial_cmp among Dual/Dual2/f64 is f64::partial_cmp(lhs value, rhs value) in operand order, reading only `.real`", floor=6)
    for r in facts.all_fns():
        if r.get("trait_item") != "std::cmp::PartialOrd::partial_cmp":
            continue
        tys = [c01.base(t) for t in r["sig"]]
        if not all(t in NUMS + ("f64",) for t in tys) or all(t == "f64" for t in tys):
            continue
        where = "%s:%d" % (r["file"], r["line"])
        vals = [cel.operand("uv"[i], t) for i, t in enumerate(tys)]
        want = []
        for v in vals:
            want.append(v.fields["real"] if isinstance(v, Rec) else v)
        try:
            got = ev.apply_fn(r["fn"], vals, 0)
        except Unsupported as e:
            ck.fail(r1, short(r["fn"]), "rule could not be established (%s)" % e, where)
            continue
        ok = isinstance(got, Sym) and got.tag == ("partial_cmp", want[0].key(), want[1].key())
        ck.check(r1, short(r["fn"]), ok, "comparison is not f64::partial_cmp(u.real, v.real): %r" % (got,), where, sample="partial_cmp(%s, %s)" % (want[0].fmt(), want[1].fmt()))
    # partial_cmp must be the only overridden comparison (lt/le/gt/ge derive from it)
    for r in facts.all_fns():
        ti = r.get("trait_item") or ""
        if ti.startswith("std::cmp::PartialOrd::") and ti != "std::cmp::PartialOrd::partial_cmp" and any(n in (r.get("impl") or r.get("self_ty") or "") for n in NUMS + ("::Number",)):
            ck.fail(r1, short(r["fn"]), "PartialOrd::%s overridden: comparison operators no longer follow partial_cmp" % ti.rsplit("::", 1)[-1], "%s:%d" % (r["file"], r["line"]))

    # ---- R19.1b comparisons on the Number container, per kind case
    from rules import c18
    r1b = ck.rule("R19.1b", "comparisons involving the Number container: for every non-mixed kind case the result is f64::partial_cmp(lhs value, rhs value) in operand order", floor=13)
    for r in facts.all_fns():
        if r.get("trait_item") != "std::cmp::PartialOrd::partial_cmp":
            continue
        tys = [c01.base(t) for t in r["sig"]]
        if c18.NUM not in tys or not all(t in (c18.NUM, "f64") for t in tys):
            continue
        where = "%s:%d" % (r["file"], r["line"])
        for kl in (c18.KINDS if tys[0] == c18.NUM else ("F64",)):
            for kr in (c18.KINDS if tys[1] == c18.NUM else ("F64",)):
                if {kl, kr} == {"Dual", "Dual2"}:
                    continue
                a = c18.number(kl, "u") if tys[0] == c18.NUM else Poly.atom("u")
                b = c18.number(kr, "v") if tys[1] == c18.NUM else Poly.atom("v")
                val = lambda k, n: Poly.atom(n) if k == "F64" else Poly.atom(n + ".real")
                key = "%s[%s,%s]" % (short(r["fn"]), kl, kr)
                try:
                    got = ev.apply_fn(r["fn"], [a, b], 0)
                except Unsupported as e:
                    ck.fail(r1b, key, "rule could not be established (%s)" % e, where)
                    continue
                ck.check(r1b, key, isinstance(got, Sym) and got.tag == ("partial_cmp", val(kl, "u").key(), val(kr, "v").key()),
                         "Number comparison for (%s,%s) is not f64::partial_cmp(lhs value, rhs value): %r" % (kl, kr, got), where, sample="partial_cmp(u, v) on the values")

    # ---- R19.2 abs
    r2 = ck.rule("R19.2", "abs: on the branch value > 0 (or >= 0) every field is unchanged; on the other branch value, gradient (and Hessian) are all negated", floor=2)
    for num in NUMS:
        for r in facts.all_fns():
            if r.get("trait_item") != "num_traits::Signed::abs" or r.get("self_ty") != num:
                continue
            where = "%s:%d" % (r["file"], r["line"])
            u = cel.operand("u", num)
            try:
                got = ev.apply_fn(r["fn"], [u], 0)
            except Unsupported as e:
                ck.fail(r2, short(r["fn"]), "rule could not be established (%s)" % e, where)
                continue
            flds = ["real", "dual"] + (["dual2"] if num.endswith("2") else [])
            pos_guard = {("sym", "cmp", "Lt", (-u.fields["real"]).key()), ("sym", "cmp", "Le", (-u.fields["real"]).key())}
            ok = isinstance(got, Alt) and len(got.alts) == 2 and got.alts[0][0][0] == "if" and got.alts[0][0][1] in pos_guard
            if ok:
                pos, neg = got.alts[0][1], got.alts[1][1]
                ok = isinstance(pos, Rec) and isinstance(neg, Rec) and all(pos.fields[f] == u.fields[f] for f in flds) and all(neg.fields[f] == -u.fields[f] for f in flds)
            else:
                # mirrored spelling: `if real < 0 { negate } else { keep }`
                neg_guard = {("sym", "cmp", "Lt", u.fields["real"].key()), ("sym", "cmp", "Le", u.fields["real"].key())}
                ok = isinstance(got, Alt) and len(got.alts) == 2 and got.alts[0][0][1] in neg_guard
                if ok:
                    neg, pos = got.alts[0][1], got.alts[1][1]
                    ok = isinstance(pos, Rec) and isinstance(neg, Rec) and all(pos.fields[f] == u.fields[f] for f in flds) and all(neg.fields[f] == -u.fields[f] for f in flds)
            ck.check(r2, short(r["fn"]), ok, "abs does not flip value and all derivatives together on the negative branch only: %s" % cel.vfmt(got)[:400], where,
                     sample="u.real>0: unchanged; else all of (%s) negated" % ",".join(flds))

    # ---- R19.3 remainder
    r3 = ck.rule("R19.3", "a % b = a - trunc(a.value/b.value)*b in value and derivatives, for every Dual/Dual2/float operand mix (oracle row `rem`)", floor=60)
    for num in NUMS:
        flds = ["real", "dual"] + (["dual2"] if num.endswith("2") else [])
        n = 0
        for r, op, ks in c01.impls(facts, num):
            if op == "rem":
                c01.check_body(ck, r3, facts, r, op, ks, num, flds, ev)
                # "the truncated quotient" is trunc of ONE floating-point division of the two values: a quotient taken from a dual-number division
                # (a * b^-1, rounded twice) can land an ulp below an integer and lose a whole multiple
                for e in hir.walk(r["body"]):
                    is_trunc = (e.get("k") == "call" and (e["f"].get("def") or "").endswith("::trunc")) or (e.get("k") == "mcall" and e["m"] == "trunc")
                    if is_trunc:
                        arg = e["args"][0] if e.get("k") == "call" else e["recv"]
                        while arg.get("k") in ("ref", "paren") or (arg.get("k") == "block" and not arg["stmts"] and "e" in arg):
                            arg = arg["e"]
                        okq = arg.get("k") == "bin" and arg["op"] == "Div" and all((x.get("ty") or "").replace("&", "").strip() == "f64" for x in (arg["l"], arg["r"]))
                        ck.check(r3, re.sub(r"dual::(dual|enums)(_ops::\w+)?::", "", r["fn"]) + ":quotient", okq,
                                 "the truncated quotient is not trunc(one f64 division of the two values): %s" % hir.fmt(arg)[:160], "%s:%d" % (r["file"], r["line"]), sample="trunc(a.real / b.real)")

    # ---- R19.4 sum
    r4 = ck.rule("R19.4", "Sum::sum = iter.fold(zero, |acc, x| acc + x) with a variable-free zero (left-to-right addition from zero); the container folds from F64(0.0) with its own +", floor=3)
    for num in NUMS:
        rs = [r for r in facts.all_fns() if r.get("trait_item") == "std::iter::Sum::sum" and r.get("self_ty") == num and r["sig"][0] == "I"]
        if not rs:
            ck.fail(r4, "Sum for " + num.split("::")[-1], "impl not found")
            continue
        r = rs[0]
        where = "%s:%d" % (r["file"], r["line"])
        # evaluated symbolically (so the fold may sit in the impl or in a generic helper it calls): the result is fold(items; zero; acc -> acc + item) with the
        # contained type's own addition rule and a variable-free zero
        key = "Sum for " + num.split("::")[-1]
        try:
            item = cel.operand("x", num)
            it = cel.Seq(Sym("param", "iter"), lambda idx, item=item: item)
            got = cel.Ev(facts).apply_fn(r["fn"], [it], 0)
            ok = isinstance(got, Sym) and got.tag[0] == "fold" and got.tag[1] == cel.vkey(Sym("param", "iter"))
            why = "sum is not a fold over the items: %s" % cel.vfmt(got)[:200]
            if ok:
                acc = cel.operand("acc", num)
                flds = ["real", "dual"] + (["dual2"] if num.endswith("2") else [])
                zero = Rec(num, dict({"real": Poly.const(0), "dual": Poly({}, 1), "vars": Sym("novars")}, **({"dual2": Poly({}, 2)} if num.endswith("2") else {})))
                want = oracle.expected("add", acc, item)
                add_fn = next(rr["fn"] for rr in facts.all_fns() if rr.get("trait_item") == "std::ops::Add::add" and rr.get("sig") == [num, num])
                step_l = cel.Ev(facts).apply_fn(add_fn, [acc, item], 0)
                ok = got.tag[2] == cel.vkey(zero)
                why = "the fold does not start from a variable-free zero"
                if ok:
                    ok = got.tag[3] == cel.vkey(step_l) and isinstance(step_l, Rec) and all(step_l.fields.get(f) == want[f] for f in flds)
                    why = "the fold step is not `acc + item` by the addition rule"
            ck.check(r4, key, ok, why, where, detail=cel.vfmt(got)[:300], sample="iter.fold(new(0.0, []), |acc, x| acc + x)")
        except Unsupported as e:
            ck.fail(r4, key, "rule could not be established (%s)" % e, where)

    # the container's sum is the same fold: it starts from the plain-float zero (so the first item decides the kind, and a Dual2 sequence is not met by a Dual
    # accumulator) and every step is the container's own `+` — one accumulator, so a kind mix is refused by that `+` exactly where R18 says it is
    NUMBER = "dual::enums::Number"
    rs = [r for r in facts.all_fns() if r.get("trait_item") == "std::iter::Sum::sum" and r.get("self_ty") == NUMBER and r["sig"][0] == "I"]
    if not rs:
        ck.fail(r4, "Sum for Number", "impl not found")
    else:
        r = rs[0]
        where = "%s:%d" % (r["file"], r["line"])
        try:
            item = Sym("param", "x"); item.ty = NUMBER
            acc = Sym("acc"); acc.ty = NUMBER
            it = cel.Seq(Sym("param", "iter"), lambda idx, item=item: item)
            # the contained additions are judged by R01.1/R02.1/R18.3: here each is one opaque step, so only the container's own dispatch is compared
            inner_add = {rr["fn"]: (lambda ev, vals, e: Sym("plus", *[cel.vkey(v) for v in vals])) for rr in facts.all_fns()
                         if rr.get("trait_item") == "std::ops::Add::add" and NUMBER not in [c01.base(t) for t in rr.get("sig", [])]}
            got = cel.Ev(facts, hooks=inner_add).apply_fn(r["fn"], [it], 0)
            ok = isinstance(got, Sym) and got.tag[0] == "fold" and got.tag[1] == cel.vkey(Sym("param", "iter"))
            why = "sum is not a single fold over the items: %s" % cel.vfmt(got)[:200]
            if ok:
                ok = got.tag[2] == cel.vkey(Sym("ctor", "F64", Poly.const(0)))
                why = "the fold does not start from the plain-float zero F64(0.0)"
            if ok:
                add_fn = next(rr["fn"] for rr in facts.all_fns() if rr.get("trait_item") == "std::ops::Add::add" and rr.get("sig") == [NUMBER, NUMBER])
                step = cel.Ev(facts, hooks=inner_add).apply_fn(add_fn, [acc, item], 0)
                ok = _noclos(got.tag[3]) == _noclos(cel.vkey(step))
                why = "the fold step is not the container's `acc + item`"
            ck.check(r4, "Sum for Number", ok, why, where, detail=cel.vfmt(got)[:300], sample="iter.fold(Number::F64(0.0), |acc, x| acc + x)")
        except Unsupported as e:
            ck.fail(r4, "Sum for Number", "rule could not be established (%s)" % e, where)

    # ---- R19.5 identities
    r5 = ck.rule("R19.5", "zero() = new(0, []) and one() = new(1, []): variable-free constants (neutral under the R01.1/R02.1 forms of + and *); the container's are F64(0.0)/F64(1.0)", floor=6)
    for num in NUMS:
        for ti, c in (("num_traits::Zero::zero", 0), ("num_traits::One::one", 1)):
            rs = [r for r in facts.all_fns() if r.get("trait_item") == ti and r.get("self_ty") == num]
            key = "%s for %s" % (ti.rsplit("::", 1)[-1], num.split("::")[-1])
            if not rs:
                ck.fail(r5, key, "impl not found")
                continue
            r = rs[0]
            try:
                v = ev.apply_fn(r["fn"], [], 0)
                ok = isinstance(v, Rec) and v.fields["real"].const_value() == c and v.fields["dual"].is_zero() and v.fields["vars"].tag == ("novars",)
            except Unsupported as e:
                ok, v = False, e
            ck.check(r5, key, ok, "identity element is not the variable-free constant %d: %s" % (c, v), "%s:%d" % (r["file"], r["line"]), sample="new(%d.0, [])" % c)
    # the container's identities are the plain-float constants: a Dual or Dual2 identity would refuse (R18) the other kind in `zero() + x` / `one() * x`
    for ti, c in (("num_traits::Zero::zero", 0), ("num_traits::One::one", 1)):
        rs = [r for r in facts.all_fns() if r.get("trait_item") == ti and r.get("self_ty") == "dual::enums::Number"]
        key = "%s for Number" % ti.rsplit("::", 1)[-1]
        if not rs:
            ck.fail(r5, key, "impl not found")
            continue
        r = rs[0]
        try:
            v = ev.apply_fn(r["fn"], [], 0)
            ok = cel.vkey(v) == cel.vkey(Sym("ctor", "F64", Poly.const(c)))
        except Unsupported as e:
            ok, v = False, e
        ck.check(r5, key, ok, "identity element is not the plain float F64(%d.0): %s" % (c, cel.vfmt(v)[:160] if not isinstance(v, Exception) else v), "%s:%d" % (r["file"], r["line"]), sample="Number::F64(%d.0)" % c)
    # neutrality as a consequence: plug the constant into the oracle rows
    u = cel.operand("u", "dual::dual::Dual2")
    z = Rec("dual::dual::Dual2", {"real": Poly.const(0), "dual": Poly({}, 1), "dual2": Poly({}, 2)})
    o = Rec("dual::dual::Dual2", {"real": Poly.const(1), "dual": Poly({}, 1), "dual2": Poly({}, 2)})
    ea, em = oracle.expected("add", u, z), oracle.expected("mul", u, o)
    ck.check(r5, "neutrality", all(ea[f] == u.fields[f] and em[f] == u.fields[f] for f in ("real", "dual", "dual2")),
             "oracle rows do not make (0,0,0)/(1,0,0) neutral", sample="u + 0 = u, u * 1 = u in value, gradient and Hessian by the table")
    # ---- R19.6 sign tests and the zero test depend on the value alone
    r6 = ck.rule("R19.6", "signum() = new(signum(value), []) (a variable-free constant); is_positive()/is_negative() are the sign bit of the value; is_zero() is "
                          "`self == zero()` by the type's own ==; the container forwards each to the contained number, kind by kind", floor=20)
    from rules import c18
    D = {"Dual": "dual::dual::Dual", "Dual2": "dual::dual::Dual2"}
    contained = {}
    for meth, ti in (("signum", "num_traits::Signed::signum"), ("is_positive", "num_traits::Signed::is_positive"), ("is_negative", "num_traits::Signed::is_negative"),
                     ("is_zero", "num_traits::Zero::is_zero")):
        for kind, num in D.items():
            rs = [r for r in facts.all_fns() if r.get("trait_item") == ti and r.get("self_ty") == num]
            key = "%s for %s" % (meth, kind)
            if not rs:
                ck.fail(r6, key, "impl not found")
                continue
            r = rs[0]
            where = "%s:%d" % (r["file"], r["line"])
            u = cel.operand("u", num)
            try:
                v = cel.Ev(facts).apply_fn(r["fn"], [u], 0)
                contained[(meth, kind)] = v
                if meth == "signum":
                    ok = isinstance(v, Rec) and v.fields["real"] == cel.func_atom("signum", u.fields["real"]) and v.fields["dual"].is_zero() and \
                        v.fields["vars"].tag == ("novars",) and (kind == "Dual" or cel.num(v.fields["dual2"]).is_zero())
                    why = "signum is not the variable-free constant signum(value): %s" % cel.vfmt(v)[:200]
                elif meth in ("is_positive", "is_negative"):
                    ok = cel.vkey(v) == cel.vkey(Sym("signbit", "pos" if meth == "is_positive" else "neg", u.fields["real"].key()))
                    why = "%s is not the sign bit of the value: %s" % (meth, cel.vfmt(v)[:200])
                else:
                    zero_fn = next(rr["fn"] for rr in facts.all_fns() if rr.get("trait_item") == "num_traits::Zero::zero" and rr.get("self_ty") == num)
                    eq_fn = next(rr["fn"] for rr in facts.all_fns() if rr.get("trait_item") == "std::cmp::PartialEq::eq" and [t.replace("&", "") for t in rr["sig"]] == [num, num])
                    e2 = cel.Ev(facts)
                    want = e2.apply_fn(eq_fn, [u, e2.apply_fn(zero_fn, [], 0)], 0)
                    ok = _noclos(cel.vkey(v)) == _noclos(cel.vkey(want))
                    why = "is_zero is not `self == zero()` by the type's own ==: %s" % cel.vfmt(v)[:200]
                ck.check(r6, key, ok, why, where, sample=cel.vfmt(v)[:120])
            except (Unsupported, StopIteration) as e:
                ck.fail(r6, key, "rule could not be established (%s)" % e, where)
        rs = [r for r in facts.all_fns() if r.get("trait_item") == ti and r.get("self_ty") == "dual::enums::Number"]
        if not rs:
            ck.fail(r6, "%s for Number" % meth, "impl not found")
            continue
        r = rs[0]
        where = "%s:%d" % (r["file"], r["line"])
        for kind in c18.KINDS:
            key = "%s for Number[%s]" % (meth, kind)
            try:
                v = cel.Ev(facts).apply_fn(r["fn"], [c18.number(kind, "u")], 0)
                if kind == "F64":
                    uf = Poly.atom("u")
                    want = {"signum": Sym("ctor", "F64", cel.func_atom("signum", uf)), "is_positive": Sym("signbit", "pos", uf.key()), "is_negative": Sym("signbit", "neg", uf.key()),
                            "is_zero": Sym("cmp", "Eq", uf.key())}[meth]
                else:
                    if (meth, kind) not in contained:
                        raise Unsupported("the contained method was not evaluated")
                    want = Sym("ctor", kind, contained[(meth, kind)]) if meth == "signum" else contained[(meth, kind)]
                ck.check(r6, key, _noclos(cel.vkey(v)) == _noclos(cel.vkey(want)), "Number::%s on %s is not the contained number's: %s" % (meth, kind, cel.vfmt(v)[:200]), where, sample=cel.vfmt(v)[:120])
            except Unsupported as e:
                ck.fail(r6, key, "rule could not be established (%s)" % e, where)
    from rules import deps
    deps.include_number_surface(ck, facts, tier)
    # the remainder, ordering and sums of two numbers on different variable lists go through the alignment (to_union_vars / to_new_vars): its by-name
    # gather, for gradients and Hessians, is a necessary condition of "value and derivatives" here too
    deps.include_alignment(ck, facts, tier)
    ck.not_decided += ["NaN ordering (partial_cmp returns None; derived operators are then all false)", "abs at exactly zero (derivative undefined; either branch accepted)"]
    ck.trusted += ["lib/cel.py", "lib/oracle.py"]
