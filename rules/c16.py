"""C16 — saving and loading gives back an equal object (serialisation configuration lint, engine E7)."""
import json, os, re, subprocess
import hir

# S16.2: the only fields allowed to be skipped, with the constructor that must rebuild them inside the TryFrom conversion
REBUILT = {
    ("calendars::calendar::NamedCal", "union_cal"): r"NamedCal::try_new$",
    ("fx::rates::FXRates", "fx_array"): r"FXRates::try_new$",
}
# S16.8 attributes a non-self-describing binary format (bincode) cannot carry
BINCODE_HOSTILE = re.compile(r"\b(skip_serializing_if|flatten|untagged|tag\s*=|content\s*=|deserialize_any)\b")


def serde_attrs(attrs):
    out = []
    for a in attrs:
        m = re.match(r"#\[serde\((.*)\)\]$", a.replace("\n", " "), re.S)
        if m:
            out.append(m.group(1))
    return out


def strip(e):
    """Erase &, *, clone(), to_owned(), into() wrappers."""
    while True:
        k = e.get("k")
        if k in ("ref",) or (k == "un" and e.get("op") == "Deref"):
            e = e["e"]
        elif k == "mcall" and e["m"] in ("clone", "to_owned", "to_string", "as_str", "as_ref") and not e["args"]:
            e = e["recv"]
        elif k == "block" and not e["stmts"] and "e" in e:
            e = e["e"]
        else:
            return e


def field_path(e):
    """`model.fx_rates` -> ('model','fx_rates'); plain local -> (name,)"""
    e = strip(e)
    if e.get("k") == "field":
        b = field_path(e["e"])
        return b + (e["name"],) if b else None
    if e.get("k") == "path" and e.get("res") == "local":
        return (e["name"],)
    return None


def split_attrs(s):
    """split a serde(...) argument list on top-level commas (not inside quotes or parentheses)"""
    out, cur, q, depth = [], "", False, 0
    for ch in s:
        if ch == '"':
            q = not q
        elif not q and ch in "(<":
            depth += 1
        elif not q and ch in ")>":
            depth -= 1
        if ch == "," and not q and depth <= 0:
            out.append(cur)
            cur = ""
        else:
            cur += ch
    out.append(cur)
    return out


# a loader may normalise a stored field by a transformation that is the identity on every saved object: (type, field) -> (method, why)
NORMALISED = {("curves::curve::CurveDF", "nodes"): ("sort_keys", "the constructor stores nodes sorted (C11 R11.4), so re-sorting a saved curve changes nothing")}


def normalised_copy(body, local, pname, adt, field):
    """Is `local` bound by `let [mut] local = <pname>.<field>` and otherwise only the receiver of the allowed normalising method?"""
    want = NORMALISED.get((adt, field))
    if want is None:
        return False
    inits = [s_ for e in hir.walk(body) if e.get("k") == "block" for s_ in e["stmts"] if s_["k"] == "let" and s_["pat"].get("name") == local]
    if len(inits) != 1 or field_path(inits[0]["init"]) != (pname, field):
        return False
    for e in hir.walk(body):
        if e.get("k") == "mcall" and field_path(e["recv"]) == (local,) and e["m"] != want[0]:
            return False
        if e.get("k") in ("assign", "assignop") and field_path(e.get("l") or e.get("lhs") or {}) == (local,):
            return False
    return True


def returns_rebuilt(facts, conv, ctor):
    """Every Ok path of the conversion returns exactly the value the constructor `ctor` produced (the error may be mapped)."""
    import cel, paths
    from cel import Sym
    built = Sym("rebuilt")
    hk = {ctor: lambda ev, vals, e: cel.Alt([(("if", ("sym", "ctor-ok")), Sym("ctor", "Ok", built)), (("not", ("if", ("sym", "ctor-ok"))), Sym("ctor", "Err", Sym("ctor-error")))])}
    try:
        model = Sym("param", "model")
        got = cel.Ev(facts, hooks=hk).apply_fn(conv["fn"], [model], 0)
    except cel.Unsupported:
        return False
    oks = [v for _, v in paths.flatten(got) if isinstance(v, Sym) and v.tag[:2] == ("ctor", "Ok")]
    return bool(oks) and all(len(v.tag) == 3 and cel.vkey(v.tag[2]) == cel.vkey(built) for v in oks)


def run_types(ck, facts, tier, only_types):
    """S16.2 (+S16.3/S16.7 of the same types) for the serialisable types whose path matches `only_types` — used by properties whose objects may come back from
    storage (a restored calendar must be the calendar that was stored)."""
    ck._c16_type_filter = only_types
    try:
        with ck.restrict({"S16.2", "S16.3", "S16.7"}):
            run(ck, facts, tier)
    finally:
        ck._c16_type_filter = None
    for rid in ("S16.2", "S16.3", "S16.7"):
        if rid in ck.rules:
            ck.rules[rid]["floor"] = min(ck.rules[rid]["floor"], 1)          # the floors are those of the full type list


# types whose constructors validate (C20 R20.6) or that are rebuilt through a validating constructor on loading: their loaders may refuse
CONSTRAINED = {"dual::dual::Dual", "dual::dual::Dual2", "fx::rates::ccy::Ccy", "fx::rates::fxpair::FXPair", "fx::rates::FXRates", "splines::spline::PPSpline",
               "calendars::calendar::NamedCal"}


def refusing_paths(facts, conv, mpath, mt):
    """Number of Err / aborting leaves of the data-model conversion evaluated on an opaque stored object ("?" when it cannot be evaluated)."""
    import cel, paths
    from cel import Sym, Rec
    mfields = [x["name"] for x in mt["variants"][0]["fields"]]
    stored = {n: Sym("stored", n) for n in mfields}
    tuple_like = all(n.isdigit() for n in mfields)
    model = Sym("ctor", mpath.rsplit("::", 1)[-1], *[stored[n] for n in mfields]) if tuple_like else Rec(mpath, dict(stored))
    try:
        got = cel.Ev(facts).apply_fn(conv["fn"], [model], 0)
    except cel.Unsupported:
        return "?"
    n = 0
    for c_, v in paths.flatten(got):
        if isinstance(v, cel.EarlyRet):
            v = v.value
        if isinstance(v, Sym) and (v.tag[:2] == ("ctor", "Err") or v.tag[:1] == ("diverges",)):
            n += 1
    return n


def copies_by_evaluation(facts, conv, adt, mpath, mt, tf):
    """Does every Ok path of the conversion return a value of `adt` whose stored fields are the model's fields, unchanged (a field listed in NORMALISED may
    have passed through its normalising method)? Judged on the symbolically evaluated body, with each model field an opaque stored value."""
    import cel, paths
    from cel import Sym, Rec, vkey
    mfields = [x["name"] for x in mt["variants"][0]["fields"]]
    stored = {n: Sym("stored", n) for n in mfields}
    tuple_like = all(n.isdigit() for n in mfields)
    model = Sym("ctor", mpath.rsplit("::", 1)[-1], *[stored[n] for n in mfields]) if tuple_like else Rec(mpath, dict(stored))
    try:
        got = cel.Ev(facts).apply_fn(conv["fn"], [model], 0)
    except cel.Unsupported:
        return False
    oks = 0
    for c_, v in paths.flatten(got):
        if isinstance(v, Sym) and v.tag[:2] == ("ctor", "Err"):
            continue
        if isinstance(v, Rec) and conv["fn"].endswith("::from") and "TryFrom" not in conv["fn"]:
            x = v          # an infallible `From` conversion returns the value itself
        elif not (isinstance(v, Sym) and v.tag[:2] == ("ctor", "Ok") and len(v.tag) == 3):
            return False
        else:
            x = v.tag[2]
        oks += 1
        for f_ in tf:
            n = f_["name"]
            if isinstance(x, Rec) and x.adt.split("<")[0] == adt:
                have = x.fields.get(n)
            elif isinstance(x, Sym) and x.tag[:2] == ("ctor", adt.rsplit("::", 1)[-1]) and n.isdigit() and int(n) + 2 < len(x.tag):
                have = x.tag[2 + int(n)]
            else:
                return False
            want = [vkey(stored[n])]
            if (adt, n) in NORMALISED:
                want.append(vkey(Sym("mut", NORMALISED[(adt, n)][0], vkey(stored[n]), ())))
            if have is None or vkey(have) not in want:
                return False
    return oks > 0


def run(ck, facts, tier, only_types=None):
    """only_types: a regex; when given (by an including property) only the per-type obligations of S16.2/S16.3/S16.7 for matching types are evaluated"""
    repo = facts.repo
    if only_types is not None:
        return run_types(ck, facts, tier, only_types)
    # ---------------- S16.1
    s1 = ck.rule("S16.1", "the serde_json actually resolved for the build has feature float_roundtrip (exact f64 text round trip) and not arbitrary_precision", floor=2)
    feats = None
    try:
        env = dict(os.environ, CARGO_NET_OFFLINE="true")
        out = subprocess.run(["cargo", "metadata", "--offline", "--format-version", "1", "--manifest-path", os.path.join(repo, "Cargo.toml")],
                             capture_output=True, text=True, env=env, timeout=120)
        md = json.loads(out.stdout)
        root = md["resolve"]["root"]
        rootnode = next(n for n in md["resolve"]["nodes"] if n["id"] == root)
        sj_ids = [d["pkg"] for d in rootnode["deps"] if d["name"] == "serde_json"]
        for n in md["resolve"]["nodes"]:
            if n["id"] in sj_ids:
                feats = n["features"]
    except Exception as e:  # cargo metadata unavailable -> fail closed
        ck.fail(s1, "serde_json:metadata", "cannot resolve the build's serde_json features: %s" % e)
    if feats is not None:
        ck.check(s1, "serde_json", "float_roundtrip" in feats,
                 "serde_json is built without `float_roundtrip`: its default float parser is not exact, so finite f64 contents do not all survive to_json/from_json",
                 "Cargo.toml", sample="features=%s" % feats)
        ck.check(s1, "serde_json:arbitrary_precision", "arbitrary_precision" not in feats, "serde_json `arbitrary_precision` changes number (de)serialisation",
                 "Cargo.toml", sample="absent")

    # serialisable types
    ser = {i["self_ty"].split("<")[0] for i in facts.impls if i.get("trait", "").endswith("Serialize") and i["derived"]} & set(facts.adts)
    des = {i["self_ty"].split("<")[0] for i in facts.impls if i.get("trait", "").endswith("Deserialize") and i["derived"]} & set(facts.adts)
    hand = [i for i in facts.impls if re.search(r"(Serialize|Deserialize)$", i.get("trait", "")) and not i["derived"] and "DataModel" not in i["self_ty"]]

    # ---------------- S16.2 / S16.3 / S16.7
    s2 = ck.rule("S16.2", "every field of a serialisable type is serialised, or is serde(skip) on a type that deserialises through a data model whose conversion "
                          "calls the constructor that recomputes it; no other skip/default/with/rename attribute may appear", floor=40)
    s3 = ck.rule("S16.3", "writer/reader agreement: a data model used by serde(try_from/from) has exactly the serialised (non-skipped) fields of its type — "
                          "same names (after rename), same order, same types", floor=2)
    s7 = ck.rule("S16.7", "the rebuild passes stored state through unchanged: FXRates::try_new(model.fx_rates, Some(*model.currencies.first())), "
                          "NamedCal::try_new(&model.name), and data-model conversions of plain types copy every field from the model", floor=2)
    s8 = ck.rule("S16.8", "no serde attribute that bincode (non-self-describing) cannot carry on any serialisable type", floor=36)
    ck.check(s2, "hand-written-impls", not hand, "hand-written Serialize/Deserialize impl(s) not modelled: %s" % [h["impl"] for h in hand[:3]], sample="all derived")
    type_filter = getattr(ck, "_c16_type_filter", None)
    for adt in sorted(ser | des):
        if type_filter is not None and not re.search(type_filter, adt):
            continue
        a = facts.astadt.get(adt)
        t = facts.adts.get(adt)
        if a is None or t is None:
            ck.fail(s2, adt, "serialisable type not found in the ADT tables")
            continue
        where = "%s:%d" % (t["file"], t["line"])
        cattrs = serde_attrs(a["attrs"])
        call = " ".join(cattrs)
        ck.check(s8, adt, not BINCODE_HOSTILE.search(call) and not any(BINCODE_HOSTILE.search(" ".join(serde_attrs(f["attrs"])))
                 for v in ([a] if a["kind"] == "struct" else a["variants"]) for f in v.get("fields", [])) and
                 not any(BINCODE_HOSTILE.search(" ".join(serde_attrs(v["attrs"]))) for v in a.get("variants", [])),
                 "serde attribute not representable in bincode on %s: %s" % (adt, call), where, sample="container attrs: %s" % (cattrs or "none"))
        model = None
        m = re.search(r'(try_from|from)\s*=\s*"([^"]+)"', call)
        unknown = [x for x in split_attrs(call) if x.strip() and not re.match(r'\s*(try_from|from)\s*=', x)]
        if unknown:
            ck.fail(s2, adt + ":container-attr", "container attribute(s) %s change the serialised form and are not modelled" % unknown, where)
        if m:
            model = m.group(2).split("<")[0]
        groups = [("", a)] if a["kind"] == "struct" else [(v["name"] + ".", v) for v in a["variants"]]
        if a["kind"] == "enum":
            for v in a["variants"]:
                va = serde_attrs(v["attrs"])
                ck.check(s2, "%s:%s" % (adt, v["name"]), not va, "variant attribute %s changes the serialised form" % va, where, sample="variant serialised under its own name")
        skipped = []
        for pref, g in groups:
            for f in g.get("fields", []):
                fa = " ".join(serde_attrs(f["attrs"]))
                key = "%s:%s%s" % (adt, pref, f["name"] or "#")
                if not fa:
                    ck.ok(s2, key, sample="serialised")
                    continue
                if re.fullmatch(r"\s*skip\s*", fa) and (adt, f["name"]) in REBUILT and model:
                    skipped.append(f["name"])
                    continue  # judged below with the conversion
                ck.fail(s2, key, "field attribute serde(%s): the field does not travel and nothing rebuilds it (or its representation is altered)" % fa, where)
        if not model:
            continue
        # locate the data model (same module as the type) and the conversion
        mod = adt.rsplit("::", 1)[0]
        mpath = mod + "::" + model
        ma, mt = facts.astadt.get(mpath), facts.adts.get(mpath)
        if ma is None or mt is None:
            ck.fail(s3, adt, "data model %s not found" % mpath, where)
            continue
        tf = [v for v in t["variants"][0]["fields"] if v["name"] not in skipped]
        mf = mt["variants"][0]["fields"]
        mattrs = [x for f in ma.get("fields", []) for x in serde_attrs(f["attrs"])] + serde_attrs(ma["attrs"])
        # internment::Intern<T> serialises exactly as T (its serde impls forward to the inner value)
        wire = lambda ty: re.sub(r"internment::Intern<(.*)>", r"\1", ty)
        same = [(x["name"], wire(x["ty"])) for x in tf] == [(x["name"], wire(x["ty"])) for x in mf]
        ck.check(s3, adt, same and not mattrs,
                 "data model %s %s does not mirror the serialised fields %s of %s (attrs on the model: %s)"
                 % (model, [(x["name"], x["ty"]) for x in mf], [(x["name"], x["ty"]) for x in tf], adt, mattrs), where,
                 sample="%s mirrors %d serialised field(s): %s" % (model, len(tf), [x["name"] for x in tf]))
        conv = [r for r in facts.all_fns() if re.search(r"(TryFrom|From)<[\w:]*%s(<.*>)?>>::(try_from|from)$" % re.escape(model), r["fn"]) and adt in r["fn"]]
        if not conv:
            ck.fail(s7, adt, "no conversion body from %s found" % model, where)
            continue
        c = conv[0]
        pname = c["params"][0].get("name")
        cwhere = "%s:%d" % (c["file"], c["line"])
        if adt.split("<")[0] not in CONSTRAINED:
            # a type without a shape invariant: every stored object is well-formed, so its loader has nothing to refuse ("for all finite floating-point contents")
            ref = refusing_paths(facts, c, mpath, mt)
            s11 = ck.rule("S16.11", "the loader of a type that has no shape invariant (curves, plain and union calendars, quotes) refuses nothing: its conversion has no Err "
                                    "and no aborting path — whatever was saved loads", floor=1)
            ck.check(s11, adt, ref == 0, "the conversion from %s can refuse or abort (%s path(s)) although the type constrains nothing: a saved object may not load" % (model, ref),
                     cwhere, sample="no refusing path")
        if skipped:
            want = REBUILT[(adt, skipped[0])]
            calls = [e for e in hir.walk(c["body"]) if e.get("k") == "call" and re.search(want, e["f"].get("def", "") or "")]
            if not calls:
                ck.fail(s2, "%s:%s" % (adt, skipped[0]), "skipped field `%s` is not rebuilt: conversion from %s does not call %s" % (skipped[0], model, want), cwhere)
                continue
            ck.ok(s2, "%s:%s" % (adt, skipped[0]), sample="serde(skip), rebuilt by %s inside %s" % (calls[0]["f"]["def"], c["fn"]))
            # what the conversion returns is what the constructor built — not a copy with a field put back from the stored document
            ck.check(s7, adt + ":returns-the-rebuilt-value", returns_rebuilt(facts, c, calls[0]["f"].get("resolved") or calls[0]["f"].get("def")),
                     "the conversion does not return the constructor's result unchanged (a field is overwritten after the rebuild)", cwhere, sample="Ok(rebuilt)")
            args = calls[0]["args"]
            if adt.endswith("NamedCal"):
                ok = len(args) == 1 and field_path(args[0]) == (pname, "name")
                ck.check(s7, adt, ok, "NamedCal is not rebuilt from the stored name unchanged: %s" % hir.fmt(calls[0]), cwhere, sample=hir.fmt(calls[0]))
            elif adt.endswith("FXRates"):
                ok0 = len(args) == 2 and field_path(args[0]) == (pname, "fx_rates")
                base = strip(args[1]) if len(args) == 2 else {}
                ok1 = False
                if hir.ctor_name(base) == "Some" and len(base["args"]) == 1:
                    b = strip(base["args"][0])
                    if b.get("k") == "path" and b.get("res") == "local":
                        # find its definition: must be model.currencies.first() (possibly ok_or_else(..)? around it)
                        for e in hir.walk(c["body"]):
                            if e.get("k") == "block":
                                for s in e["stmts"]:
                                    if s["k"] == "let" and s["pat"].get("name") == b["name"]:
                                        firsts = [x for x in hir.walk(s["init"]) if x.get("k") == "mcall" and x["m"] == "first"
                                                  and field_path(x["recv"]) == (pname, "currencies")]
                                        idx0 = [x for x in hir.walk(s["init"]) if x.get("k") == "index" and field_path(x["e"]) == (pname, "currencies")
                                                and strip(x["i"]).get("v") == "0"]
                                        get0 = [x for x in hir.walk(s["init"]) if x.get("k") == "mcall" and x["m"] in ("get_index", "get", "iter") and field_path(x["recv"]) == (pname, "currencies")
                                                and ((x["m"] == "iter" and any(y.get("k") == "mcall" and y["m"] == "next" and y["recv"] is x for y in hir.walk(s["init"]))) or
                                                     (x["m"] != "iter" and len(x["args"]) == 1 and strip(x["args"][0]).get("v") == "0"))]          # get_index(0) / get(0) / iter().next()
                                        ok1 = bool(firsts or idx0 or get0)
                ck.check(s7, adt, ok0 and ok1, "FXRates is not rebuilt as try_new(model.fx_rates, Some(first stored currency)): %s" % hir.fmt(calls[0]), cwhere,
                         sample="try_new(model.fx_rates, Some(*model.currencies.first()))")
        else:
            # plain validating model: the Ok(..) struct literal copies every field from the model
            lits = [e for e in hir.walk(c["body"]) if (e.get("k") == "struct" or (e.get("k") == "call" and e["f"].get("dk", "").startswith("Ctor")
                    and "Option" not in e["f"].get("def", "") and "Result" not in e["f"].get("def", ""))) and (e.get("ty") or "").split("<")[0] == adt]
            viactor = [e for e in hir.walk(c["body"]) if e.get("k") == "call" and re.search(r"::try_new$", e["f"].get("def", "") or "")]
            if lits:
                e = lits[0]
                if e["k"] == "struct":
                    pairs = [(n, field_path(v)) for n, v in e["fields"]]
                    def via_sorter(n, v):
                        # `field: model.field.into_sorted()` — a consuming wrapper every path of which sorts (rules/c11.sorting_wrappers) on an allowed field
                        v = strip(v)
                        if (adt, n) in NORMALISED and v.get("k") == "mcall" and not v["args"] and field_path(v["recv"]) == (pname, n):
                            import cfg as cfgmod_
                            from rules import c11
                            return (v.get("resolved") or v.get("callee") or "") in c11.sorting_wrappers(cfgmod_.Program(facts))
                        return False
                    ok = all(fp == (pname, n) or (fp is not None and len(fp) == 1 and normalised_copy(c["body"], fp[0], pname, adt, n)) or via_sorter(n, v_)
                             for (n, fp), (_, v_) in zip(pairs, e["fields"])) and \
                        [n for n, _ in pairs] == [x["name"] for x in tf]
                else:
                    pairs = [(str(i), field_path(v)) for i, v in enumerate(e["args"])]
                    ok = all(fp == (pname, n) for n, fp in pairs) and len(pairs) == len(tf)
                if not ok:
                    ok = copies_by_evaluation(facts, c, adt, mpath, mt, tf)          # the same statement judged on the evaluated body (destructuring, delegation to another loader, helpers)
                ck.check(s7, adt, ok, "conversion does not copy every stored field unchanged: %s" % hir.fmt(e), cwhere, sample=hir.fmt(e))
            elif viactor:
                e = viactor[0]
                srcs = [field_path(x) for x in e["args"]]
                ck.check(s7, adt, all(s and s[0] == pname for s in srcs) and len(srcs) == len(tf),
                         "constructor call does not receive every stored field: %s" % hir.fmt(e), cwhere, sample=hir.fmt(e))
            elif copies_by_evaluation(facts, c, adt, mpath, mt, tf):
                ck.ok(s7, adt, sample="every Ok path returns the stored fields unchanged (evaluated through the helpers the conversion calls)")
            else:
                ck.fail(s7, adt, "conversion from %s builds the value in a way the rule does not recognise" % model, cwhere)

    # ---------------- S16.4 tagged entry point
    s4 = ck.rule("S16.4", "DeserializedObj has one variant per type with a to_json py-method, payload = that type; every to_json wraps self in the variant "
                          "whose payload is its own type and serialises through JSON::to_json", floor=20)
    dobj = facts.adts.get("json::json_py::DeserializedObj")
    if not dobj:
        ck.fail(s4, "DeserializedObj", "enum not found")
    else:
        payload = {v["name"]: (v["fields"][0]["ty"] if len(v["fields"]) == 1 else None) for v in dobj["variants"]}
        tj = [r for r in facts.all_fns() if r["fn"].endswith("::to_json_py")]
        types_with_to_json = set()
        for r in tj:
            st = r.get("self_ty")
            types_with_to_json.add(st)
            wraps = [e for e in hir.walk(r["body"]) if e.get("k") == "call" and e["f"].get("def", "").startswith("json::json_py::DeserializedObj::")]
            tojson = [e for e in hir.walk(r["body"]) if e.get("k") == "mcall" and e["m"] == "to_json"]
            where = "%s:%d" % (r["file"], r["line"])
            if len(wraps) != 1 or not tojson:
                ck.fail(s4, "to_json:" + st, "to_json does not wrap self in a DeserializedObj variant and call to_json", where)
                continue
            var = wraps[0]["f"]["def"].rsplit("::", 1)[1]
            arg = strip(wraps[0]["args"][0])
            isself = arg.get("k") == "path" and arg.get("name") == "self"
            ck.check(s4, "to_json:" + st, payload.get(var) == st and isself and strip(tojson[0]["recv"]) is wraps[0] or
                     (payload.get(var) == st and isself and hir.fmt(strip(tojson[0]["recv"])) == hir.fmt(wraps[0])),
                     "to_json of %s wraps %s in variant %s whose payload is %s" % (st, hir.fmt(arg), var, payload.get(var)), where,
                     sample="DeserializedObj::%s(self.clone()).to_json()" % var)
        for var, ty in payload.items():
            ck.check(s4, "variant:" + var, ty in types_with_to_json, "variant %s(%s) has no to_json writer" % (var, ty), sample=ty)
        for st in types_with_to_json:
            ck.check(s4, "type:" + st, st in payload.values(), "%s has to_json but no DeserializedObj variant: from_json cannot load it" % st, sample="has variant")
        da = facts.astadt.get("json::json_py::DeserializedObj")
        ck.check(s4, "DeserializedObj:attrs", da is not None and not serde_attrs(da["attrs"]) and not any(serde_attrs(v["attrs"]) for v in da["variants"]),
                 "serde attributes on DeserializedObj alter the tagged representation", sample="externally tagged, no attrs")
        fj = facts.fn("json::json_py::from_json_py")
        okfj = fj and any(e.get("k") == "call" and (e["f"].get("resolved") or e["f"].get("def", "")).endswith("JSON::from_json") and
                          "DeserializedObj" in json.dumps(e["f"].get("gargs", [])) + e["f"].get("def", "") for e in hir.walk(fj["body"]))
        ck.check(s4, "from_json_py", bool(okfj), "from_json_py does not call DeserializedObj::from_json", sample="DeserializedObj::from_json(json)")
    jt = facts.fn("json::JSON::to_json")
    jf = facts.fn("json::JSON::from_json")
    def calls(r, suffix):
        return r and any(e.get("k") == "call" and e["f"].get("def", "").endswith(suffix) and
                         all(strip(a).get("k") == "path" for a in e["args"]) for e in hir.walk(r["body"]))
    ck.check(s4, "JSON::to_json", calls(jt, "serde_json::to_string"), "JSON::to_json is not serde_json::to_string(self)", sample="serde_json::to_string(self)")
    ck.check(s4, "JSON::from_json", calls(jf, "serde_json::from_str"), "JSON::from_json is not serde_json::from_str(json)", sample="serde_json::from_str(json)")

    # ---------------- S16.5 pickling pairs
    s5 = ck.rule("S16.5", "every __getstate__ is bincode::serialize(&self) of the whole object and the matching __setstate__ assigns "
                          "bincode::deserialize(state.as_bytes()) to *self; both exist as a pair", floor=30)
    gs = {r.get("self_ty"): r for r in facts.all_fns() if r["fn"].endswith("::__getstate__")}
    ss = {r.get("self_ty"): r for r in facts.all_fns() if r["fn"].endswith("::__setstate__")}
    for st in sorted(set(gs) | set(ss)):
        g, s = gs.get(st), ss.get(st)
        if not g or not s:
            ck.fail(s5, "pair:" + st, "%s has only one of __getstate__/__setstate__" % st)
            continue
        sc = [e for e in hir.walk(g["body"]) if e.get("k") == "call" and e["f"].get("def", "").endswith("bincode::serialize")]
        okg = len(sc) == 1 and strip(sc[0]["args"][0]).get("name") == "self"
        ck.check(s5, "getstate:" + st, okg, "__getstate__ does not serialise the whole object: %s" % hir.fmt(g["body"])[:200],
                 "%s:%d" % (g["file"], g["line"]), sample="bincode::serialize(&self)")
        asg = [e for e in hir.walk(s["body"]) if e.get("k") == "assign"]
        oks = False
        if len(asg) == 1:
            l, r = strip(asg[0]["l"]), asg[0]["r"]
            dc = [e for e in hir.walk(r) if e.get("k") == "call" and e["f"].get("def", "").endswith("bincode::deserialize")]
            if l.get("name") == "self" and len(dc) == 1:
                a = strip(dc[0]["args"][0])
                oks = a.get("k") == "mcall" and a["m"] == "as_bytes" and strip(a["recv"]).get("name") == s["params"][1].get("name")
        ck.check(s5, "setstate:" + st, oks, "__setstate__ does not assign bincode::deserialize(state.as_bytes()) to *self: %s" % hir.fmt(s["body"])[:200],
                 "%s:%d" % (s["file"], s["line"]), sample="*self = bincode::deserialize(state.as_bytes())")
        ck.check(s5, "serde:" + st, st.split("<")[0] in ser and st.split("<")[0] in des, "%s is pickled but does not derive Serialize+Deserialize" % st, sample="derives both")

    # ---------------- S16.10 the constructor arguments a pickle carries are accepted by the constructor
    s10 = ck.rule("S16.10", "u8-coded enums: every code __getnewargs__ hands out for a variant is accepted by the #[new] constructor (unpickling calls "
                            "__new__(*args) before __setstate__ restores the content; a refused code makes the object, and everything that contains it, unloadable)", floor=15)
    import cel
    from cel import Sym, Poly, Tup
    for gna in [r for r in facts.all_fns() if r["fn"].endswith("::__getnewargs__") and (r.get("ret") or "").startswith("std::result::Result<(u8,)")]:
        st = gna.get("self_ty") or ""
        t = facts.adts.get(st)
        new = facts.fn(gna["fn"].rsplit("::", 1)[0] + "::new_py")
        where = "%s:%d" % (gna["file"], gna["line"])
        if t is None or t.get("kind") != "enum" or new is None:
            ck.fail(s10, "enum:" + st, "cannot find the enum or its #[new] new_py next to __getnewargs__", where)
            continue
        for v in t["variants"]:
            key = "%s::%s" % (st.rsplit("::", 1)[-1], v["name"])
            try:
                a = cel.Ev(facts).apply_fn(gna["fn"], [Sym("ctor", v["name"])], 0)
                code = a.tag[2].items[0] if isinstance(a, Sym) and a.tag[:2] == ("ctor", "Ok") and isinstance(a.tag[2], Tup) and len(a.tag[2].items) == 1 else None
                if not (isinstance(code, Poly) and code.const_value() is not None):
                    ck.fail(s10, key, "__getnewargs__ does not hand out a constant code for this variant: %s" % cel.vfmt(a)[:120], where)
                    continue
                back = cel.Ev(facts).apply_fn(new["fn"], [code], 0)
                ck.check(s10, key, isinstance(back, Sym) and back.tag[:2] == ("ctor", "Ok"), "code %s handed out by __getnewargs__ for %s is refused by the #[new] constructor: %s"
                         % (int(code.const_value()), v["name"], cel.vfmt(back)[:160]), "%s:%d" % (new["file"], new["line"]), sample="code %d accepted" % int(code.const_value()))
            except cel.Unsupported as e:
                ck.fail(s10, key, "rule could not be established (%s)" % e, where)

    # ---------------- S16.6 equality used by "compares equal"
    s6 = ck.rule("S16.6", "the equality a round trip is judged by covers every serialised field: PartialEq is derived (all fields) or, for PPSpline, compares k,n,t,c", floor=8)
    pe = {}
    for i in facts.impls:
        if i.get("trait") == "std::cmp::PartialEq":
            pe.setdefault(i["self_ty"].split("<")[0], []).append(i)
    for adt in ["dual::dual::Dual", "dual::dual::Dual2", "calendars::calendar::Cal", "calendars::calendar::UnionCal", "calendars::calendar::NamedCal",
                "fx::rates::FXRates", "fx::rates::fxrate::FXRate", "curves::curve::CurveDF", "splines::spline::PPSpline",
                "curves::nodes::NodesTimestamp"]:
        ck.check(s6, "has-eq:" + adt, adt in pe, "%s has no PartialEq: a round trip cannot be judged" % adt, sample="derived" if pe.get(adt, [{}])[0].get("derived") else "hand-written")
    sp = [r for r in facts.all_fns() if r.get("trait_item") == "std::cmp::PartialEq::eq" and (r.get("self_ty") or "").startswith("splines::spline::PPSpline<")]
    if not sp:
        ck.fail(s6, "PPSpline::eq", "PartialEq for PPSpline<T> not found")
    else:
        flds = {e["name"] for e in hir.walk(sp[0]["body"]) if e.get("k") == "field"}
        ck.check(s6, "PPSpline::eq", {"k", "n", "t", "c"} <= flds, "PPSpline equality ignores field(s) %s" % sorted({"k", "n", "t", "c"} - flds),
                 "%s:%d" % (sp[0]["file"], sp[0]["line"]), sample="compares " + ",".join(sorted(flds)))

    # an FX market is stored as its quotes only: after update() the stored quotes must be the updated ones (C10 R10.4: every field is replaced by the rebuilt
    # market's), or a saved market reloads with the old rates
    from rules import c10
    nd_, tb_ = list(ck.not_decided), list(ck.trusted)
    c10.run(ck, facts, tier, only={"R10.4"})
    ck.not_decided[:], ck.trusted[:] = nd_, tb_
    # a named calendar is stored by name only: the name it stores must be the name it was given and parsed from (C06 R06.3), or it reloads as another calendar
    from rules import c06
    nd_, tb_ = list(ck.not_decided), list(ck.trusted)
    c06.run(ck, facts, tier, only={"R06.3"})
    ck.not_decided[:], ck.trusted[:] = nd_, tb_
    # S16.9: loaders accept every well-shaped object (the converse of C20's R20.6, decided by the same path analysis)
    from rules import c20
    with ck.restrict({"S16.9"}):
        c20.shape_rule(ck, facts, accept="S16.9")
    ck.not_decided += ["equality of concrete objects after a round trip (numerical content)", "correctness of serde, serde_json, bincode, ndarray's and indexmap's own serde impls",
                       "FX markets are compared at their default first order (statement); behavioural PartialEq of calendars is C06's R06.4"]
    ck.trusted += ["cargo metadata (resolved feature set)", "serde derive expanding field attributes as documented"]
