"""Rule R18.4 — the Python-facing operators of Dual / Dual2 (`#[pymethods]` dunders in rust/dual/dual_py.rs) are the core operators.

The statements of C01/C02/C03/C18/C19 are about what a user of the numbers observes; from Python every `+ - * / == < ...` goes through these wrappers, which
take `other: Number` and dispatch on its kind. For every dunder and every kind of `other` the wrapper is evaluated symbolically and compared with the core rule
(oracle form for arithmetic, the core trait impl for comparisons), in the operand order the dunder's name demands; a kind the wrapper's own type cannot be mixed
with must give Err. Included by C01, C02, C03 and C19 through rules/deps.py; owned by C18."""
import cel, oracle, paths
from cel import Poly, Rec, Sym, Unsupported, vkey

D1, D2 = "dual::dual::Dual", "dual::dual::Dual2"
KINDS = {"F64": None, "Dual": D1, "Dual2": D2}
ARITH = {"__add__": ("add", False), "__radd__": ("add", True), "__sub__": ("sub", False), "__rsub__": ("sub", True), "__mul__": ("mul", False), "__rmul__": ("mul", True),
         "__truediv__": ("div", False), "__rtruediv__": ("div", True)}
ORD = {"__lt__": "Lt", "__le__": "Le", "__gt__": "Gt", "__ge__": "Ge"}


def operand(kind, name):
    return Poly.atom(name) if kind == "F64" else cel.operand(name, KINDS[kind])


def core_cmp(ev, facts, trait_item, a, b, ta, tb):
    """evaluate the in-crate impl of PartialEq::eq / PartialOrd::partial_cmp for operand types (ta, tb)"""
    for rr in facts.all_fns():
        if rr.get("trait_item") == trait_item and [t.replace("&", "") for t in rr["sig"]] == [ta, tb]:
            return ev.apply_fn(rr["fn"], [a, b], 0)
    raise Unsupported("no core impl of %s for (%s, %s)" % (trait_item, ta, tb))


def run(ck, facts, tier):
    r4 = ck.rule("R18.4", "Python-facing operators of Dual/Dual2 are the core operators: for every arithmetic/comparison dunder and every kind of `other` the result is "
                          "Ok(core rule on (self, other)) — (other, self) for the reflected r-variants — and a kind that cannot be mixed with the wrapper's type gives Err; unary "
                          "operators, power by a float, float() and the kind conversions are the core ones", floor=95)
    ev = cel.Ev(facts)
    for own, adt in (("Dual", D1), ("Dual2", D2)):
        flds = ["real", "dual"] + (["dual2"] if own == "Dual2" else [])
        me = cel.operand("u", adt)
        for dunder in list(ARITH) + list(ORD) + ["__eq__"]:
            fn = "dual::dual_py::<impl %s>::%s" % (adt, dunder)
            r = facts.fn(fn)
            if r is None:
                ck.fail(r4, "%s::%s" % (own, dunder), "wrapper not found: " + fn)
                continue
            where = "%s:%d" % (r["file"], r["line"])
            for kind in KINDS:
                key = "%s::%s[%s]" % (own, dunder, kind)
                other = operand(kind, "v")
                try:
                    got = ev.apply_fn(fn, [me, Sym("ctor", kind, other)], 0)
                    got = cel.strip_early(got)
                    if kind not in ("F64", own):
                        ck.check(r4, key, isinstance(got, Sym) and got.tag[:2] == ("ctor", "Err"), "mixing %s with %s is not refused with Err: %s" % (own, kind, cel.vfmt(got)[:200]), where, sample="Err(TypeError)")
                        continue
                    ok = isinstance(got, Sym) and got.tag[:2] == ("ctor", "Ok") and len(got.tag) == 3
                    res = got.tag[2] if ok else None
                    if dunder in ARITH:
                        op, refl = ARITH[dunder]
                        a, b = (other, me) if refl else (me, other)
                        want = oracle.expected(op, a, b)
                        ok = ok and isinstance(res, Rec) and res.adt == adt and all(res.fields.get(f) == want[f] for f in flds)
                        ck.check(r4, key, ok, "%s on (%s, %s) is not Ok(%s) by the core rule: %s" % (dunder, own, kind, "other %s self" % op if refl else "self %s other" % op, cel.vfmt(got)[:300]),
                                 where, sample="Ok(%s)" % ("other %s self" % op if refl else "self %s other" % op))
                    elif dunder == "__eq__":
                        # equality with a float is equality with the constant number (no variables); with the same kind it is the core by-name PartialEq (symmetric)
                        rhs = other if kind != "F64" else Rec(adt, dict({"real": other, "dual": Poly({}, 1), "vars": Sym("novars")}, **({"dual2": Poly({}, 2)} if own == "Dual2" else {})))
                        cands = []
                        for x, y in ((me, rhs), (rhs, me)):
                            try:
                                cands.append(vkey(core_cmp(ev, facts, "std::cmp::PartialEq::eq", x, y, adt, adt)))
                            except Unsupported:
                                pass
                        ck.check(r4, key, ok and vkey(res) in cands, "__eq__ on (%s, %s) is not the core by-name equality of the two numbers: %s" % (own, kind, cel.vfmt(got)[:300]), where,
                                 sample="Ok(core eq(self, other))")
                    else:
                        rel = ORD[dunder]
                        tb = "f64" if kind == "F64" else adt
                        want = Sym("ord", rel, vkey(core_cmp(ev, facts, "std::cmp::PartialOrd::partial_cmp", me, other, adt, tb)))
                        ck.check(r4, key, ok and vkey(res) == vkey(want), "%s on (%s, %s) is not self %s other by the core ordering: %s" % (dunder, own, kind, rel, cel.vfmt(got)[:300]), where,
                                 sample="Ok(self %s other)" % rel)
                except Unsupported as e:
                    ck.fail(r4, key, "rule could not be established (%s)" % e, where)
    run_unary(ck, facts)


def run_unary(ck, facts):
    """R18.4 continued: unary Python-facing operators, power by a float, float(), kind conversions."""
    r4 = "R18.4"
    ev = cel.Ev(facts)
    UN = {"__neg__": "std::ops::Neg::neg", "__exp__": "dual::dual_ops::math_funcs::MathFuncs::exp", "__log__": "dual::dual_ops::math_funcs::MathFuncs::log",
          "__norm_cdf__": "dual::dual_ops::math_funcs::MathFuncs::norm_cdf", "__norm_inv_cdf__": "dual::dual_ops::math_funcs::MathFuncs::inv_norm_cdf",
          "__abs__": "num_traits::Signed::abs"}
    for own, adt in (("Dual", D1), ("Dual2", D2)):
        me = cel.operand("u", adt)
        P_ = "dual::dual_py::<impl %s>::" % adt
        for dunder, ti in UN.items():
            key = "%s::%s" % (own, dunder)
            r = facts.fn(P_ + dunder)
            where = "%s:%d" % (r["file"], r["line"]) if r else None
            try:
                core_fn = next(rr["fn"] for rr in facts.all_fns() if rr.get("trait_item") == ti and (rr.get("self_ty") or "").replace("&", "") == adt)
                want = ev.apply_fn(core_fn, [me], 0)
                got = ev.apply_fn(P_ + dunder, [me], 0)
                ck.check(r4, key, vkey(got) == vkey(want), "%s is not the core %s of the number: %s" % (dunder, ti.rsplit("::", 1)[-1], cel.vfmt(got)[:300]), where, sample="self.%s()" % ti.rsplit("::", 1)[-1])
            except (Unsupported, StopIteration) as e:
                ck.fail(r4, key, "rule could not be established (%s)" % e, where)
        # power: a float exponent goes to the core pow with that exponent, a dual-number exponent is refused
        r = facts.fn(P_ + "__pow__")
        where = "%s:%d" % (r["file"], r["line"]) if r else None
        for kind in KINDS:
            key = "%s::__pow__[%s]" % (own, kind)
            try:
                pw = operand(kind, "p")
                got = cel.strip_early(ev.apply_fn(P_ + "__pow__", [me, Sym("ctor", kind, pw), Sym("ctor", "None")], 0))
                live = [v for _, v in paths.flatten(got) if not (isinstance(v, Sym) and v.tag[:1] == ("diverges",))]
                g = live[0] if len(live) == 1 else got
                if kind == "F64":
                    core_fn = next(rr["fn"] for rr in facts.all_fns() if rr.get("trait_item") == "num_traits::Pow::pow" and rr.get("sig") == [adt, "f64"])
                    want = ev.apply_fn(core_fn, [me, pw], 0)
                    ck.check(r4, key, isinstance(g, Sym) and g.tag[:2] == ("ctor", "Ok") and vkey(g.tag[2]) == vkey(want), "__pow__ with a float exponent is not Ok(self.pow(exponent)): %s" % cel.vfmt(g)[:300],
                             where, sample="Ok(self.pow(f))")
                else:
                    ck.check(r4, key, isinstance(g, Sym) and g.tag[:2] == ("ctor", "Err"), "a dual-number exponent is not refused with Err: %s" % cel.vfmt(g)[:200], where, sample="Err(TypeError)")
            except (Unsupported, StopIteration) as e:
                ck.fail(r4, key, "rule could not be established (%s)" % e, where)
        # float(x) is the value
        try:
            got = ev.apply_fn(P_ + "__float__", [me], 0)
            ck.check(r4, "%s::__float__" % own, vkey(got) == vkey(me.fields["real"]), "float(x) is not the number's value: %s" % cel.vfmt(got)[:200], sample="self.real")
        except Unsupported as e:
            ck.fail(r4, "%s::__float__" % own, "rule could not be established (%s)" % e)
    # kind conversions offered to Python are the core From conversions
    for meth, src, dst in (("to_dual2_py", D1, D2), ("to_dual_py", D2, D1)):
        key = "%s::%s" % (src.rsplit("::", 1)[-1], meth)
        try:
            me = cel.operand("u", src)
            got = ev.apply_fn("dual::dual_py::<impl %s>::%s" % (src, meth), [me], 0)
            core_fn = next(rr["fn"] for rr in facts.all_fns() if rr.get("trait_item") == "std::convert::From::from" and rr.get("self_ty") == dst and rr["sig"] == [src])
            want = ev.apply_fn(core_fn, [me], 0)
            ck.check(r4, key, vkey(got) == vkey(want), "%s is not the core conversion %s -> %s: %s" % (meth, src.rsplit("::", 1)[-1], dst.rsplit("::", 1)[-1], cel.vfmt(got)[:300]),
                     sample="self.clone().into()")
        except (Unsupported, StopIteration) as e:
            ck.fail(r4, key, "rule could not be established (%s)" % e)


def run_gradient_wrappers(ck, facts):
    if ck.rules.get("R17.4", {}).get("obligations"):
        return
    r4 = ck.rule("R17.4", "the Python-facing gradient read-backs are the core ones: grad1(vars) = gradient1(vars), grad2(vars) = gradient2(vars), grad1_manifold(vars) = "
                          "gradient1_manifold(vars) — one call with the requested names handed over in order and unchanged", floor=4)
    delegates(ck, r4, facts, "dual::dual_py::<impl dual::dual::Dual>::grad1", "gradient1", "Dual::grad1", effect=True, skip=("py",))
    delegates(ck, r4, facts, "dual::dual_py::<impl dual::dual::Dual2>::grad1_py", "gradient1", "Dual2::grad1", effect=True, skip=("py",))
    delegates(ck, r4, facts, "dual::dual_py::<impl dual::dual::Dual2>::grad2_py", "gradient2", "Dual2::grad2", effect=True, skip=("py",))
    delegates(ck, r4, facts, "dual::dual_py::<impl dual::dual::Dual2>::grad1_manifold_py", "gradient1_manifold", "Dual2::grad1_manifold", effect=True, skip=("_py", "py"))


# ---------------------------------------------------------------- thin delegating wrappers
def _param_value(name, ty):
    base = ty.replace("&", "").strip()
    if base in ("i8", "i16", "i32", "i64", "u8", "u32", "u64", "usize", "f64"):
        return Poly.atom(name)
    return Sym("param", name)


def delegates(ck, rid, facts, wrapper, core_name, key, receiver="self", effect=False, skip=()):
    """`wrapper(self, p1..pn)` is `core_name(receiver, p1..pn)`: one call of the core method on every path, the wrapper's own parameters handed over in their
    declared order and unchanged, and (unless the wrapper is called for its effect) the core's result returned as is (Ok-wrapped or `?`-propagated at most)."""
    r = facts.fn(wrapper)
    if r is None:
        ck.fail(rid, key, "wrapper not found: " + wrapper)
        return
    where = "%s:%d" % (r["file"], r["line"])
    calls = []

    def core(ev, vals, e):
        calls.append([vkey(v) for v in vals])
        return Sym("core", core_name, *[vkey(v) for v in vals])
    names = [p.get("name") for p in r["params"]]
    args = []
    for n, t in zip(names, r["sig"]):
        if n == "self":
            args.append(Rec("py-self", {"inner": Sym("field", "inner")}) if receiver == "inner" else Sym("param", "self"))
        else:
            args.append(_param_value(n, t))
    try:
        got = cel.strip_early(cel.Ev(facts, hooks={"::" + core_name: core}).apply_fn(wrapper, args, 0))
        recv = vkey(Sym("field", "inner")) if receiver == "inner" else vkey(Sym("param", "self"))
        want_args = [recv] + [vkey(a) for a, n_ in zip(args[1:], names[1:]) if n_ not in skip]       # `py: Python` tokens are not data
        ok = len(calls) == 1 and calls[0] == want_args
        why = "the wrapper does not call %s exactly once with (self%s, %s): calls %s" % (core_name, ".inner" if receiver == "inner" else "", ", ".join(names[1:]), repr(calls)[:300])
        if ok and not effect:
            want = Sym("core", core_name, *want_args)
            ok = vkey(got) in (vkey(want), vkey(Sym("ctor", "Ok", want)))
            why = "the wrapper does not return the core result unchanged: %s" % cel.vfmt(got)[:300]
        ck.check(rid, key, ok, why, where, sample="%s(self%s, %s)" % (core_name, ".inner" if receiver == "inner" else "", ", ".join(names[1:])))
    except Unsupported as e:
        ck.fail(rid, key, "rule could not be established (%s)" % e, where)


def delegates_fn(ck, rid, facts, wrapper, core_name, key):
    """A free `#[pyfunction]` wrapper is the core function on its own arguments, in order and unchanged (a full-range slice `&v[..]` of an argument is the
    argument), and returns the core's result as it is (Ok-wrapped at most)."""
    r = facts.fn(wrapper)
    if r is None:
        ck.fail(rid, key, "wrapper not found: " + wrapper)
        return
    where = "%s:%d" % (r["file"], r["line"])
    calls = []

    def whole(k):
        if isinstance(k, tuple):
            if len(k) == 4 and k[:2] == ("sym", "index") and "RangeFull" in repr(k[3]):
                return whole(k[2])
            return tuple(whole(x) for x in k)
        return k

    def core(ev, vals, e):
        calls.append([whole(vkey(v)) for v in vals])
        return Sym("core", core_name)
    names = [p.get("name") for p in r["params"]]
    args = [_param_value(n, t) for n, t in zip(names, r["sig"])]
    try:
        got = cel.strip_early(cel.Ev(facts, hooks={"::" + core_name: core}).apply_fn(wrapper, args, 0))
        want_args = [vkey(a) for a in args]
        ok = len(calls) == 1 and calls[0] == want_args
        why = "the wrapper does not call %s exactly once with (%s): calls %s" % (core_name, ", ".join(names), repr(calls)[:300])
        if ok:
            ok = vkey(got) in (vkey(Sym("core", core_name)), vkey(Sym("ctor", "Ok", Sym("core", core_name))))
            why = "the wrapper does not return the core result unchanged: %s" % cel.vfmt(got)[:300]
        ck.check(rid, key, ok, why, where, sample="%s(%s)" % (core_name, ", ".join(names)))
    except Unsupported as e:
        ck.fail(rid, key, "rule could not be established (%s)" % e, where)


def run_calendar_wrappers(ck, facts):
    if ck.rules.get("R05.6", {}).get("obligations"):
        return            # already evaluated in this run (included by more than one rule module)
    r6 = ck.rule("R05.6", "Python-facing calendar methods are the core methods: <name>_py(self, args..) = <name>(self, args..) for every date-arithmetic method of Cal, UnionCal "
                          "and NamedCal — one call, own arguments in order and unchanged, result returned as is", floor=30)
    for ty in ("Cal", "UnionCal", "NamedCal"):
        for m in ("is_bus_day", "is_non_bus_day", "is_settlement", "add_days", "add_bus_days", "add_months", "roll", "lag", "bus_date_range", "cal_date_range"):
            delegates(ck, r6, facts, "calendars::calendar_py::<impl calendars::calendar::%s>::%s_py" % (ty, m), m, "%s::%s_py" % (ty, m))


def run_curve_wrappers(ck, facts):
    if ck.rules.get("R12.4", {}).get("obligations"):
        return            # already evaluated in this run (included by more than one rule module)
    r4 = ck.rule("R12.4", "the Python-facing Curve is the core curve: curve[date] = inner.interpolated_value(date), index_value(date) = inner.index_value(date), "
                          "set_ad_order(ad) = one inner.set_ad_order(ad) — no extra branches, no second call; the exported index_left_f64 is index_left on its own arguments", floor=4)
    delegates(ck, r4, facts, "curves::curve_py::Curve::__getitem__", "interpolated_value", "Curve::__getitem__", receiver="inner")
    delegates(ck, r4, facts, "curves::curve_py::Curve::index_value_py", "index_value", "Curve::index_value", receiver="inner")
    delegates(ck, r4, facts, "curves::curve_py::Curve::set_ad_order", "set_ad_order", "Curve::set_ad_order", receiver="inner", effect=True)
    delegates_fn(ck, r4, facts, "curves::interpolation::interpolation_py::index_left_f64", "index_left", "py:index_left_f64")          # the exported interval search is the core one


def run_fx_wrappers(ck, facts):
    if ck.rules.get("R10.7", {}).get("obligations"):
        return            # already evaluated in this run (included by more than one rule module)
    r7 = ck.rule("R10.7", "the Python-facing FXRates methods are the core methods: rate, update, set_ad_order, get_ccy_index delegate once with their own arguments; fx_array / fx_vector are the stored matrix read row by row for every kind", floor=10)
    P_ = "fx::rates_py::<impl fx::rates::FXRates>::"
    delegates(ck, r7, facts, P_ + "rate_py", "rate", "FXRates::rate_py")
    delegates(ck, r7, facts, P_ + "update_py", "update", "FXRates::update_py")
    delegates(ck, r7, facts, P_ + "set_ad_order_py", "set_ad_order", "FXRates::set_ad_order_py", effect=True)
    delegates(ck, r7, facts, P_ + "get_ccy_index_py", "get_ccy_index", "FXRates::get_ccy_index_py")
    # the rate table and the base-currency vector handed to Python are the stored matrix read row by row, for every kind of the matrix: out[i][j] = arr[[i, j]],
    # vector[j] = arr[[0, j]] (a column walk for one kind transposes the table exactly when the derivative order is switched)
    for var in ("F64", "Dual", "Dual2"):
        M_ = Sym("matrix")
        me = Rec("fx::rates::FXRates", {"fx_array": Sym("ctor", var, M_), "currencies": Sym("field", "currencies"), "fx_rates": Sym("field", "fx_rates")})
        cell = lambda i_, j_: Sym("ctor", var, Sym("cell", vkey(M_), i_.key(), j_.key()))
        want_arr = cel.Coll(cel.Seq(Sym("axis", vkey(M_), 0), lambda idx: cel.Coll(cel.Seq(Sym("lane", vkey(M_), 0, idx.key()), lambda j_, idx=idx: cell(idx, j_)))))
        want_vec = cel.Coll(cel.Seq(Sym("lane", vkey(M_), 0, Poly.const(0).key()), lambda j_: cell(Poly.const(0), j_)))
        for fn_, want in (("fx_array_py", want_arr), ("fx_vector_py", want_vec)):
            r = facts.fn(P_ + fn_)
            key = "FXRates::%s[%s]" % (fn_, var)
            if r is None:
                ck.fail(r7, key, "getter not found")
                continue
            try:
                got = cel.strip_early(cel.Ev(facts).apply_fn(P_ + fn_, [me], 0))
                ck.check(r7, key, vkey(got) == vkey(Sym("ctor", "Ok", want)), "%s of a %s matrix is not the stored matrix read row by row: %s" % (fn_, var, cel.vfmt(got)[:300]),
                         "%s:%d" % (r["file"], r["line"]), sample="out[i][j] = %s(arr[[i, j]])" % var if fn_ == "fx_array_py" else "out[j] = %s(arr[[0, j]])" % var)
            except Unsupported as e:
                ck.fail(r7, key, "rule could not be established (%s)" % e, "%s:%d" % (r["file"], r["line"]))


def run_spline_wrappers(ck, facts):
    """R15.6: the spline's vectorised evaluator and its Python-facing methods hand abscissa, basis index and derivative order to the scalar kernels unchanged."""
    if ck.rules.get("R15.6", {}).get("obligations"):
        return
    r6 = ck.rule("R15.6", "PPSpline::bspldnev(x, i, m) = [bspldnev_single_f64(x_j, i, k, t, m, None) for every x_j] (no filtering); the Python-facing methods of the three "
                          "spline classes: ppev*/ppdnev* evaluate order 0 resp. the given m, a float abscissa is promoted to the method's own number kind with no variables, "
                          "the matching kind is passed through, any other kind gives Err; bsplev/bspldnev/csolve delegate with their own arguments in order; the exported bsplev_single/bspldnev_single are the f64 kernels on their own arguments", floor=72)
    SP = "splines::spline::"
    D1, D2 = "dual::dual::Dual", "dual::dual::Dual2"
    # --- the vectorised evaluator of the core type
    fn = SP + "PPSpline::<T>::bspldnev"
    r = facts.fn(fn)
    where = "%s:%d" % (r["file"], r["line"]) if r else None
    try:
        me = Rec("splines::spline::PPSpline", {"k": Poly.atom("k"), "t": Sym("field", "t"), "n": Poly.atom("n"), "c": Sym("field", "c")})
        X = Sym("param", "x")
        xs = cel.Coll(cel.Seq(X, lambda idx: Poly.atom(("call", "index", (vkey(X), idx.key())))))
        hk = {SP + "bspldnev_single_f64": lambda ev, vals, e: Sym("D", *[vkey(v) for v in vals]), "PPSpline::<T>::k": lambda ev, vals, e: Poly.atom("k"),
              "PPSpline::<T>::t": lambda ev, vals, e: Sym("field", "t")}
        got = cel.Ev(facts, hooks=hk).apply_fn(fn, [me, xs, Poly.atom("i"), Poly.atom("m")], 0)
        want = cel.Coll(cel.Seq(X, lambda idx: Sym("D", Poly.atom(("call", "index", (vkey(X), idx.key()))).key(), Poly.atom("i").key(), Poly.atom("k").key(), vkey(Sym("field", "t")),
                                                    Poly.atom("m").key(), vkey(Sym("ctor", "None")))))
        ck.check(r6, "PPSpline::bspldnev", vkey(got) == vkey(want), "the vectorised basis evaluator is not the scalar kernel mapped over every abscissa: %s" % cel.vfmt(got)[:300], where,
                 sample="x.iter().map(|v| bspldnev_single_f64(v, i, k, t, m, None)).collect()")
    except Unsupported as e:
        ck.fail(r6, "PPSpline::bspldnev", "rule could not be established (%s)" % e, where)
    # --- the exported free functions
    delegates_fn(ck, r6, facts, "splines::spline_py::bsplev_single", "bsplev_single_f64", "py:bsplev_single")
    delegates_fn(ck, r6, facts, "splines::spline_py::bspldnev_single", "bspldnev_single_f64", "py:bspldnev_single")
    # --- Python-facing classes
    core = lambda name: (lambda ev, vals, e: Sym("core", name, *[vkey(v) for v in vals]))
    # only the core type's methods are summarised (the Python-facing siblings of the same name are inlined: `bsplev` may call the wrapper `bspldnev(x, i, 0)`)
    hooks = {}
    for n in ("ppdnev_single", "ppdnev_single_dual", "ppdnev_single_dual2", "bspldnev", "csolve"):
        for r_ in facts.all_fns():
            if r_["fn"].startswith("splines::spline::") and r_["fn"].endswith("::" + n):
                hooks[r_["fn"]] = core(n)
    INNER = Sym("field", "inner")
    me = Rec("py-self", {"inner": INNER})
    const_num = {D1: lambda f: Rec(D1, {"real": f, "dual": Poly({}, 1), "vars": Sym("novars")}),
                 D2: lambda f: Rec(D2, {"real": f, "dual": Poly({}, 1), "dual2": Poly({}, 2), "vars": Sym("novars")})}
    for cls in ("PPSplineF64", "PPSplineDual", "PPSplineDual2"):
        P_ = "splines::spline_py::<impl splines::spline::%s>::" % cls
        for meth, core_name, own in (("ppev_single", "ppdnev_single", None), ("ppdnev_single", "ppdnev_single", None), ("ppev_single_dual", "ppdnev_single_dual", D1),
                                     ("ppdnev_single_dual", "ppdnev_single_dual", D1), ("ppev_single_dual2", "ppdnev_single_dual2", D2), ("ppdnev_single_dual2", "ppdnev_single_dual2", D2)):
            r = facts.fn(P_ + meth)
            where = "%s:%d" % (r["file"], r["line"]) if r else None
            has_m = meth.startswith("ppdnev")
            mval = Poly.atom("m") if has_m else Poly.const(0)
            for kind, adt in (("F64", None), ("Dual", D1), ("Dual2", D2)):
                key = "%s::%s[%s]" % (cls, meth, kind)
                if r is None:
                    ck.fail(r6, key, "wrapper not found")
                    continue
                x = Poly.atom("f") if kind == "F64" else cel.operand("d", adt)
                try:
                    got = cel.strip_early(cel.Ev(facts, hooks=hooks).apply_fn(P_ + meth, [me, Sym("ctor", kind, x)] + ([Poly.atom("m")] if has_m else []), 0))
                    if kind == "F64":
                        xx = x if own is None else const_num[own](x)
                    elif adt == own:
                        xx = x
                    else:
                        ck.check(r6, key, isinstance(got, Sym) and got.tag[:2] == ("ctor", "Err"), "an abscissa of kind %s is not refused with Err: %s" % (kind, cel.vfmt(got)[:200]), where, sample="Err(TypeError)")
                        continue
                    want = Sym("core", core_name, vkey(INNER), vkey(xx), mval.key())
                    ck.check(r6, key, vkey(got) in (vkey(want), vkey(Sym("ctor", "Ok", want))), "%s(%s) is not inner.%s(x, %s): %s" % (meth, kind, core_name, "m" if has_m else "0", cel.vfmt(got)[:300]),
                             where, sample="inner.%s(x, %s)" % (core_name, "m" if has_m else "0"))
                except Unsupported as e:
                    ck.fail(r6, key, "rule could not be established (%s)" % e, where)
        # vector forms and plain delegations
        for meth, has_m in (("ppev", False), ("ppdnev", True)):
            r = facts.fn(P_ + meth)
            key = "%s::%s" % (cls, meth)
            where = "%s:%d" % (r["file"], r["line"]) if r else None
            try:
                X = Sym("param", "x")
                el = lambda idx: Poly.atom(("call", "index", (vkey(X), idx.key())))
                xs = cel.Coll(cel.Seq(X, el))
                got = cel.strip_early(cel.Ev(facts, hooks=hooks).apply_fn(P_ + meth, [me, xs] + ([Poly.atom("m")] if has_m else []), 0))
                mval = Poly.atom("m") if has_m else Poly.const(0)
                want = Sym("ctor", "Ok", cel.Coll(cel.Seq(X, lambda idx: Sym("core", "ppdnev_single", vkey(INNER), el(idx).key(), mval.key()))))
                ck.check(r6, key, vkey(got) in (vkey(want), vkey(Sym("ctor", "Ok", want))), "%s is not [inner.ppdnev_single(x_j, %s) for every x_j]: %s" % (meth, "m" if has_m else "0", cel.vfmt(got)[:300]), where,
                         sample="x.iter().map(|v| inner.ppdnev_single(v, %s)).collect()" % ("m" if has_m else "0"))
            except Unsupported as e:
                ck.fail(r6, key, "rule could not be established (%s)" % e, where)
        delegates(ck, r6, facts, P_ + "bspldnev", "bspldnev", "%s::bspldnev" % cls, receiver="inner")
        delegates(ck, r6, facts, P_ + "csolve", "csolve", "%s::csolve" % cls, receiver="inner")
        # bsplev(x, i) = inner.bspldnev(x, i, 0)
        r = facts.fn(P_ + "bsplev")
        key = "%s::bsplev" % cls
        try:
            got = cel.strip_early(cel.Ev(facts, hooks=hooks).apply_fn(P_ + "bsplev", [me, Sym("param", "x"), Poly.atom("i")], 0))
            want = Sym("core", "bspldnev", vkey(INNER), vkey(Sym("param", "x")), Poly.atom("i").key(), Poly.const(0).key())
            ck.check(r6, key, vkey(got) in (vkey(want), vkey(Sym("ctor", "Ok", want))), "bsplev(x, i) is not inner.bspldnev(x, i, 0): %s" % cel.vfmt(got)[:300],
                     "%s:%d" % (r["file"], r["line"]) if r else None, sample="inner.bspldnev(x, i, 0)")
        except Unsupported as e:
            ck.fail(r6, key, "rule could not be established (%s)" % e)
