"""Rule R18.4 — the Python-facing operators of Dual / Dual2 (`#[pymethods]` dunders in rust/dual/dual_py.rs) are the core operators.

The statements of C01/C02/C03/C18/C19 are about what a user of the numbers observes; from Python every `+ - * / == < ...` goes through these wrappers, which
take `other: Number` and dispatch on its kind. For every dunder and every kind of `other` the wrapper is evaluated symbolically and compared with the core rule
(oracle form for arithmetic, the core trait impl for comparisons), in the operand order the dunder's name demands; a kind the wrapper's own type cannot be mixed
with must give Err. Included by C01, C02, C03 and C19 through rules/deps.py; owned by C18."""
import cel, oracle, paths
from cel import Poly, Rec, Sym, Unsupported, vkey

D1, D2 = "dual::dual::Dual", "dual::dual::Dual2"
KINDS = {"F64": None, "Dual": D1, "Dual2": D2}
ARITH = {"__add__": ("add", False), "__radd__": ("add", True), "__sub__": ("sub", False), "__rsub__": ("sub", True), "__mul__": ("mul", False), "__rmul__": ("mul", True),
         "__truediv__": ("div", False), "__rtruediv__": ("div", True)}
ORD = {"__lt__": "Lt", "__le__": "Le", "__gt__": "Gt", "__ge__": "Ge"}


def operand(kind, name):
    return Poly.atom(name) if kind == "F64" else cel.operand(name, KINDS[kind])


def core_cmp(ev, facts, trait_item, a, b, ta, tb):
    """evaluate the in-crate impl of PartialEq::eq / PartialOrd::partial_cmp for operand types (ta, tb)"""
    for rr in facts.all_fns():
        if rr.get("trait_item") == trait_item and [t.replace("&", "") for t in rr["sig"]] == [ta, tb]:
            return ev.apply_fn(rr["fn"], [a, b], 0)
    raise Unsupported("no core impl of %s for (%s, %s)" % (trait_item, ta, tb))


def run(ck, facts, tier):
    r4 = ck.rule("R18.4", "Python-facing operators of Dual/Dual2 are the core operators: for every arithmetic/comparison dunder and every kind of `other` the result is "
                          "Ok(core rule on (self, other)) — (other, self) for the reflected r-variants — and a kind that cannot be mixed with the wrapper's type gives Err", floor=60)
    ev = cel.Ev(facts)
    for own, adt in (("Dual", D1), ("Dual2", D2)):
        flds = ["real", "dual"] + (["dual2"] if own == "Dual2" else [])
        me = cel.operand("u", adt)
        for dunder in list(ARITH) + list(ORD) + ["__eq__"]:
            fn = "dual::dual_py::<impl %s>::%s" % (adt, dunder)
            r = facts.fn(fn)
            if r is None:
                ck.fail(r4, "%s::%s" % (own, dunder), "wrapper not found: " + fn)
                continue
            where = "%s:%d" % (r["file"], r["line"])
            for kind in KINDS:
                key = "%s::%s[%s]" % (own, dunder, kind)
                other = operand(kind, "v")
                try:
                    got = ev.apply_fn(fn, [me, Sym("ctor", kind, other)], 0)
                    got = cel.strip_early(got)
                    if kind not in ("F64", own):
                        ck.check(r4, key, isinstance(got, Sym) and got.tag[:2] == ("ctor", "Err"), "mixing %s with %s is not refused with Err: %s" % (own, kind, cel.vfmt(got)[:200]), where, sample="Err(TypeError)")
                        continue
                    ok = isinstance(got, Sym) and got.tag[:2] == ("ctor", "Ok") and len(got.tag) == 3
                    res = got.tag[2] if ok else None
                    if dunder in ARITH:
                        op, refl = ARITH[dunder]
                        a, b = (other, me) if refl else (me, other)
                        want = oracle.expected(op, a, b)
                        ok = ok and isinstance(res, Rec) and res.adt == adt and all(res.fields.get(f) == want[f] for f in flds)
                        ck.check(r4, key, ok, "%s on (%s, %s) is not Ok(%s) by the core rule: %s" % (dunder, own, kind, "other %s self" % op if refl else "self %s other" % op, cel.vfmt(got)[:300]),
                                 where, sample="Ok(%s)" % ("other %s self" % op if refl else "self %s other" % op))
                    elif dunder == "__eq__":
                        # equality with a float is equality with the constant number (no variables); with the same kind it is the core by-name PartialEq (symmetric)
                        rhs = other if kind != "F64" else Rec(adt, dict({"real": other, "dual": Poly({}, 1), "vars": Sym("novars")}, **({"dual2": Poly({}, 2)} if own == "Dual2" else {})))
                        cands = []
                        for x, y in ((me, rhs), (rhs, me)):
                            try:
                                cands.append(vkey(core_cmp(ev, facts, "std::cmp::PartialEq::eq", x, y, adt, adt)))
                            except Unsupported:
                                pass
                        ck.check(r4, key, ok and vkey(res) in cands, "__eq__ on (%s, %s) is not the core by-name equality of the two numbers: %s" % (own, kind, cel.vfmt(got)[:300]), where,
                                 sample="Ok(core eq(self, other))")
                    else:
                        rel = ORD[dunder]
                        tb = "f64" if kind == "F64" else adt
                        want = Sym("ord", rel, vkey(core_cmp(ev, facts, "std::cmp::PartialOrd::partial_cmp", me, other, adt, tb)))
                        ck.check(r4, key, ok and vkey(res) == vkey(want), "%s on (%s, %s) is not self %s other by the core ordering: %s" % (dunder, own, kind, rel, cel.vfmt(got)[:300]), where,
                                 sample="Ok(self %s other)" % rel)
                except Unsupported as e:
                    ck.fail(r4, key, "rule could not be established (%s)" % e, where)
