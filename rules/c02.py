"""C02 — second-order AD exact and consistent with first order (same engine as C01)."""
import re
import cel, hir
from cel import Poly, Rec
from rules import c01


def run(ck, facts, tier):
    found2 = c01.run_order(ck, facts, "dual::dual::Dual2", "R02", ["real", "dual", "dual2"])
    # R02.2 first-order agreement is implied by R02.1 and R01.1 being compared to the same oracle rows; make it explicit as sibling agreement
    r22 = ck.rule("R02.2", "sibling agreement: for every operator body on Dual2 the normal forms of real and dual equal those of the same operator/operand "
                           "mix on Dual (second order returns the same value and gradient as first order)", floor=50)
    ev = cel.Ev(facts)
    found1 = c01.impls(facts, "dual::dual::Dual")
    idx1 = {}
    for r, op, ks in found1:
        idx1[(op, tuple(t.replace("dual::dual::Dual", "N") for t in r["sig"]))] = r
    for r, op, ks in found2:
        if op == "rem":
            continue
        key = (op, tuple(t.replace("dual::dual::Dual2", "N") for t in r["sig"]))
        short = re.sub(r"dual::dual(_ops::\w+)?::", "", r["fn"])
        sib = idx1.get(key)
        where = "%s:%d" % (r["file"], r["line"])
        if sib is None:
            ck.fail(r22, short, "no first-order sibling for %s%s" % (op, key[1]), where)
            continue
        try:
            def vals(num):
                out = []
                for i, k in enumerate(ks):
                    out.append(cel.operand("uv"[i], num) if k == "D" else Poly.atom("uv"[i] if k == "f" else "p"))
                return out
            a = c01.alternatives(ev.apply_fn(r["fn"], vals("dual::dual::Dual2"), 0))
            b = c01.alternatives(ev.apply_fn(sib["fn"], vals("dual::dual::Dual"), 0))
        except cel.Unsupported as e:
            ck.fail(r22, short, "rule could not be established (%s)" % e, where)
            continue
        # compare every alternative pairwise by position when counts agree, else each against the first
        ok = True
        for i, (_, va) in enumerate(a):
            vb = b[i][1] if len(b) == len(a) else b[0][1]
            if not (isinstance(va, Rec) and isinstance(vb, Rec) and va.fields.get("real") == vb.fields.get("real") and va.fields.get("dual") == vb.fields.get("dual")):
                ok = False
        ck.check(r22, short, ok, "value/gradient of the Dual2 operator differ from the Dual sibling %s" % sib["fn"], where, sample="real, dual agree with " + re.sub(r"dual::dual(_ops::\w+)?::", "", sib["fn"]))
    # R02.4 lowering / raising conversions
    r24 = ck.rule("R02.4", "From<Dual2>/From<&Dual2> for Dual copy real, vars, dual from the one source and nothing else; From<Dual>/From<&Dual> for Dual2 "
                           "copy the three and add a zero matrix sized by the source's dual", floor=4)
    for r in facts.all_fns():
        if r.get("trait_item") != "std::convert::From::from":
            continue
        src, dst = c01.base(r["sig"][0]), (r.get("self_ty") or "")
        if {src, dst} != {"dual::dual::Dual", "dual::dual::Dual2"}:
            continue
        where = "%s:%d" % (r["file"], r["line"])
        short = "From<%s> for %s" % (r["sig"][0].replace("dual::dual::", ""), dst.split("::")[-1])
        try:
            ev.zero_shapes = []
            v = ev.apply_fn(r["fn"], [cel.operand("u", src)], 0)
        except cel.Unsupported as e:
            ck.fail(r24, short, "rule could not be established (%s)" % e, where)
            continue
        u = cel.operand("u", src)
        ok = isinstance(v, Rec) and v.adt == dst and all(cel.vkey(v.fields.get(f)) == cel.vkey(u.fields[f]) for f in ("real", "dual", "vars"))
        if dst.endswith("Dual2"):
            d2 = v.fields.get("dual2") if isinstance(v, Rec) else None
            n = cel.vkey(Poly.atom(("len", u.fields["dual"].key(), cel.vkey(Poly.const(0)))))
            n1 = cel.vkey(Poly.atom(("len", u.fields["dual"].key(), None)))
            ok = ok and isinstance(d2, Poly) and d2.is_zero() and ev.zero_shapes in ([("zeros", (n, n))], [("zeros", (n1, n1))])
        else:
            ok = ok and set(v.fields) == {"real", "dual", "vars"}
        ck.check(r24, short, ok, "conversion alters value, gradient or variable list, or does not add a zero Hessian: %s" % cel.vfmt(v)[:300], where, sample=cel.vfmt(v)[:200])
    # "a Hessian, read back per variable pair": the read-back rules of gradient1/gradient2 on Dual2 (C17 R17.1/R17.2) are necessary conditions here too
    from rules import c17
    c17.run(ck, facts, tier, only={"gradient1[Dual2]", "gradient2[Dual2]", "manifold"})          # incl. the per-variable Hessian rows (gradient1_manifold)
    from rules import deps
    deps.include_alignment(ck, facts, tier)
    deps.include_number_surface(ck, facts, tier)
    ck.not_decided += ["IEEE rounding; library kernels are atoms", "symmetry of a user-supplied asymmetric dual2 array",
                       "Hessian read-back factor 2 is C17's R17.2 (shared rule)"]
    ck.trusted += ["lib/oracle.py", "lib/cel.py"]
