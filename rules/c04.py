"""C04 — date adjustment lands on the nearest eligible business day in its direction (idiom conformance => postcondition)."""
import cel, paths
from cel import Poly, Sym, Alt, Unsupported, vkey
from rules.dates_common import *


def search(start, pred_name, step_op, via=None):
    """x := start; while !pred(x) { x := via(x +/- 1 day) }"""
    nxt = OP(step_op, LV(0), DAYS1)
    if via:
        nxt = R(via, S, nxt)
    return ITER(0, [start], NOT(P(pred_name, S, LV(0))), [nxt])


def run(ck, facts, tier):
    def ev_fn(name, args):
        ev = cel.Ev(facts, hooks=hooks(exclude=(name,)))
        return ev.apply_fn(DR + name if not name.startswith("roll_w") else "calendars::dateroll::" + name, args, 0)

    def where(name):
        r = facts.fn(DR + name) or facts.fn("calendars::dateroll::" + name)
        return "%s:%d" % (r["file"], r["line"]) if r else None

    # ---------------- R04.1 linear search
    r1 = ck.rule("R04.1", "roll_forward/backward_bus_day are the linear search x := date; while !is_bus_day(x) { x := x +/- 1 day }; x (+ forward, - backward): "
                          "first business day on/after (on/before) the input; an eligible input is returned unchanged; idempotent", floor=2)
    for name, op in (("roll_forward_bus_day", "Add"), ("roll_backward_bus_day", "Sub")):
        try:
            got = ev_fn(name, [S, D])
            ck.check(r1, name, vkey(got) == vkey(search(D, "is_bus_day", op)), "%s is not the one-day linear search in its direction" % name, where(name),
                     detail="got %s" % cel.vfmt(got)[:500], sample="x := date; while !is_bus_day(x) { x := x %s Days(1) }" % ("+" if op == "Add" else "-"))
        except Unsupported as e:
            ck.fail(r1, name, "rule could not be established (%s)" % e, where(name))
    # ---------------- R04.2 settlement search
    r2 = ck.rule("R04.2", "roll_*_settled_bus_day: x := roll_dir(date); while !is_settlement(x) { x := roll_dir(x +/- 1 day) }; x with one direction in all three places", floor=2)
    for name, op, via in (("roll_forward_settled_bus_day", "Add", "roll_forward_bus_day"), ("roll_backward_settled_bus_day", "Sub", "roll_backward_bus_day")):
        try:
            got = ev_fn(name, [S, D])
            ck.check(r2, name, vkey(got) == vkey(search(R(via, S, D), "is_settlement", op, via)), "%s is not the settlement search in one direction" % name, where(name),
                     detail="got %s" % cel.vfmt(got)[:600], sample="x := %s(date); while !is_settlement(x) { x := %s(x %s Days(1)) }" % (via, via, "+" if op == "Add" else "-"))
        except Unsupported as e:
            ck.fail(r2, name, "rule could not be established (%s)" % e, where(name))
    # ---------------- R04.3 modified rules
    r3 = ck.rule("R04.3", "the four modified rules: n := F(date); if month(n) != month(date) { G(date) } else { n } with F, G opposite directions of the same family "
                          "(settled with settled) and the fallback applied to the original date", floor=4)
    fam = [("roll_mod_forward_bus_day", "roll_forward_bus_day", "roll_backward_bus_day"), ("roll_mod_backward_bus_day", "roll_backward_bus_day", "roll_forward_bus_day"),
           ("roll_forward_mod_settled_bus_day", "roll_forward_settled_bus_day", "roll_backward_settled_bus_day"),
           ("roll_backward_mod_settled_bus_day", "roll_backward_settled_bus_day", "roll_forward_settled_bus_day")]
    for name, F_, G_ in fam:
        try:
            got = ev_fn(name, [S, D])
        except Unsupported as e:
            ck.fail(r3, name, "rule could not be established (%s)" % e, where(name))
            continue
        n = R(F_, S, D)
        month = lambda x: Sym("m", "month", vkey(x), ())
        ps = paths.flatten(got)
        ok = len(ps) == 2
        if ok:
            differ = [(c, v) for c, v in ps if vkey(v) == vkey(R(G_, S, D))]
            same = [(c, v) for c, v in ps if vkey(v) == vkey(n)]
            ok = len(differ) == 1 and len(same) == 1
            if ok:
                # the month comparison must be (part of) the deciding condition; extra disjuncts (e.g. the year) are accepted
                meq = ("sym", "cmp", "Eq", vkey(month(n)), vkey(month(D)))
                meq2 = ("sym", "cmp", "Eq", vkey(month(D)), vkey(month(n)))
                atoms_d, atoms_s = dict(differ[0][0]), dict(same[0][0])
                ok = any(atoms_d.get(m) is False for m in (meq, meq2)) or any(m_[0][:3] == ("sym", "or") and (repr(meq[3]) in repr(m_[0])) for m_ in differ[0][0])
        ck.check(r3, name, ok, "%s is not: n := %s(date); if month differs { %s(date) } else { n }" % (name, F_, G_), where(name), detail="got %s" % paths.fmt_paths(got)[:700],
                 sample="n := %s(date); month(n) != month(date) ? %s(date) : n" % (F_, G_))
    # ---------------- R04.4 dispatch tables / R04.5 family closure
    r4 = ck.rule("R04.4", "dispatch: Act -> input unchanged; F, P, ModF, ModP -> forward / backward / mod-forward / mod-backward member of the settled resp. unsettled "
                          "family; roll(settlement) selects the settled table iff settlement is true, passing date, calendar and modifier through", floor=11)
    tables = {True: {"Act": None, "F": "roll_forward_settled_bus_day", "P": "roll_backward_settled_bus_day",
                     "ModF": "roll_forward_mod_settled_bus_day", "ModP": "roll_backward_mod_settled_bus_day"},
              False: {"Act": None, "F": "roll_forward_bus_day", "P": "roll_backward_bus_day",
                      "ModF": "roll_mod_forward_bus_day", "ModP": "roll_mod_backward_bus_day"}}
    # judged on `roll` itself with its dispatch helpers (roll_with_settlement / roll_without_settlement, if there are any) inlined: whether the two tables live
    # in helper functions, in `roll`, or behind a function pointer is not the property
    for settled, tab in tables.items():
        for mod, want in tab.items():
            key = "roll[%s,%s]" % ("settlement" if settled else "no settlement", mod)
            try:
                ev = cel.Ev(facts, hooks=hooks(exclude=("roll", "roll_with_settlement", "roll_without_settlement")))
                got = ev.apply_fn(DR + "roll", [S, D, Sym("ctor", mod), Sym("bool", "true" if settled else "false")], 0)
                exp = D if want is None else R(want, S, D)
                ck.check(r4, key, vkey(got) == vkey(exp), "roll(%s, settlement=%s) gives %s" % (mod, settled, cel.vfmt(got)[:200]), where("roll"), sample=cel.vfmt(exp)[:120])
            except Unsupported as e:
                ck.fail(r4, key, "rule could not be established (%s)" % e, where("roll"))
    try:
        # with a symbolic flag: exactly the two tables, selected by the flag
        M, ST = Sym("param", "modifier"), Sym("param", "settlement")
        got = cel.Ev(facts, hooks=hooks(exclude=("roll", "roll_with_settlement", "roll_without_settlement"))).apply_fn(DR + "roll", [S, D, Sym("ctor", "F"), ST], 0)
        want = {(frozenset({(vkey(ST), True)}), vkey(R("roll_forward_settled_bus_day", S, D))), (frozenset({(vkey(ST), False)}), vkey(R("roll_forward_bus_day", S, D)))}
        ck.check(r4, "roll", paths.path_set(got) == want, "roll does not select the settled table exactly when settlement is true (passing date, self, modifier through)", where("roll"),
                 detail=paths.fmt_paths(got)[:500], sample="settlement ? settled table : unsettled table")
    except Unsupported as e:
        ck.fail(r4, "roll", "rule could not be established (%s)" % e, where("roll"))
    # overriding any of the provided rules in a calendar type would bypass all of the above
    r5 = ck.rule("R04.5", "no calendar type overrides a provided roll/adjust method of DateRoll (all kinds of calendar share the verified bodies)", floor=1)
    over = [r["fn"] for r in facts.all_fns() if (r.get("trait_item") or "").startswith(DR) and (r.get("trait_item") or "").rsplit("::", 1)[-1] in ROLLS + ["is_bus_day", "is_non_bus_day"]]
    ck.check(r5, "overrides", not over, "provided DateRoll methods overridden: %s" % over[:3], sample="none of %d provided methods is overridden" % (len(ROLLS) + 2))
    # "business day" and "valid settlement day" are the predicates of C06 (union semantics, delegation): necessary conditions here too
    from rules import c06
    nd, tb = list(ck.not_decided), list(ck.trusted)
    c06.run(ck, facts, tier, only={"R06.0", "R06.1", "R06.2", "R06.3", "R06.6"})          # R06.3/R06.6: a named or explicit combination is built from exactly the calendars named / given
    # a working week given as numbers must become exactly those weekdays (C07 R07.5, the Cal::new clause): the rolls above never look inside the calendar
    if not getattr(ck, "_c06_c07_nested", False):
        ck._c06_c07_nested = True
        try:
            from rules import c07
            with ck.restrict({"R07.5"}):
                c07.run(ck, facts, tier)
        finally:
            ck._c06_c07_nested = False
    # "for every calendar" includes one that was stored and loaded again (pickle / JSON are how calendars travel between processes): the stored form of the
    # calendar types is the derived, attribute-free one (C16 S16.2/S16.3/S16.7) — a field-level `serialize_with` that drops a masked weekday changes every roll
    from rules import c16 as c16m
    c16m.run(ck, facts, tier, only_types=r"^calendars::calendar::")
    ck.not_decided[:], ck.trusted[:] = nd, tb
    from rules import pywrap
    pywrap.run_calendar_wrappers(ck, facts)          # what a Python user calls is the wrapper: it must hand its arguments to the core method unchanged
    ck.not_decided += ["termination (a week mask with no working day, or no settlement day ahead)", "dates outside chrono's range",
                       "the postcondition follows from the linear-search idiom; it is not evaluated on concrete calendars"]
    ck.trusted += ["lib/cel.py loop summarisation (while as iterate(init, cond, step))", "chrono: date +/- Days(1) is the next/previous calendar day"]
