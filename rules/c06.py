"""C06 — combined and named calendars mean the union of their parts (quantifier shapes, delegation, name parsing, behavioural equality)."""
import cel, paths, hir
from cel import Poly, Sym, Rec, Tup, Alt, Unsupported, vkey
from rules.dates_common import P, R, hooks as date_hooks, D
from rules import gather

UC, NC, CAL, CT = "calendars::calendar::UnionCal", "calendars::calendar::NamedCal", "calendars::calendar::Cal", "calendars::calendar::CalType"
TRUE = ("sym", "bool", "true")


def nnf(k, neg=False):
    """Negation normal form of a boolean value key; is_non_bus_day is folded into !is_bus_day."""
    if isinstance(k, tuple) and k[:1] == ("sym",):
        t = k[1]
        if t == "not":
            return nnf(k[2], not neg)
        if t in ("forall", "exists"):
            q = t if not neg else ("exists" if t == "forall" else "forall")
            return (q, k[2], nnf(k[3], neg))
        if t in ("and", "or"):
            o = t if not neg else ("or" if t == "and" else "and")
            return (o, frozenset([nnf(k[2], neg), nnf(k[3], neg)]))
        if t == "pred" and k[2] == "is_non_bus_day":
            return nnf(("sym", "pred", "is_bus_day") + tuple(k[3:]), not neg)
        if t == "bool":
            v = (k[2] == "true") != neg
            return ("bool", v)
        if t == "cmp" and k[2] in ("Eq", "Ne") and len(k) == 5:
            eq = (k[2] == "Eq") != neg
            return ("iff" if eq else "xor", frozenset([nnf(k[3]), nnf(k[4])]))
    return ("lit", k, not neg)


def elem(cont, q="q0"):
    return Sym("at", vkey(cont), Poly.atom(q).key())


def _subkeys(k):
    out = {k}
    if isinstance(k, tuple):
        for x in k:
            out |= _subkeys(x)
    return out


def _subst_prefix(k, prefix, new):
    """replace every sub-key that is a tuple starting with `prefix` (whatever follows, e.g. an expect message) by `new`"""
    if isinstance(k, tuple):
        if k[:len(prefix)] == prefix:
            return new
        return tuple(_subst_prefix(x, prefix, new) for x in k)
    return k


def run(ck, facts, tier, only=None):
    """only: None or a set of rule ids to run (when included by C04/C05: the eligibility predicates R06.0-R06.2)"""
    hk = dict(date_hooks(), **{"@elem": gather.container_elem})
    # ---------------- R06.0 the derived predicates
    r0 = ck.rule("R06.0", "is_bus_day = is_weekday and not is_holiday; is_non_bus_day = not is_bus_day (the vocabulary of the other rules)", floor=2)
    S = Sym("param", "self")
    for name, want in (("is_bus_day", ("and", frozenset([nnf(vkey(P("is_weekday", S, D))), nnf(vkey(P("is_holiday", S, D)), True)]))),
                       ("is_non_bus_day", nnf(vkey(P("is_bus_day", S, D)), True))):
        try:
            h2 = {k: v for k, v in hk.items() if not k.endswith("::" + name)}
            got = cel.Ev(facts, hooks=h2).apply_fn("calendars::dateroll::DateRoll::" + name, [S, D], 0)
            ck.check(r0, name, nnf(vkey(got)) == want, "%s is not the expected combination" % name, detail=cel.vfmt(got)[:300], sample=str(want)[:160])
        except Unsupported as e:
            ck.fail(r0, name, "rule could not be established (%s)" % e)

    # ---------------- R06.1 quantifier shapes
    r1 = ck.rule("R06.1", "UnionCal: is_weekday = for all member calendars c: c.is_weekday; is_holiday = exists member c: c.is_holiday; is_settlement = true when "
                          "there are no settlement calendars, else for all settlement calendars c: c.is_bus_day — each over its own collection field", floor=4)
    cals, scals = Sym("field", "calendars"), Sym("field", "settlement_calendars")

    def eval_uc(method, settle):
        me = Rec(UC, {"calendars": cals, "settlement_calendars": settle})
        return cel.Ev(facts, hooks=hk).apply_fn("<%s as calendars::dateroll::DateRoll>::%s" % (UC, method), [me, D], 0)
    cases = [("is_weekday", Sym("ctor", "None"), ("forall", vkey(cals), nnf(vkey(P("is_weekday", elem(cals), D))))),
             ("is_holiday", Sym("ctor", "None"), ("exists", vkey(cals), nnf(vkey(P("is_holiday", elem(cals), D))))),
             ("is_settlement", Sym("ctor", "None"), ("bool", True)),
             ("is_settlement", Sym("ctor", "Some", scals), ("forall", vkey(scals), nnf(vkey(P("is_bus_day", elem(scals), D)))))]
    for method, settle, want in cases:
        key = "UnionCal::%s[%s]" % (method, "no settlement cals" if settle.tag[1] == "None" else "settlement cals")
        r = facts.fn("<%s as calendars::dateroll::DateRoll>::%s" % (UC, method))
        where = "%s:%d" % (r["file"], r["line"]) if r else None
        try:
            got = eval_uc(method, settle)
            ck.check(r1, key, nnf(vkey(got)) == want, "%s is not %s" % (method, str(want)[:200]), where, detail="got %s" % cel.vfmt(got)[:400], sample=str(want)[:200])
        except Unsupported as e:
            ck.fail(r1, key, "rule could not be established (%s)" % e, where)

    # ---------------- R06.2 delegation
    r2 = ck.rule("R06.2", "NamedCal and every CalType variant forward is_weekday / is_holiday / is_settlement to the same-named predicate of the wrapped calendar, same date", floor=12)
    u = Sym("field", "union_cal")
    for method in ("is_weekday", "is_holiday", "is_settlement"):
        fn = "<%s as calendars::dateroll::DateRoll>::%s" % (NC, method)
        try:
            got = cel.Ev(facts, hooks=hk).apply_fn(fn, [Rec(NC, {"union_cal": u, "name": Sym("name")}), D], 0)
            ck.check(r2, "NamedCal::" + method, vkey(got) == vkey(P(method, u, D)), "NamedCal::%s does not forward to union_cal.%s(date)" % (method, method),
                     detail=cel.vfmt(got)[:200], sample="union_cal.%s(date)" % method)
        except Unsupported as e:
            ck.fail(r2, "NamedCal::" + method, "rule could not be established (%s)" % e)
        fn = "<%s as calendars::dateroll::DateRoll>::%s" % (CT, method)
        for variant in ("Cal", "UnionCal", "NamedCal"):
            c = Sym("payload", variant)
            try:
                got = cel.Ev(facts, hooks=hk).apply_fn(fn, [Sym("ctor", variant, c), D], 0)
                ck.check(r2, "CalType::%s[%s]" % (method, variant), vkey(got) == vkey(P(method, c, D)), "CalType::%s for %s does not forward to the wrapped calendar's %s"
                         % (method, variant, method), detail=cel.vfmt(got)[:200], sample="c.%s(date)" % method)
            except Unsupported as e:
                ck.fail(r2, "CalType::%s[%s]" % (method, variant), "rule could not be established (%s)" % e)
    # Cal's own predicates (the leaves)
    me = Rec(CAL, {"holidays": Sym("field", "holidays"), "week_mask": Sym("field", "week_mask")})
    leaf = {"is_weekday": lambda g: nnf(vkey(g)) == ("lit", vkey(Sym("m", "contains", vkey(me.fields["week_mask"]), (vkey(Sym("m", "weekday", vkey(D), ())),))), False),
            "is_holiday": lambda g: vkey(g) == vkey(Sym("m", "contains", vkey(me.fields["holidays"]), (vkey(D),))),
            "is_settlement": lambda g: vkey(g) == TRUE}
    for method, okf in leaf.items():
        try:
            got = cel.Ev(facts, hooks={}).apply_fn("<%s as calendars::dateroll::DateRoll>::%s" % (CAL, method), [me, D], 0)
            ck.check(r2, "Cal::" + method, okf(got), "Cal::%s is not the mask/holiday-set membership test" % method, detail=cel.vfmt(got)[:200],
                     sample={"is_weekday": "!week_mask.contains(date.weekday())", "is_holiday": "holidays.contains(date)", "is_settlement": "true"}[method])
        except Unsupported as e:
            ck.fail(r2, "Cal::" + method, "rule could not be established (%s)" % e)

    # ---------------- R06.6 the union is its members, as given
    if only is None or "R06.6" in only:
        r6u = ck.rule("R06.6", "UnionCal::new(calendars, settlement_calendars) stores both lists as given: no member is dropped, merged or reordered (two members that "
                               "share a holiday list but not a working week are two members)", floor=1)
        ru = facts.fn("calendars::calendar::UnionCal::new")
        if ru is None:
            ck.fail(r6u, "UnionCal::new", "constructor not found")
        else:
            try:
                C_, S_ = Sym("param", "calendars"), Sym("param", "settlement_calendars")
                gotu = cel.Ev(facts).apply_fn(ru["fn"], [C_, S_], 0)
                ck.check(r6u, "UnionCal::new", isinstance(gotu, Rec) and vkey(gotu.fields.get("calendars")) == vkey(C_) and vkey(gotu.fields.get("settlement_calendars")) == vkey(S_),
                         "UnionCal::new does not store its two lists as given: %s" % cel.vfmt(gotu)[:300], "%s:%d" % (ru["file"], ru["line"]), sample="UnionCal { calendars, settlement_calendars }")
            except Unsupported as e:
                ck.fail(r6u, "UnionCal::new", "rule could not be established (%s)" % e, "%s:%d" % (ru["file"], ru["line"]))
    if only is not None and "R06.3" not in only:
        return
    # ---------------- R06.3 name parsing
    r3 = ck.rule("R06.3", "NamedCal::try_new: lower-casing precedes splitting on '|'; more than 2 parts -> Err; calendars <- every ','-piece of part 0 (one lookup per "
                          "piece, errors propagated by ?), settlement calendars <- part 1 or None; the stored name is the lower-cased input", floor=5)
    fn = NC + "::try_new"
    r = facts.fn(fn)
    where = "%s:%d" % (r["file"], r["line"]) if r else None
    try:
        hk3 = dict(hk, **{"calendars::calendar::parse_cals": lambda ev, vals, e: Sym("parse_cals", vkey(vals[0]))})
        name = Sym("param", "name")
        got = cel.Ev(facts, hooks=hk3).apply_fn(fn, [name], 0)
        lower = Sym("m", "to_lowercase", vkey(name), ())
        split = Sym("m", "split", vkey(lower), (vkey(Sym("lit", "|")),))
        parts = Sym("m", "collect", vkey(split), ())
        # The number of '|'-pieces n (>= 1 always) is what every spelling tests: `parts.len() > 2` / `== 1`, a slice pattern `[a]` / `[a, b]`, `parts.get(1)`
        # being Some, or the k-th pull from the split iterator being Some. Each path is classified by the set of n it admits (value-set over 1..4), each
        # leaf compared after writing every way of naming piece k as one symbol.
        nvar = ("len", vkey(parts), None)

        def admits(cset):
            """set of n in 1..4 the path's literals allow, or None if a literal about the pieces is not understood"""
            feas, rest = paths.int_feasible(cset, nvar, range(1, 5))
            feas = set(feas)
            for a_, pol in rest:
                cond = None
                if isinstance(a_, tuple) and a_[:2] == ("arm", ("Some", "_")) and isinstance(a_[2], tuple):
                    t_ = a_[2]
                    if t_[:2] == ("sym", "nth") and t_[2] == vkey(split):
                        cond = lambda n, k=t_[3]: n >= k + 1                      # the (k+1)-th pull yields an item
                    elif t_[:3] == ("sym", "m", "get") and t_[3] == vkey(parts) and len(t_[4]) == 1 and cel.poly_from_key(t_[4][0]).const_value() is not None:
                        cond = lambda n, k=int(cel.poly_from_key(t_[4][0]).const_value()): n >= k + 1
                elif isinstance(a_, tuple) and a_[:1] == ("arm",) and isinstance(a_[1], tuple) and a_[1][:1] == ("slice",) and a_[2] == vkey(parts):
                    _, nb, mid, na = a_[1]
                    cond = (lambda n, m=nb + na: n >= m) if mid else (lambda n, m=nb + na: n == m)
                if cond is None:
                    if vkey(split) in _subkeys(a_):
                        return None
                    continue
                feas = {n for n in feas if cond(n) == pol}
            return feas

        def piece_norm(k):
            for i in range(3):
                ik = Poly.const(i).key()
                for form in (Sym("at", vkey(parts), ik), Sym("payload", vkey(Sym("m", "get", vkey(parts), (ik,))), 0), Sym("payload", vkey(Sym("nth", vkey(split), i)), 0)):
                    k = cel.key_subst(k, vkey(form), ("piece", i))
                for mm in ("expect", "unwrap"):
                    k = _subst_prefix(k, ("sym", "m", mm, vkey(Sym("nth", vkey(split), i))), ("piece", i))
            return k
        mk = lambda settle: piece_norm(vkey(Sym("ctor", "Ok", Rec(NC, {"name": lower, "union_cal": Rec(UC, {"calendars": Sym("parse_cals", vkey(Sym("at", vkey(parts), Poly.const(0).key()))),
                                                                                                              "settlement_calendars": settle})}))))
        want = {1: mk(Sym("ctor", "None")), 2: mk(Sym("ctor", "Some", Sym("parse_cals", vkey(Sym("at", vkey(parts), Poly.const(1).key())))))}
        ps = paths.flatten(got)
        by = {1: [], 2: [], 3: [], 4: []}
        unknown = False
        for c, v in ps:
            adm = admits(c)
            if adm is None:
                unknown = True
                continue
            for n_ in adm:
                by[n_].append(v)
        is_err = lambda v: isinstance(v, Sym) and v.tag[:2] == ("ctor", "Err")
        ck.check(r3, "more-than-one-pipe", not unknown and all(by[n_] and all(is_err(v) for v in by[n_]) for n_ in (3, 4)), "more than one '|' is not rejected with Err", where,
                 detail=paths.fmt_paths(got)[:400], sample="3 or more pieces -> Err")
        ck.check(r3, "no-pipe", not unknown and len(by[1]) == 1 and piece_norm(vkey(by[1][0])) == want[1], "a name without '|' does not give calendars = parse(part 0), no settlement calendars, name lower-cased",
                 where, detail=cel.vfmt(by[1][0])[:500] if by[1] else None, sample="Ok{name: lower, calendars: parse(parts[0]), settlement: None}")
        ck.check(r3, "one-pipe", not unknown and len(by[2]) == 1 and piece_norm(vkey(by[2][0])) == want[2],
                 "a name with one '|' does not give calendars = parse(part 0) and settlement calendars = parse(part 1)", where,
                 detail=cel.vfmt(by[2][0])[:500] if by[2] else None, sample="Ok{calendars: parse(parts[0]), settlement: Some(parse(parts[1]))}")
    except Unsupported as e:
        ck.fail(r3, "try_new", "rule could not be established (%s)" % e, where)
    fn = "calendars::calendar::parse_cals"
    r = facts.fn(fn)
    where = "%s:%d" % (r["file"], r["line"]) if r else None
    try:
        hk4 = dict(hk, **{"calendars::named::get_calendar_by_name": lambda ev, vals, e: Sym("lookup", vkey(vals[0]))})
        nm = Sym("param", "name")
        got = cel.Ev(facts, hooks=hk4).apply_fn(fn, [nm], 0)
        src = Sym("m", "split", vkey(nm), (vkey(Sym("lit", ",")),))
        want = Sym("ctor", "Ok", cel.Coll(cel.Seq(src, lambda idx: Sym("lookup", vkey(Sym("at", vkey(src), idx.key()))))))      # pieces.map(lookup).collect(), as a push loop or an iterator chain
        ck.check(r3, "parse_cals", vkey(got) == vkey(want), "parse_cals is not: for each ','-piece push get_calendar_by_name(piece)?", where, detail=cel.vfmt(got)[:400],
                 sample="for piece in name.split(','): push(get_calendar_by_name(piece)?)")
        tries = [e for e in hir.walk(r["body"]) if e.get("k") == "try" and any(x.get("k") == "call" and x["f"].get("def", "").endswith("get_calendar_by_name") for x in hir.walk(e))]
        brk = [e for e in hir.walk(r["body"]) if e.get("k") in ("break", "ret")]
        coll = [e for e in hir.walk(r["body"]) if e.get("k") == "mcall" and e["m"] == "collect" and (e.get("ty") or "").startswith("std::result::Result<")]
        ck.check(r3, "parse_cals:errors-propagate", (len(tries) == 1 or len(coll) == 1) and not brk, "unknown names are not propagated with ? (or the loop exits early)", where, sample="lookup(..)? and no break/return in the loop")
    except Unsupported as e:
        ck.fail(r3, "parse_cals", "rule could not be established (%s)" % e, where)

    # ---------------- R06.5 the Python-facing equality is the core equality
    r5 = ck.rule("R06.5", "Python-facing __eq__ of Cal, UnionCal and NamedCal: for every kind of right operand the answer is the core `==` of the two calendars "
                          "(the behavioural equality judged by R06.4) — no shortcut on names, kinds or identity", floor=9)
    core_eq = lambda ev, vals, e: Sym("core_eq", *sorted([vkey(vals[0]), vkey(vals[1])], key=repr))
    hk_eq = dict(hk, **{"calendars::calendar::Cal as std::cmp::PartialEq>::eq": core_eq, "as std::cmp::PartialEq<T>>::eq": core_eq,
                        "as std::cmp::PartialEq<calendars::calendar::UnionCal>>::eq": core_eq, "as std::cmp::PartialEq<calendars::calendar::NamedCal>>::eq": core_eq})
    for ty in ("Cal", "UnionCal", "NamedCal"):
        fn = "calendars::calendar_py::<impl calendars::calendar::%s>::__eq__" % ty
        r = facts.fn(fn)
        where = "%s:%d" % (r["file"], r["line"]) if r else None
        for kind in ("Cal", "UnionCal", "NamedCal"):
            key = "%s::__eq__[%s]" % (ty, kind)
            me, oth = Sym("self", ty), Sym("other", kind)
            try:
                got = cel.Ev(facts, hooks=hk_eq).apply_fn(fn, [me, Sym("ctor", kind, oth)], 0)
                want = [vkey(Sym("core_eq", *sorted([vkey(me), vkey(oth)], key=repr))), vkey(cel.eq_sym(me, oth))]
                ck.check(r5, key, vkey(got) in want, "%s.__eq__ on a %s is not the core `==` of the two calendars" % (ty, kind), where, detail=cel.vfmt(got)[:300], sample="*self == c")
            except Unsupported as e:
                ck.fail(r5, key, "rule could not be established (%s)" % e, where)

    # ---------------- R06.4 behavioural equality
    r4 = ck.rule("R06.4", "the behavioural PartialEq impls quantify over every calendar day of [1970-01-01, 2200-12-31] and require both is_bus_day agreement and "
                          "is_settlement agreement between self and other on the same date; NamedCal and Cal==NamedCal delegate to it", floor=4)
    hk5 = dict(hk, **{"DateRoll::cal_date_range": lambda ev, vals, e: Sym("ctor", "Ok", Sym("dates", vkey(vals[1]), vkey(vals[2]))),
                      "calendars::calendar::ndt": lambda ev, vals, e: Sym("ndt", *[vkey(v) for v in vals])})
    lo, hi = Sym("ndt", Poly.const(1970).key(), Poly.const(1).key(), Poly.const(1).key()), Sym("ndt", Poly.const(2200).key(), Poly.const(12).key(), Poly.const(31).key())
    O = Sym("param", "other")
    dates = Sym("dates", vkey(lo), vkey(hi))
    x = Sym("at", vkey(dates), Poly.atom("q0").key())
    want = ("forall", vkey(dates),          # the two (equal) date ranges walked together are the range itself
            ("and", frozenset([("iff", frozenset([nnf(vkey(P("is_bus_day", S, x))), nnf(vkey(P("is_bus_day", O, x)))])),
                               ("iff", frozenset([nnf(vkey(P("is_settlement", S, x))), nnf(vkey(P("is_settlement", O, x)))]))])))
    eqs = [r for r in facts.all_fns() if r.get("trait_item") == "std::cmp::PartialEq::eq" and r["file"] == "rust/calendars/calendar.rs" and not r.get("mac")]
    direct = [r for r in eqs if (r.get("self_ty"), r["sig"][1].replace("&", "")) in ((UC, "T"), (CAL, UC))]
    for r in direct:
        key = "eq[%s,%s]" % (r["self_ty"].rsplit("::", 1)[-1], r["sig"][1].replace("&", "").rsplit("::", 1)[-1])
        where = "%s:%d" % (r["file"], r["line"])
        try:
            got = cel.Ev(facts, hooks=hk5).apply_fn(r["fn"], [S, O], 0)
            ck.check(r4, key, nnf(vkey(got)) == want, "equality is not: for every date of 1970-01-01..2200-12-31, business-day status and settlement status both agree on that date",
                     where, detail="got %s" % cel.vfmt(got)[:700], sample="forall date in range: bus(self)==bus(other) && settle(self)==settle(other)")
        except Unsupported as e:
            ck.fail(r4, key, "rule could not be established (%s)" % e, where)
    # cal_date_range is calendar independent (so the two zipped ranges are the same dates)
    cdr = facts.fn("calendars::dateroll::DateRoll::cal_date_range")
    uses_self = cdr and any(e.get("k") == "path" and e.get("name") == "self" for e in hir.walk(cdr["body"]))
    ck.check(r4, "cal_date_range:calendar-independent", cdr is not None and not uses_self, "cal_date_range depends on the calendar: the paired dates x, y of the equality may differ",
             sample="body does not mention self")
    # delegations
    hk6 = dict(hk5, **{"PartialEq<T>>::eq": lambda ev, vals, e: Sym("uc_eq", vkey(vals[0]), vkey(vals[1]))})
    for r in eqs:
        pair = (r.get("self_ty"), r["sig"][1].replace("&", ""))
        if pair == (NC, "T"):
            got = cel.Ev(facts, hooks=hk6).apply_fn(r["fn"], [Rec(NC, {"union_cal": Sym("field", "union_cal")}), O], 0)
            ck.check(r4, "eq[NamedCal,T]", vkey(got) == vkey(Sym("uc_eq", vkey(Sym("field", "union_cal")), vkey(O))), "NamedCal == T does not delegate to its union calendar's equality",
                     "%s:%d" % (r["file"], r["line"]), detail=cel.vfmt(got)[:300], sample="self.union_cal.eq(other)")
        if pair == (CAL, NC):
            got = cel.Ev(facts, hooks=hk6).apply_fn(r["fn"], [S, Rec(NC, {"union_cal": Sym("field", "union_cal")})], 0)
            ck.check(r4, "eq[Cal,NamedCal]", vkey(got) == vkey(Sym("uc_eq", vkey(Sym("field", "union_cal")), vkey(S))), "Cal == NamedCal does not delegate to the named calendar's union equality",
                     "%s:%d" % (r["file"], r["line"]), detail=cel.vfmt(got)[:300], sample="other.union_cal.eq(self)")
    if only is not None:
        return          # included by another property for the named rules only: none of this module's own includes
    from rules import pywrap
    pywrap.run_calendar_wrappers(ck, facts)          # what a Python user calls is the wrapper: it must hand its arguments to the core method unchanged
    # a name that arrives in a stored document goes through the same parser: "regardless of letter case", "more than one '|' is an error" (C20 S20.2 for
    # NamedCal; C16 S16.2/S16.7 for the calendar types)
    from rules import c20 as c20m, c16 as c16m
    nd6, tb6 = list(ck.not_decided), list(ck.trusted)
    c20m.loader_rule(ck, facts, only={"calendars::calendar::NamedCal"})
    c16m.run(ck, facts, tier, only_types=r"^calendars::calendar::")
    # "a named calendar behaves like the explicit combination": each name must resolve to its own table (C07 R07.1 wiring; R07.2 incl. fed = nyc minus Good Friday)
    if not getattr(ck, "_c06_c07_nested", False) and (ck._only is None or ck._only & {"R07.1", "R07.2", "R07.5"}):
        ck._c06_c07_nested = True
        try:
            from rules import c07 as c07m
            with ck.restrict({"R07.1", "R07.2", "R07.5"}):          # R07.5: Cal::new stores exactly the given holidays and the weekdays of the given mask
                c07m.run(ck, facts, tier)
        finally:
            ck._c06_c07_nested = False
    ck.not_decided[:], ck.trusted[:] = nd6, tb6
    ck.not_decided += ["nothing about concrete dates (that is C07)", "equality between two plain Cal objects is the derived structural one (not part of the statement)"]
    ck.trusted += ["lib/cel.py quantifier model (all/any as forall/exists over a symbolic element)"]
